"""Demo for change B (Orientation products: lookup table, explicit `__rmul__`).

Run from the worktree root:  /venv/bin/python _seed/B/demo.py

Exits 0 on the pristine tree and with the patch applied.  Checks

1. `Orientation.__mul__` / `__rmul__` on orientations, positions and areas
   against hard-coded tables and a reference implementation embedded here
   (the pre-change if-chains), both spellings of every product, foreign
   operands (`NotImplemented` / `TypeError`), mixed products with `Grid` and
   `Transform`, result types;
2. what the dynamics read from it: `Agent.front()`, `get_next_position`,
   `Transform * Position / Area`, on borders, in corners, for all headings;
3. property C09 (objects are conserved) over a broad set of states x actions x
   built-in transition functions and compositions;
4. `pickndrop` against a reference implementation embedded here;
5. C09 along histories of the key-door and dynamic-obstacle environments wired
   through `GridWorld` exactly as the YAML files configure them.
"""
import warnings

warnings.filterwarnings("ignore")

import inspect
import itertools as itt
import os
import sys
from functools import partial

import numpy.random as rnd

sys.path.insert(0, os.getcwd())  # the worktree root (run from there)

from gym_gridverse.action import Action
from gym_gridverse.agent import Agent
from gym_gridverse.envs import observation_functions as obs_fs
from gym_gridverse.envs import reset_functions as reset_fs
from gym_gridverse.envs import reward_functions as reward_fs
from gym_gridverse.envs import terminating_functions as term_fs
from gym_gridverse.envs import transition_functions as tf
from gym_gridverse.envs.gridworld import GridWorld
from gym_gridverse.envs.utils import get_next_position
from gym_gridverse.geometry import (
    Area,
    Orientation,
    Position,
    Shape,
    Transform,
)
from gym_gridverse.grid import Grid
from gym_gridverse.grid_object import (
    Beacon,
    Box,
    Color,
    Door,
    Exit,
    Floor,
    Key,
    MovingObstacle,
    NoneGridObject,
    Telepod,
    Wall,
)
from gym_gridverse.spaces import ActionSpace, ObservationSpace, StateSpace
from gym_gridverse.state import State

CHECKS = 0


def check(condition, *message):
    global CHECKS
    CHECKS += 1
    if not condition:
        print('FAILED:', *message)
        sys.exit(1)


# --------------------------------------------------------------------------
# scenarios
# --------------------------------------------------------------------------

# cell specifications: (constructor, args); args may nest specifications
FLOOR = (Floor, ())
PALETTE = [
    FLOOR,
    FLOOR,
    FLOOR,
    (Wall, ()),
    (Exit, ()),
    (Exit, (Color.GREEN,)),
    (Door, (Door.Status.OPEN, Color.RED)),
    (Door, (Door.Status.CLOSED, Color.NONE)),
    (Door, (Door.Status.LOCKED, Color.YELLOW)),
    (Key, (Color.YELLOW,)),
    (Key, (Color.NONE,)),
    (Key, (Color.RED,)),
    (MovingObstacle, ()),
    (MovingObstacle, ()),
    (Box, ((Key, (Color.YELLOW,)),)),
    (Box, (FLOOR,)),
    (Box, ((Box, ((Key, (Color.BLUE,)),)),)),
    (Telepod, (Color.BLUE,)),
    (Telepod, (Color.BLUE,)),
    (Telepod, (Color.NONE,)),
    (Beacon, (Color.GREEN,)),
]

HELD = [None, (Key, (Color.YELLOW,)), (Key, (Color.NONE,))]

SHAPES = [(1, 1), (1, 4), (3, 1), (2, 3), (4, 6), (5, 3)]

SCENERY = (Wall, Door, Exit, Telepod, Beacon)


def build(spec):
    constructor, args = spec
    return constructor(
        *(
            build(arg)
            if isinstance(arg, tuple) and arg and callable(arg[0])
            else arg
            for arg in args
        )
    )


def grid_specs():
    """deterministic pseudo-random grid layouts, non-square ones included"""
    rng = rnd.default_rng(20260927)
    for height, width in SHAPES:
        for fill in range(3):
            yield [
                [
                    FLOOR
                    if fill == 0 and (y + x) % 2
                    else PALETTE[rng.integers(len(PALETTE))]
                    for x in range(width)
                ]
                for y in range(height)
            ]


def make_state(grid_spec, position, orientation, held_spec):
    grid = Grid([[build(spec) for spec in row] for row in grid_spec])
    held = None if held_spec is None else build(held_spec)
    return State(grid, Agent(position, orientation, held))


def scenarios():
    for grid_spec in grid_specs():
        height, width = len(grid_spec), len(grid_spec[0])
        for y, x in itt.product(range(height), range(width)):
            for orientation in Orientation:
                for held_spec in HELD:
                    yield grid_spec, Position(y, x), orientation, held_spec


# --------------------------------------------------------------------------
# property C09 on one in-place transition
# --------------------------------------------------------------------------


def descendants(obj):
    """obj, its content, the content of its content, ..."""
    chain = [obj]
    while isinstance(chain[-1], Box):
        chain.append(chain[-1].content)
    return chain


def snapshot(state):
    cells = {
        position: state.grid[position]
        for position in state.grid.area.positions()
    }
    looks = {}
    for obj in list(cells.values()) + [state.agent.grid_object]:
        for d in descendants(obj):
            looks[id(d)] = (d, type(d), d.color)
    return cells, state.agent.grid_object, looks


def tracked_ids(cells, held):
    objs = [obj for obj in cells.values() if not isinstance(obj, Floor)]
    if not isinstance(held, NoneGridObject):
        objs.append(held)
    return sorted(id(obj) for obj in objs)


def check_conservation(before, state, action, max_box_openings, label):
    cells0, held0, looks0 = before
    cells1, held1, _ = snapshot(state)

    check(set(cells0) == set(cells1), label, 'grid area changed')
    check(
        state.grid.shape
        == Shape(len(state.grid.objects), len(state.grid.objects[0])),
        label,
        'grid shape changed',
    )
    check(
        len(cells0) == sum(len(row) for row in state.grid.objects),
        label,
        'grid rows changed',
    )

    # the hand holds nothing or something holdable
    check(
        isinstance(held1, NoneGridObject) or held1.holdable,
        label,
        'non-holdable object in hand',
        held1,
    )

    # nothing recoloured / retyped, nothing unknown appears (but fresh floors)
    for obj in list(cells1.values()) + [held1]:
        if isinstance(obj, (Floor, NoneGridObject)):
            continue
        check(id(obj) in looks0, label, 'object created', obj)
        _, type0, color0 = looks0[id(obj)]
        check(type(obj) is type0 and obj.color == color0, label, 'recoloured')

    # scenery never moves (a scenery object is only ever found where it was)
    for position, obj in cells0.items():
        if isinstance(obj, SCENERY):
            check(cells1[position] is obj, label, 'scenery moved', position)
    check(not isinstance(held1, SCENERY), label, 'scenery in hand')

    # the multiset of non-floor objects (grid + hand) is conserved ...
    ids0 = tracked_ids(cells0, held0)
    ids1 = tracked_ids(cells1, held1)
    if ids0 == ids1:
        return 0

    # ... except that boxes may have been opened (box -> content)
    check(
        action is Action.ACTUATE and max_box_openings > 0,
        label,
        'objects not conserved',
    )
    openings = 0
    expected = []
    remaining = list(ids1)
    for obj in [cells0[p] for p in cells0] + [held0]:
        if isinstance(obj, (Floor, NoneGridObject)):
            continue
        chain = descendants(obj)
        present = [d for d in chain if id(d) in remaining]
        if isinstance(chain[-1], Floor) and not present:
            # opened down to its floor content
            openings += len(chain) - 1
            continue
        check(len(present) == 1, label, 'object destroyed or duplicated')
        # NOTE: by identity (grid-objects compare equal by type/state/colour)
        openings += [id(d) for d in chain].index(id(present[0]))
        remaining.remove(id(present[0]))
        expected.append(id(present[0]))
    check(not remaining, label, 'object created', remaining)
    check(0 < openings <= max_box_openings, label, 'too many box openings')
    # an opened box is replaced in place (an obstacle may then wander onto
    # the floor that an empty box leaves behind)
    for position, obj in cells0.items():
        if isinstance(obj, Box) and cells1[position] is not obj:
            check(
                any(cells1[position] is d for d in descendants(obj)[1:])
                or (
                    isinstance(descendants(obj)[-1], Floor)
                    and isinstance(cells1[position], MovingObstacle)
                ),
                label,
                'box not replaced by its content',
            )
    return openings


# --------------------------------------------------------------------------
# reference pick-and-drop
# --------------------------------------------------------------------------

FRONT = {
    Orientation.F: (-1, 0),
    Orientation.B: (1, 0),
    Orientation.L: (0, -1),
    Orientation.R: (0, 1),
}


def reference_pickndrop(state, action):
    """expected (cells, held) after pickndrop; None stands for `a floor`"""
    cells = {
        position: state.grid[position]
        for position in state.grid.area.positions()
    }
    held = state.agent.grid_object
    if action is not Action.PICK_N_DROP:
        return cells, held

    dy, dx = FRONT[state.agent.orientation]
    front = Position(state.agent.position.y + dy, state.agent.position.x + dx)
    if front not in cells:
        return cells, held

    obj = cells[front]
    empty_hand = isinstance(held, NoneGridObject)
    if obj.holdable:
        cells[front] = None if empty_hand else held  # pick or swap
        held = obj
    elif isinstance(obj, Floor) and not empty_hand:
        cells[front] = held  # drop
        held = NoneGridObject
    return cells, held


def check_pickndrop_against_reference(state, action, label):
    expected_cells, expected_held = reference_pickndrop(state, action)
    pose = (state.agent.position, state.agent.orientation)
    tf.pickndrop(state, action)
    check(
        (state.agent.position, state.agent.orientation) == pose,
        label,
        'pickndrop moved the agent',
    )
    for position, expected in expected_cells.items():
        obj = state.grid[position]
        if expected is None:
            check(isinstance(obj, Floor), label, 'floor expected', position)
        elif isinstance(expected, Floor):
            check(isinstance(obj, Floor), label, 'floor expected', position)
        else:
            check(obj is expected, label, 'wrong object', position, obj)
    if expected_held is NoneGridObject or isinstance(
        expected_held, NoneGridObject
    ):
        check(isinstance(state.agent.grid_object, NoneGridObject), label)
    else:
        check(state.agent.grid_object is expected_held, label, 'wrong hand')


# --------------------------------------------------------------------------
# 1. products of Orientation
# --------------------------------------------------------------------------

F, B, L, R = Orientation.F, Orientation.B, Orientation.L, Orientation.R

# orientation * (y, x) -> (y, x), hard-coded
ROTATED = {
    F: lambda y, x: (y, x),
    B: lambda y, x: (-y, -x),
    R: lambda y, x: (x, -y),
    L: lambda y, x: (-x, y),
}

# number of clockwise quarter turns
TURNS = {F: 0, R: 1, B: 2, L: 3}
FROM_TURNS = {turns: orientation for orientation, turns in TURNS.items()}


def reference_rotate_position(orientation, other):
    """the pre-change if-chain"""
    if orientation is Orientation.F:
        return Position(other.y, other.x)
    if orientation is Orientation.B:
        return Position(-other.y, -other.x)
    if orientation is Orientation.R:
        return Position(other.x, -other.y)
    if orientation is Orientation.L:
        return Position(-other.x, other.y)
    assert False


def reference_rotate_area(orientation, other):
    """the pre-change if-chain"""
    if orientation is Orientation.F:
        return Area((other.ymin, other.ymax), (other.xmin, other.xmax))
    if orientation is Orientation.B:
        return Area((-other.ymax, -other.ymin), (-other.xmax, -other.xmin))
    if orientation is Orientation.R:
        return Area((other.xmin, other.xmax), (-other.ymax, -other.ymin))
    if orientation is Orientation.L:
        return Area((-other.xmax, -other.xmin), (other.ymin, other.ymax))
    assert False


def same_position(got, want):
    return (
        type(got) is Position
        and got == want
        and type(got.y) is int
        and type(got.x) is int
        and hash(got) == hash(want)
    )


def same_area(got, want):
    return (
        type(got) is Area
        and got == want
        and type(got.ys) is tuple
        and type(got.xs) is tuple
        and all(type(v) is int for v in got.ys + got.xs)
        and hash(got) == hash(want)
        and repr(got) == repr(want)
    )


def raises_type_error(thunk):
    try:
        thunk()
    except TypeError:
        return True
    return False


def check_orientation_products():
    check(list(Orientation) == [F, B, L, R], 'members')
    check(Orientation.FORWARD is F and Orientation.RIGHT is R)

    # orientation x orientation: quarter turns add up
    for a, b in itt.product(Orientation, repeat=2):
        want = FROM_TURNS[(TURNS[a] + TURNS[b]) % 4]
        check(a * b is want, 'a * b', a, b)
        check(a.__mul__(b) is want and a.__rmul__(b) is want, a, b)
    check(-L is R and -R is L and -F is F and -B is B)
    orientation = F
    orientation *= L
    check(orientation is L)
    orientation *= L
    check(orientation is B)
    orientation *= R
    check(orientation is L)
    orientation *= R
    check(orientation is F)
    orientation *= R
    check(orientation is R)

    # orientation x position, both spellings
    coordinates = [0, 1, -1, 2, -3, 7, 10**12, -(10**12)]
    for orientation in Orientation:
        for y, x in itt.product(coordinates, repeat=2):
            position = Position(y, x)
            want = Position(*ROTATED[orientation](y, x))
            for got in (
                orientation * position,
                position * orientation,
                orientation.__mul__(position),
                orientation.__rmul__(position),
            ):
                check(same_position(got, want), orientation, position, got)
                check(got is not position, 'a new position is returned')
            check(want == reference_rotate_position(orientation, position))
            check(position == Position(y, x), 'operand left alone')
            # rotating back and associativity
            check(-orientation * (orientation * position) == position)
            for other in Orientation:
                check(
                    (other * orientation) * position
                    == other * (orientation * position)
                )

    # hard-coded
    check(R * Position(2, 3) == Position(3, -2))
    check(L * Position(2, 3) == Position(-3, 2))
    check(B * Position(2, 3) == Position(-2, -3))
    check(F * Position(2, 3) == Position(2, 3))
    check(Position(-1, 0) * R == Position(0, 1))
    check(Position(-1, 0) * L == Position(0, -1))
    check(Position(-1, 0) * B == Position(1, 0))

    # orientation x area, both spellings; asymmetric and degenerate areas
    bounds = [(0, 0), (-6, 0), (-3, 3), (-2, 5), (1, 4), (-7, -7), (-9, -2), (3, 3)]
    for orientation in Orientation:
        for ys, xs in itt.product(bounds, repeat=2):
            area = Area(ys, xs)
            want = reference_rotate_area(orientation, area)
            for got in (
                orientation * area,
                area * orientation,
                orientation.__mul__(area),
                orientation.__rmul__(area),
            ):
                check(same_area(got, want), orientation, area, got)
            check(area == Area(ys, xs), 'operand left alone')
            # same cells as rotating every position
            cells = sorted((orientation * p).yx for p in area.positions())
            check(cells == sorted(p.yx for p in want.positions()))
            check(-orientation * (orientation * area) == area)
    check(R * Area((-6, 0), (-3, 2)) == Area((-3, 2), (0, 6)))
    check(L * Area((-6, 0), (-3, 2)) == Area((-2, 3), (-6, 0)))
    check(B * Area((-6, 0), (-3, 2)) == Area((0, 6), (-2, 3)))
    check(F * Area((-6, 0), (-3, 2)) == Area((-6, 0), (-3, 2)))

    # foreign operands
    foreign = [3, 2.5, None, 'a', (1, 2), [1], {}, Shape(2, 3), object(), Action.ACTUATE, Color.RED]
    for orientation in Orientation:
        for other in foreign:
            check(orientation.__mul__(other) is NotImplemented, other)
            check(orientation.__rmul__(other) is NotImplemented, other)
            check(raises_type_error(lambda: orientation * other), other)
            check(raises_type_error(lambda: other * orientation), other)

    # mixed products defined by the other operand
    grid = Grid([[Wall(), Floor(), Key(Color.RED)], [Exit(), Floor(), Floor()]])
    for orientation in Orientation:
        for rotated in (orientation * grid, grid * orientation):
            check(type(rotated) is Grid)
            check(
                rotated.shape
                == (grid.shape if orientation in (F, B) else Shape(3, 2))
            )
    check((grid * R).objects == (R * grid).objects)
    check([[type(o) for o in row] for row in (grid * B).objects]
          == [[Floor, Floor, Exit], [Key, Floor, Wall]])
    for a, b in itt.product(Orientation, repeat=2):
        transform = Transform(Position(4, -2), a)
        check(transform * b is a * b and b * transform is a * b)


# --------------------------------------------------------------------------
# 2. what the dynamics read from the products
# --------------------------------------------------------------------------


def check_front_and_moves():
    moves = {
        Action.MOVE_FORWARD: F,
        Action.MOVE_BACKWARD: B,
        Action.MOVE_LEFT: L,
        Action.MOVE_RIGHT: R,
    }
    for y, x in itt.product(range(-1, 6), range(-1, 4)):
        position = Position(y, x)
        for orientation in Orientation:
            agent = Agent(position, orientation)
            dy, dx = FRONT[orientation]
            check(same_position(agent.front(), Position(y + dy, x + dx)))
            check(agent.position == position, 'front() is a query')
            check(agent.orientation is orientation)
            transform = Transform(position, orientation)
            check(transform * Position(-1, 0) == Position(y + dy, x + dx))
            check(Position(-1, 0) * transform == Position(y + dy, x + dx))
            for ys, xs in [((-6, 0), (-3, 3)), ((-2, 1), (0, 4)), ((0, 0), (0, 0))]:
                area = Area(ys, xs)
                want = reference_rotate_area(orientation, area)
                want = Area(
                    (y + want.ymin, y + want.ymax),
                    (x + want.xmin, x + want.xmax),
                )
                check(same_area(transform * area, want))
                check(same_area(area * transform, want))
            inverse = -transform
            check(inverse * (transform * Position(2, -5)) == Position(2, -5))
            check((inverse * transform) == Transform(Position(0, 0), F))
            for action in Action:
                got = get_next_position(position, orientation, action)
                if action in moves:
                    dy, dx = FRONT[
                        FROM_TURNS[(TURNS[orientation] + TURNS[moves[action]]) % 4]
                    ]
                    check(same_position(got, Position(y + dy, x + dx)))
                else:
                    check(got is position)


# --------------------------------------------------------------------------
# 3 + 4. conservation over states x actions x functions x compositions
# --------------------------------------------------------------------------


def compositions():
    names = [
        'move_agent',
        'turn_agent',
        'pickndrop',
        'move_obstacles',
        'actuate_door',
        'actuate_box',
        'teleport',
    ]
    singles = {name: tf.factory(name) for name in names}
    result = [(name, function, name.count('box')) for name, function in singles.items()]

    def chain_of(*parts):
        return tf.factory(
            'chain',
            transition_functions=[
                singles[p] if isinstance(p, str) else p for p in parts
            ],
        )

    keydoor = chain_of('move_agent', 'turn_agent', 'actuate_door', 'pickndrop')
    obstacles = chain_of('move_agent', 'turn_agent', 'move_obstacles')
    result += [
        ('chain()', chain_of(), 0),
        ('chain(keydoor)', keydoor, 0),
        ('chain(obstacles)', obstacles, 0),
        (
            'chain(everything)',
            chain_of(*names),
            1,
        ),
        (
            'chain(reversed, twice)',
            chain_of(*(list(reversed(names)) + names)),
            2,
        ),
        (
            'chain(chain, teleport, box, chain, pickndrop x2)',
            chain_of(
                keydoor,
                'teleport',
                'actuate_box',
                obstacles,
                'pickndrop',
                'pickndrop',
            ),
            1,
        ),
    ]
    return result


def check_all_states():
    functions = compositions()
    rng = rnd.default_rng(17)
    count = 0
    openings = 0
    for index, scenario in enumerate(scenarios()):
        for action in Action:
            state = make_state(*scenario)
            check_pickndrop_against_reference(
                state, action, ('pickndrop-ref', scenario[1:], action)
            )

            # the single functions relevant to this scenario, and two of the
            # compositions (all of them are visited round-robin)
            selected = functions[:7] if index % 3 == 0 else []
            selected = selected + [
                functions[7 + (index + k) % (len(functions) - 7)]
                for k in range(2)
            ]
            for name, function, max_openings in selected:
                for use_rng in (rng, None):
                    if use_rng is None and index % 7:
                        continue
                    state = make_state(*scenario)
                    before = snapshot(state)
                    function(state, action, rng=use_rng)
                    openings += check_conservation(
                        before,
                        state,
                        action,
                        max_openings,
                        (name, scenario[1:], action),
                    )
                    count += 1
    check(count > 50000, 'too few scenarios', count)
    check(openings > 100, 'boxes were never opened', openings)
    return count


# --------------------------------------------------------------------------
# 5. histories of the key-door and obstacle environments
# --------------------------------------------------------------------------


def chain_from_data(data):
    # as envs/yaml/factory.py does it
    return tf.factory(
        'chain',
        transition_functions=[tf.factory(**entry) for entry in data],
    )


def make_keydoor(shape):
    objects = [Wall, Floor, Exit, Door, Key]
    colors = [Color.NONE, Color.YELLOW]
    reset = reset_fs.factory('keydoor', shape=shape)
    area = Area((-6, 0), (-3, 3))
    return GridWorld(
        StateSpace(shape, objects, colors),
        ActionSpace(list(Action)),
        ObservationSpace(Shape(7, 7), objects, colors),
        reset,
        chain_from_data(
            [
                {'name': 'move_agent'},
                {'name': 'turn_agent'},
                {'name': 'actuate_door'},
                {'name': 'pickndrop'},
            ]
        ),
        obs_fs.factory('partially_occluded', area=area),
        reward_fs.factory('living_reward', reward=-0.05),
        term_fs.factory('reach_exit'),
    )


def make_obstacles(shape, num_obstacles):
    objects = [Wall, Floor, Exit, MovingObstacle]
    colors = [Color.NONE]
    actions = [
        Action.MOVE_FORWARD,
        Action.MOVE_BACKWARD,
        Action.MOVE_LEFT,
        Action.MOVE_RIGHT,
        Action.TURN_LEFT,
        Action.TURN_RIGHT,
    ]
    area = Area((-6, 0), (-3, 3))
    return GridWorld(
        StateSpace(shape, objects, colors),
        ActionSpace(actions),
        ObservationSpace(Shape(7, 7), objects, colors),
        reset_fs.factory(
            'dynamic_obstacles',
            shape=shape,
            num_obstacles=num_obstacles,
            random_agent=False,
        ),
        chain_from_data(
            [
                {'name': 'move_agent'},
                {'name': 'turn_agent'},
                {'name': 'move_obstacles'},
            ]
        ),
        obs_fs.factory('partially_occluded', area=area),
        reward_fs.factory('living_reward', reward=-0.05),
        term_fs.factory('reach_exit'),
    )


def inventory(state):
    """multiset of non-floor (type, colour) on the grid and in the hand"""
    objs = [
        state.grid[position]
        for position in state.grid.area.positions()
        if not isinstance(state.grid[position], Floor)
    ]
    if not isinstance(state.agent.grid_object, NoneGridObject):
        objs.append(state.agent.grid_object)
    return sorted((type(obj).__name__, obj.color.name) for obj in objs)


def scenery_map(state):
    return {
        position: (type(state.grid[position]).__name__, state.grid[position].color)
        for position in state.grid.area.positions()
        if isinstance(state.grid[position], SCENERY)
    }


def run_history(env, seed, steps, policy_seed):
    env.set_seed(seed)
    env.reset()
    policy = rnd.default_rng(policy_seed)
    actions = env.action_space.actions
    trace = []
    for _ in range(steps):
        state = env.state
        inv, scenery = inventory(state), scenery_map(state)
        action = actions[policy.integers(len(actions))]
        _, done = env.step(action)
        next_state = env.state
        check(next_state is not state, 'step works on a copy')
        check(inventory(state) == inv, 'step leaves its input alone')
        check(inventory(next_state) == inv, 'history inventory', seed, action)
        check(scenery_map(next_state) == scenery, 'history scenery', seed)
        check(
            isinstance(next_state.agent.grid_object, (NoneGridObject, Key)),
            'history hand',
        )
        env.observation  # wiring of the observation function keeps working
        trace.append((hash(next_state.grid), next_state.agent.position.yx))
        if done:
            env.reset()
    return trace


def check_histories():
    envs = [
        make_keydoor(Shape(5, 5)),
        make_keydoor(Shape(4, 9)),
        make_keydoor(Shape(7, 6)),
        make_obstacles(Shape(7, 7), 2),
        make_obstacles(Shape(4, 8), 5),
        make_obstacles(Shape(4, 4), 2),
        make_obstacles(Shape(5, 4), 0),
    ]
    # several environments in one process, interleaved, re-seeded
    for seed in (0, 1, 7):
        traces = [run_history(env, seed, 120, seed + 100) for env in envs]
        again = [run_history(env, seed, 120, seed + 100) for env in reversed(envs)]
        check(traces == list(reversed(again)), 're-seeding reproduces', seed)


def main():
    check_orientation_products()
    check_front_and_moves()
    count = check_all_states()
    check_histories()
    print(f'OK: {CHECKS} checks, {count} transitions')


if __name__ == '__main__':
    main()
