"""Demo for change A (table-driven ``get_manhattan_boundary``).

Exits 0 on the pristine tree and with the patch applied.  Checks

1. ``get_manhattan_boundary`` against an embedded reference (exact list
   equality, order included) and against the geometric definition,
2. property C11 for ``move_obstacles`` on many layouts, for *every* resolution
   of every random choice (scripted generator, exhaustive enumeration) and for
   many numpy seeds, against an embedded reference implementation,
3. property C11 for ``teleport`` likewise,
4. whole environments (several at once, re-seeded) built through the python API.
"""
import itertools as itt
import os
import sys
import warnings

# run as `/venv/bin/python _seed/A/demo.py` from the worktree root
sys.path.insert(0, os.getcwd())
warnings.simplefilter('ignore')

import numpy.random as rnd  # noqa: E402

from gym_gridverse.action import Action
from gym_gridverse.agent import Agent
from gym_gridverse.envs.transition_functions import move_obstacles, teleport
from gym_gridverse.geometry import (
    Orientation,
    Position,
    Shape,
    get_manhattan_boundary,
)
from gym_gridverse.grid import Grid
from gym_gridverse.grid_object import (
    Color,
    Exit,
    Floor,
    Key,
    MovingObstacle,
    Telepod,
    Wall,
)
from gym_gridverse.rng import reset_gv_rng
from gym_gridverse.state import State

num_checks = 0


def check(condition, *message):
    global num_checks
    num_checks += 1
    if not condition:
        print('FAILED:', *message)
        sys.exit(1)


# --------------------------------------------------------------------------
# scripted generator: enumerates every resolution of every random choice
# --------------------------------------------------------------------------


class ScriptedRng:
    """Answers ``choice(n)`` from a script; records the arity of each call."""

    def __init__(self, script):
        self.script = list(script)
        self.arities = []

    def choice(self, n):
        # same contract as numpy.random.Generator.choice on an int
        if n <= 0:
            raise ValueError('a must be a positive integer')
        k = len(self.arities)
        self.arities.append(n)
        value = self.script[k] if k < len(self.script) else 0
        assert 0 <= value < n
        return value


def all_resolutions(run):
    """Calls run(rng) once for every possible sequence of random choices.

    Yields (script, result) pairs.  Works as an odometer over the tree of
    choices, which may have data-dependent arities.
    """
    script = []
    while True:
        rng = ScriptedRng(script)
        result = run(rng)
        arities = rng.arities
        script = (script + [0] * len(arities))[: len(arities)]
        yield tuple(script), result
        # next script in lexicographic order
        k = len(arities) - 1
        while k >= 0 and script[k] + 1 >= arities[k]:
            k -= 1
        if k < 0:
            return
        script = script[: k + 1]
        script[k] += 1


# --------------------------------------------------------------------------
# 1. get_manhattan_boundary
# --------------------------------------------------------------------------


def reference_boundary(position, distance):
    y, x = position.y, position.x
    out = []
    for i in range(distance):
        out.append(Position(y - distance + i, x + i))
    for i in range(distance):
        out.append(Position(y + i, x + distance - i))
    for i in range(distance):
        out.append(Position(y + distance - i, x - i))
    for i in range(distance):
        out.append(Position(y - i, x - distance + i))
    return out


def check_boundary():
    for y, x in itt.product(range(-4, 6), range(-5, 5)):
        position = Position(y, x)
        for distance in range(1, 8):
            boundary = get_manhattan_boundary(position, distance)
            check(type(boundary) is list, 'boundary is a list')
            check(
                boundary == reference_boundary(position, distance),
                'boundary',
                position,
                distance,
                boundary,
            )
            check(len(boundary) == 4 * distance, 'boundary size')
            check(len(set(boundary)) == 4 * distance, 'boundary distinct')
            check(
                all(
                    Position.manhattan_distance(position, p) == distance
                    for p in boundary
                ),
                'boundary distance',
            )
            check(position not in boundary, 'center excluded')
            # fresh list on every call
            check(
                get_manhattan_boundary(position, distance) is not boundary,
                'fresh list',
            )

    # hard-coded expectations
    check(
        get_manhattan_boundary(Position(0, 0), 1)
        == [Position(-1, 0), Position(0, 1), Position(1, 0), Position(0, -1)],
        'distance 1 order: up, right, down, left',
    )
    check(
        get_manhattan_boundary(Position(2, 3), 2)
        == [
            Position(0, 3),
            Position(1, 4),
            Position(2, 5),
            Position(3, 4),
            Position(4, 3),
            Position(3, 2),
            Position(2, 1),
            Position(1, 2),
        ],
        'distance 2 order',
    )

    for distance in [0, -1, -7]:
        try:
            get_manhattan_boundary(Position(1, 1), distance)
        except ValueError as error:
            check(
                str(error) == f'distance ({distance}) must be positive',
                'message',
            )
        else:
            check(False, 'non-positive distance must raise ValueError')


# --------------------------------------------------------------------------
# layouts
# --------------------------------------------------------------------------

LEGEND = {
    '.': Floor,
    '#': Wall,
    'o': MovingObstacle,
    'E': Exit,
    'k': lambda: Key(Color.RED),
    'r': lambda: Telepod(Color.RED),
    'g': lambda: Telepod(Color.GREEN),
    'b': lambda: Telepod(Color.BLUE),
    'y': lambda: Telepod(Color.YELLOW),
    'n': lambda: Telepod(Color.NONE),
}


def make_grid(rows):
    return Grid([[LEGEND[c]() for c in row] for row in rows])


OBSTACLE_LAYOUTS = [
    ['o'],
    ['.'],
    ['o.'],
    ['.o'],
    ['o', '.'],
    ['.', 'o'],
    ['oo'],
    ['o.o'],
    ['.o.'],
    ['o..o.'],
    ['o', '.', 'o', '.'],
    ['o.', '.o'],
    ['oo', 'oo'],
    ['oo', 'o.'],
    ['...', '.o.', '...'],
    ['#.#', '.o.', '#.#'],
    ['###', '#o#', '###'],
    ['#E#', 'kor', '#.#'],
    ['o..', '...', '..o'],
    ['o.o', '.o.', 'o.o'],
    ['.o.', 'o.o', '.o.'],
    ['ooo', 'o.o', 'ooo'],
    ['.....o', 'o.....'],
    ['o.....', '.....o'],
    ['o#.', '.#o', '...', 'o#.'],
    ['#####', '#o.o#', '#.E.#', '#####'],
    ['r.o', 'o.r'],
    ['....', '.oo.', '....'],
    ['.o', 'o.', '.o', 'o.', '.o'],
    ['.....', '.o.o.', '.....', '.o.o.', '.....'],
    ['..o..', '.....', 'o...o', '..o..'],
    ['.o.o.o.'],
    ['.', 'o', '.', 'o', '.', '.', 'o'],
    ['.oo.', '.oo.', '....'],
]


def snapshot(grid):
    """identity of the object in every cell"""
    return {
        position: grid[position] for position in grid.area.positions()
    }


# --------------------------------------------------------------------------
# 2. move_obstacles
# --------------------------------------------------------------------------


def reference_move_obstacles(rows, rng):
    """Independent implementation on a plain list-of-lists of objects."""
    height, width = len(rows), len(rows[0])
    sources = [
        (y, x)
        for y in range(height)
        for x in range(width)
        if isinstance(rows[y][x], MovingObstacle)
    ]
    trace = []
    for y, x in sources:
        free = []
        for dy, dx in [(-1, 0), (0, 1), (1, 0), (0, -1)]:
            ny, nx = y + dy, x + dx
            if 0 <= ny < height and 0 <= nx < width:
                if isinstance(rows[ny][nx], Floor):
                    free.append((ny, nx))
        if free:
            ny, nx = free[rng.choice(len(free))]
            rows[y][x], rows[ny][nx] = rows[ny][nx], rows[y][x]
            trace.append(((y, x), tuple(free), (ny, nx)))
        else:
            trace.append(((y, x), (), (y, x)))
    return trace


def check_obstacle_outcome(before, grid, agent_before, state, label):
    after = snapshot(grid)
    check(before.keys() == after.keys(), 'same cells', label)

    # objects are permuted: nothing lost, nothing duplicated, nothing created
    check(
        sorted(map(id, before.values())) == sorted(map(id, after.values())),
        'objects conserved',
        label,
    )
    check(
        len(set(map(id, after.values()))) == len(after),
        'no object in two cells',
        label,
    )

    where_after = {id(obj): position for position, obj in after.items()}
    for position, obj in before.items():
        new_position = where_after[id(obj)]
        if isinstance(obj, MovingObstacle):
            # moved at most one step (never moved twice)
            check(
                Position.manhattan_distance(position, new_position) <= 1,
                'obstacle moved at most once',
                label,
            )
            check(grid.area.contains(new_position), 'inside the grid', label)
            # destination was not a non-floor cell
            check(
                new_position == position
                or isinstance(before[new_position], (Floor, MovingObstacle)),
                'destination was floor (possibly vacated by an obstacle)',
                label,
            )
        elif not isinstance(obj, Floor):
            # walls, exits, keys, telepods never move
            check(new_position == position, 'non-floor untouched', label)

    # the agent is not affected
    check(state.agent.position == agent_before[0], 'agent position', label)
    check(state.agent.orientation == agent_before[1], 'agent orientation', label)


def check_move_obstacles_exhaustive(layout, action):
    def run(rng):
        grid = make_grid(layout)
        state = State(grid, Agent(Position(0, 0), Orientation.F))
        before = snapshot(grid)
        move_obstacles(state, action, rng=rng)
        check_obstacle_outcome(
            before, grid, (Position(0, 0), Orientation.F), state, layout
        )
        return [[type(obj) for obj in row] for row in grid.objects]

    def run_reference(rng):
        rows = make_grid(layout).objects
        trace = reference_move_obstacles(rows, rng)
        return [[type(obj) for obj in row] for row in rows], trace

    outcomes = dict(all_resolutions(run))
    reference = dict(all_resolutions(run_reference))

    # the very same tree of random choices, with the same result at every leaf
    check(outcomes.keys() == reference.keys(), 'same choice tree', layout)
    for script, types in outcomes.items():
        check(types == reference[script][0], 'same outcome', layout, script)

    # per-turn rules, read off the reference trace: the free neighbours at the
    # obstacle's turn are the arity of the choice, every one of them is taken
    # in some resolution, and an obstacle stays only if it has none
    taken = {}
    for script, (_, trace) in reference.items():
        k = 0
        for source, free, destination in trace:
            if free:
                check(destination in free, 'moves to a free neighbour', layout)
                prefix = script[:k]
                taken.setdefault((prefix, source, free), set()).add(destination)
                k += 1
            else:
                check(destination == source, 'stays only if stuck', layout)
        check(k == len(script), 'one choice per movable obstacle', layout)
    for (prefix, source, free), destinations in taken.items():
        check(
            destinations == set(free),
            'every free neighbour is a possible destination',
            layout,
            source,
        )
    return len(outcomes)


def check_move_obstacles_seeded(layout, seed):
    grid = make_grid(layout)
    state = State(grid, Agent(Position(0, 0), Orientation.R))
    before = snapshot(grid)
    rows = make_grid(layout).objects

    move_obstacles(state, Action.MOVE_FORWARD, rng=rnd.default_rng(seed))
    reference_move_obstacles(rows, rnd.default_rng(seed))

    check_obstacle_outcome(
        before, grid, (Position(0, 0), Orientation.R), state, (layout, seed)
    )
    check(
        [[type(obj) for obj in row] for row in grid.objects]
        == [[type(obj) for obj in row] for row in rows],
        'same seeded outcome',
        layout,
        seed,
    )

    # repeated calls keep conserving objects
    rng = rnd.default_rng(seed)
    for _ in range(5):
        before = snapshot(grid)
        agent_before = (state.agent.position, state.agent.orientation)
        move_obstacles(state, Action.ACTUATE, rng=rng)
        check_obstacle_outcome(before, grid, agent_before, state, layout)


# --------------------------------------------------------------------------
# 3. teleport
# --------------------------------------------------------------------------

TELEPOD_LAYOUTS = [
    ['r'],
    ['rr'],
    ['r', 'r'],
    ['r.r'],
    ['rg'],
    ['rgr'],
    ['rrr'],
    ['nn'],
    ['n.r', 'r.n'],
    ['n..', '.n.', '..n'],
    ['r.g.b', '.....', 'b.g.r'],
    ['rrrr', 'gggg'],
    ['y#o', '.E.', 'k.y'],
    ['r....', '.....', '....g'],
    ['bybyb'],
    ['r', '.', 'g', '.', 'r', '.', 'r'],
]


def reference_teleport_targets(rows, y, x):
    pod = rows[y][x]
    if not isinstance(pod, Telepod):
        return None
    return [
        (v, u)
        for v in range(len(rows))
        for u in range(len(rows[0]))
        if (v, u) != (y, x)
        and isinstance(rows[v][u], Telepod)
        and rows[v][u].color is pod.color
    ]


def check_teleport(layout):
    height, width = len(layout), len(layout[0])
    for y, x, orientation, action in itt.product(
        range(height), range(width), Orientation, Action
    ):
        start = Position(y, x)
        targets = reference_teleport_targets(make_grid(layout).objects, y, x)

        def run(rng):
            grid = make_grid(layout)
            state = State(grid, Agent(start, orientation))
            before = snapshot(grid)
            teleport(state, action, rng=rng)
            after = snapshot(grid)
            check(
                all(before[p] is after[p] for p in before),
                'teleport leaves the grid alone',
                layout,
            )
            check(state.agent.orientation is orientation, 'orientation kept')
            return state.agent.position

        outcomes = dict(all_resolutions(run))

        if not targets:
            # not on a telepod, or no same-coloured partner: never displaced,
            # and no random number consumed
            check(outcomes == {(): start}, 'not displaced', layout, start)
        else:
            check(
                all(len(script) == 1 for script in outcomes),
                'exactly one random choice',
                layout,
            )
            check(
                [outcomes[(i,)] for i in range(len(targets))]
                == [Position(*t) for t in targets],
                'each other same-coloured telepod, each possible',
                layout,
                start,
            )
            check(start not in outcomes.values(), 'sent elsewhere', layout)

        # numpy generators agree with the reference
        for seed in range(3):
            grid = make_grid(layout)
            state = State(grid, Agent(start, orientation))
            teleport(state, action, rng=rnd.default_rng(seed))
            if not targets:
                expected = start
            else:
                i = rnd.default_rng(seed).choice(len(targets))
                expected = Position(*targets[i])
            check(state.agent.position == expected, 'seeded teleport', layout)


# --------------------------------------------------------------------------
# 4. whole environments through the python API
# --------------------------------------------------------------------------


def check_environments():
    from gym_gridverse.envs import reset_functions as reset_fs

    # library-level generator (rng=None), re-seeded:  reproducible
    results = []
    for _ in range(2):
        reset_gv_rng(1234)
        run = []
        states = [
            reset_fs.dynamic_obstacles(Shape(5, 9), 6, random_agent=True),
            reset_fs.dynamic_obstacles(Shape(8, 4), 3),
            reset_fs.teleport(Shape(6, 7)),
        ]
        for step in range(20):
            for state in states:  # several environments interleaved
                before = snapshot(state.grid)
                agent_before = (state.agent.position, state.agent.orientation)
                move_obstacles(state, Action.MOVE_FORWARD)
                check_obstacle_outcome(
                    before, state.grid, agent_before, state, 'env'
                )
                num_obstacles = sum(
                    isinstance(obj, MovingObstacle)
                    for row in state.grid.objects
                    for obj in row
                )
                run.append(
                    tuple(
                        position
                        for position in state.grid.area.positions()
                        if isinstance(state.grid[position], MovingObstacle)
                    )
                )
                check(len(run[-1]) == num_obstacles, 'count')

        # teleport environment: put the agent on a telepod
        state = states[2]
        pods = [
            position
            for position in state.grid.area.positions()
            if isinstance(state.grid[position], Telepod)
        ]
        check(len(pods) == 2, 'two telepods')
        state.agent.position = pods[0]
        teleport(state, Action.MOVE_FORWARD)
        check(state.agent.position == pods[1], 'teleported to the partner')
        teleport(state, Action.MOVE_FORWARD)
        check(state.agent.position == pods[0], 'and back')
        state.agent.position = Position(1, 1)
        teleport(state, Action.MOVE_FORWARD)
        check(state.agent.position == Position(1, 1), 'not displaced')
        results.append(run)

    check(results[0] == results[1], 're-seeding reproduces the run')

    # number of obstacles is what was asked for
    reset_gv_rng(7)
    for shape, n in [(Shape(4, 4), 0), (Shape(4, 5), 1), (Shape(7, 5), 13)]:
        state = reset_fs.dynamic_obstacles(shape, n)
        for _ in range(10):
            move_obstacles(state, Action.TURN_LEFT)
        count = sum(
            isinstance(obj, MovingObstacle)
            for row in state.grid.objects
            for obj in row
        )
        check(count == n, 'obstacle count', shape, n)


def main():
    check_boundary()

    total = 0
    for layout in OBSTACLE_LAYOUTS:
        total += check_move_obstacles_exhaustive(layout, Action.MOVE_FORWARD)
        for seed in range(12):
            check_move_obstacles_seeded(layout, seed)
    # the action is ignored
    for action in Action:
        check_move_obstacles_exhaustive(['o.o', '.o.', 'o.#'], action)

    for layout in TELEPOD_LAYOUTS:
        check_teleport(layout)

    check_environments()

    print(f'OK ({num_checks} checks, {total} obstacle resolutions)')


if __name__ == '__main__':
    main()
