"""Demo for C09 (object conservation).

Runs the library's built-in transition functions next to reference
implementations embedded here (the spelled-out originals) on many random
states, all actions, all four headings, non-square grids, agents on borders and
in corners, and on histories of the key-door / obstacle / teleport
environments.  Checks that

* results (grid, agent, held item, generator state) equal the reference's;
* the multiset of non-floor objects + held item is conserved (opening a box
  replaces the box by its content);
* scenery never moves, pickndrop only ever touches the front cell and the hand.

Exits 0 on success; does not depend on any patch being applied.
"""
import itertools as itt
import os
import sys
from collections import Counter

sys.path.insert(0, os.getcwd())

import numpy.random as rnd  # noqa: E402

from gym_gridverse import rng as gv_rng  # noqa: E402
from gym_gridverse.action import Action  # noqa: E402
from gym_gridverse.agent import Agent  # noqa: E402
from gym_gridverse.envs import reset_functions as rf  # noqa: E402
from gym_gridverse.envs import transition_functions as tf  # noqa: E402
from gym_gridverse.envs.utils import get_next_position  # noqa: E402
from gym_gridverse.geometry import (  # noqa: E402
    Orientation,
    Position,
    Shape,
    get_manhattan_boundary,
)
from gym_gridverse.grid import Grid  # noqa: E402
from gym_gridverse.grid_object import (  # noqa: E402
    Beacon,
    Box,
    Color,
    Door,
    Exit,
    Floor,
    Key,
    MovingObstacle,
    NoneGridObject,
    Telepod,
    Wall,
)
from gym_gridverse.state import State  # noqa: E402
from gym_gridverse.utils.fast_copy import fast_copy  # noqa: E402

# ---------------------------------------------------------------- references


def ref_move_agent(state, action, *, rng=None):
    if not action.is_move():
        return
    next_position = get_next_position(
        state.agent.position, state.agent.orientation, action
    )
    if not state.grid.area.contains(next_position):
        return
    obj = state.grid[next_position]
    if not obj.blocks_movement:
        state.agent.position = next_position


def ref_turn_agent(state, action, *, rng=None):
    if action is Action.TURN_LEFT:
        state.agent.orientation *= Orientation.L
    elif action is Action.TURN_RIGHT:
        state.agent.orientation *= Orientation.R


def ref_pickndrop(state, action, *, rng=None):
    if action is not Action.PICK_N_DROP:
        return
    position_front = state.agent.front()
    if not state.grid.area.contains(position_front):
        return
    obj_front = state.grid[position_front]
    can_be_dropped = isinstance(obj_front, Floor) or obj_front.holdable
    if not can_be_dropped:
        return
    state.grid[position_front] = (
        state.agent.grid_object
        if not isinstance(state.agent.grid_object, NoneGridObject)
        else Floor()
    )
    state.agent.grid_object = (
        obj_front if obj_front.holdable else NoneGridObject()
    )


def ref_move_obstacles(state, action, *, rng=None):
    rng = gv_rng.get_gv_rng_if_none(rng)
    positions = [
        position
        for position in state.grid.area.positions()
        if isinstance(state.grid[position], MovingObstacle)
    ]
    for position in positions:
        next_positions = [
            next_position
            for next_position in get_manhattan_boundary(position, distance=1)
            if state.grid.area.contains(next_position)
            and isinstance(state.grid[next_position], Floor)
        ]
        try:
            i = rng.choice(len(next_positions))
        except ValueError:
            pass
        else:
            state.grid.swap(position, next_positions[i])


def ref_actuate_door(state, action, *, rng=None):
    if action is not Action.ACTUATE:
        return
    position = state.agent.front()
    if not state.grid.area.contains(position):
        return
    door = state.grid[position]
    if not isinstance(door, Door):
        return
    if door.is_open:
        pass
    elif not door.is_locked:
        door.state = Door.Status.OPEN
    elif (
        isinstance(state.agent.grid_object, Key)
        and state.agent.grid_object.color == door.color
    ):
        door.state = Door.Status.OPEN


def ref_actuate_box(state, action, *, rng=None):
    if action is not Action.ACTUATE:
        return
    position = state.agent.front()
    if not state.grid.area.contains(position):
        return
    box = state.grid[position]
    if isinstance(box, Box):
        state.grid[position] = box.content


def ref_teleport(state, action, *, rng=None):
    rng = gv_rng.get_gv_rng_if_none(rng)
    telepod = state.grid[state.agent.position]
    if isinstance(telepod, Telepod):
        positions = [
            position
            for position in state.grid.area.positions()
            if position != state.agent.position
            and isinstance(state.grid[position], Telepod)
            and state.grid[position].color == telepod.color
        ]
        try:
            i = rng.choice(len(positions))
        except ValueError:
            pass
        else:
            state.agent.position = positions[i]


PAIRS = {
    'move_agent': (tf.move_agent, ref_move_agent),
    'turn_agent': (tf.turn_agent, ref_turn_agent),
    'pickndrop': (tf.pickndrop, ref_pickndrop),
    'move_obstacles': (tf.move_obstacles, ref_move_obstacles),
    'actuate_door': (tf.actuate_door, ref_actuate_door),
    'actuate_box': (tf.actuate_box, ref_actuate_box),
    'teleport': (tf.teleport, ref_teleport),
}

# ------------------------------------------------------------------ helpers

SCENERY = (Wall, Exit, Door, Telepod, Beacon, Box)


def okey(obj):
    """identity-free description of an object (type, state, colour, content)"""
    if isinstance(obj, Box):
        return ('Box', okey(obj.content))
    return (type(obj).__name__, obj.state_index, obj.color)


def ikey(obj):
    """like okey, but a door is the same door whether open, closed or locked"""
    if isinstance(obj, Box):
        return ('Box', ikey(obj.content))
    if isinstance(obj, Door):
        return ('Door', obj.color)
    return okey(obj)


def inventory(state):
    c = Counter()
    for p in state.grid.area.positions():
        o = state.grid[p]
        if not isinstance(o, Floor):
            c[ikey(o)] += 1
    if not isinstance(state.agent.grid_object, NoneGridObject):
        c[ikey(state.agent.grid_object)] += 1
    return c


def snapshot(state):
    return (
        [
            [okey(state.grid[y, x]) for x in range(state.grid.shape.width)]
            for y in range(state.grid.shape.height)
        ],
        state.agent.position,
        state.agent.orientation,
        okey(state.agent.grid_object),
    )


def ids(state):
    return [
        [id(state.grid[y, x]) for x in range(state.grid.shape.width)]
        for y in range(state.grid.shape.height)
    ]


def check(cond, msg):
    if not cond:
        print('FAIL:', msg)
        sys.exit(1)


def check_conserved(name, before, state_before, action, after, state_after):
    """before/after are inventories"""
    if before == after:
        return
    # only legal difference: a box in front was opened by ACTUATE
    check(name in ('actuate_box', 'chain'), f'{name}: inventory changed')
    check(action is Action.ACTUATE, f'{name}: inventory changed w/o actuate')
    front = state_before.agent.front()
    check(state_before.grid.area.contains(front), 'box opened off-grid')
    box = state_before.grid[front]
    check(isinstance(box, Box), f'{name}: inventory changed, no box in front')
    expected = Counter(before)
    expected[ikey(box)] -= 1
    if not isinstance(box.content, Floor):
        expected[ikey(box.content)] += 1
    expected = +expected
    check(expected == after, f'{name}: box opening did not yield its content')


def check_scenery_and_locality(name, sb, sa, action):
    """scenery never moves; pickndrop touches only front cell + hand"""
    for p in sb.grid.area.positions():
        ob, oa = sb.grid[p], sa.grid[p]
        if isinstance(ob, (Wall, Exit, Door, Telepod, Beacon)):
            check(type(oa) is type(ob), f'{name}: scenery at {p} changed')
            check(oa.color == ob.color, f'{name}: scenery at {p} recoloured')
        if isinstance(ob, Box) and type(oa) is not Box:
            check(
                action is Action.ACTUATE and p == sb.agent.front(),
                f'{name}: box at {p} vanished',
            )
    if name == 'pickndrop':
        front = sb.agent.front()
        for p in sb.grid.area.positions():
            if p != front:
                check(
                    okey(sb.grid[p]) == okey(sa.grid[p]),
                    f'pickndrop changed non-front cell {p}',
                )
        check(sb.agent.position == sa.agent.position, 'pickndrop moved agent')
        check(
            sb.agent.orientation == sa.agent.orientation,
            'pickndrop turned agent',
        )
        if sb.grid.area.contains(front):
            ob = sb.grid[front]
            if not (isinstance(ob, Floor) or ob.holdable):
                check(snapshot(sb) == snapshot(sa), 'pickndrop reached scenery')
        else:
            check(snapshot(sb) == snapshot(sa), 'pickndrop reached off-grid')


def run_pair(name, state, action, seed):
    """runs library and reference on copies, compares everything"""
    lib, ref = PAIRS[name]
    s_lib, s_ref, s_before = fast_copy(state), fast_copy(state), state
    r_lib, r_ref = rnd.default_rng(seed), rnd.default_rng(seed)
    lib(s_lib, action, rng=r_lib)
    ref(s_ref, action, rng=r_ref)
    check(
        snapshot(s_lib) == snapshot(s_ref),
        f'{name}: differs from reference on {action} seed {seed}\n'
        f'{snapshot(s_before)}',
    )
    check(s_lib == s_ref, f'{name}: State.__eq__ differs from reference')
    check(
        r_lib.bit_generator.state == r_ref.bit_generator.state,
        f'{name}: generator consumed differently from reference',
    )
    check_conserved(
        name, inventory(s_before), s_before, action, inventory(s_lib), s_lib
    )
    check_scenery_and_locality(name, s_before, s_lib, action)
    return s_lib


# ----------------------------------------------------------- random states

COLORS = [Color.NONE, Color.RED, Color.GREEN, Color.BLUE, Color.YELLOW]


def random_object(r, depth=0):
    k = r.integers(0, 12)
    c = COLORS[r.integers(len(COLORS))]
    if k <= 3:
        return Floor()
    if k == 4:
        return Wall()
    if k == 5:
        return Exit()
    if k == 6:
        return Door(list(Door.Status)[r.integers(3)], c)
    if k == 7:
        return Key(c)
    if k == 8:
        return MovingObstacle()
    if k == 9:
        if depth >= 2:
            return Key(c)
        return Box(random_object(r, depth + 1))
    if k == 10:
        return Telepod(COLORS[r.integers(3)])
    return Beacon(c)


def random_state(r, height, width):
    grid = Grid(
        [[random_object(r) for _ in range(width)] for _ in range(height)]
    )
    y, x = int(r.integers(height)), int(r.integers(width))
    # bias towards borders and corners
    if r.random() < 0.5:
        y = int(r.choice([0, height - 1]))
    if r.random() < 0.5:
        x = int(r.choice([0, width - 1]))
    orientation = list(Orientation)[r.integers(4)]
    held = [None, None, Key(COLORS[r.integers(len(COLORS))]), Key(Color.NONE)][
        r.integers(4)
    ]
    return State(grid, Agent(Position(y, x), orientation, held))


def test_random_states():
    r = rnd.default_rng(20260927)
    shapes = [(1, 1), (1, 4), (5, 1), (2, 3), (3, 2), (4, 7), (6, 3), (5, 5)]
    n = 0
    for height, width in shapes:
        for _ in range(25):
            state = random_state(r, height, width)
            for name, action in itt.product(PAIRS, Action):
                run_pair(name, state, action, seed=int(r.integers(1 << 30)))
                n += 1
    return n


def test_corners_all_headings():
    """every cell x every heading of a non-square grid with mixed contents"""
    n = 0
    for height, width in [(3, 5), (4, 2)]:
        r = rnd.default_rng(height * 10 + width)
        base = random_state(r, height, width)
        for y, x, o, held in itt.product(
            range(height),
            range(width),
            Orientation,
            [None, Key(Color.NONE), Key(Color.RED)],
        ):
            state = State(fast_copy(base.grid), Agent(Position(y, x), o, held))
            for name, action in itt.product(PAIRS, Action):
                run_pair(name, state, action, seed=n)
                n += 1
    return n


def test_empty_choice_leaves_generator_alone():
    """obstacles and telepods with nowhere to go: no move, no draw"""
    W, O, T = Wall, MovingObstacle, lambda: Telepod(Color.RED)
    grid = Grid([[O(), O()], [W(), T()]])
    state = State(grid, Agent(Position(1, 1), Orientation.F))
    for name in ('move_obstacles', 'teleport'):
        lib, _ = PAIRS[name]
        for action in Action:
            s = fast_copy(state)
            r = rnd.default_rng(3)
            before = r.bit_generator.state
            lib(s, action, rng=r)
            check(snapshot(s) == snapshot(state), f'{name}: moved w/o target')
            check(r.bit_generator.state == before, f'{name}: drew w/o target')
    # lone obstacle with a single free neighbour: must go there, one draw
    grid = Grid([[O(), Floor(), W()]])
    state = State(grid, Agent(Position(0, 2), Orientation.F))
    r, r2 = rnd.default_rng(5), rnd.default_rng(5)
    tf.move_obstacles(state, Action.TURN_LEFT, rng=r)
    r2.choice(1)
    check(isinstance(state.grid[0, 1], MovingObstacle), 'obstacle did not move')
    check(isinstance(state.grid[0, 0], Floor), 'obstacle duplicated')
    check(r.bit_generator.state == r2.bit_generator.state, 'draw count differs')


def test_off_grid_never_wraps():
    """Facing out of the grid with a tempting object on the opposite border.

    Python lists accept index -1, so an off-grid guard that answered wrongly
    would let the agent pick / open / unlock / walk onto the object on the
    opposite side of the grid.  Nothing may happen at all.
    """
    n = 0
    temptations = [
        lambda: Key(Color.RED),
        lambda: Box(Key(Color.BLUE)),
        lambda: Door(Door.Status.CLOSED, Color.RED),
        lambda: Door(Door.Status.LOCKED, Color.NONE),
        lambda: Floor(),
        lambda: MovingObstacle(),
    ]
    for (height, width), make in itt.product(
        [(1, 1), (1, 3), (3, 1), (2, 4), (4, 3)], temptations
    ):
        for y, x, o in itt.product(range(height), range(width), Orientation):
            front = Position(y, x) + Position.from_orientation(o)
            if 0 <= front.y < height and 0 <= front.x < width:
                continue
            for held in [None, Key(Color.NONE), Key(Color.RED)]:
                grid = Grid(
                    [[make() for _ in range(width)] for _ in range(height)]
                )
                grid[y, x] = Floor()
                state = State(grid, Agent(Position(y, x), o, held))
                for name in (
                    'pickndrop',
                    'actuate_door',
                    'actuate_box',
                    'move_agent',
                ):
                    for action in (
                        Action.PICK_N_DROP,
                        Action.ACTUATE,
                        Action.MOVE_FORWARD,
                    ):
                        after = run_pair(name, state, action, seed=n)
                        check(
                            snapshot(after) == snapshot(state)
                            and after.agent.position == state.agent.position,
                            f'{name}: acted through the border at {(y, x)} {o}',
                        )
                        n += 1
    # obstacles on the border only consider on-grid floor cells
    grid = Grid([[MovingObstacle(), Wall(), Floor()], [Wall(), Wall(), Floor()]])
    state = State(grid, Agent(Position(1, 2), Orientation.F))
    for seed in range(20):
        after = run_pair('move_obstacles', state, Action.TURN_LEFT, seed=seed)
        check(snapshot(after) == snapshot(state), 'obstacle wrapped around')
    return n


def test_in_place_identity():
    """the object picked / moved / unboxed is the stored one, not a copy"""
    key, held, content = Key(Color.GREEN), Key(Color.BLUE), Key(Color.RED)
    box, door = Box(content), Door(Door.Status.CLOSED, Color.RED)
    grid = Grid([[key, box, door], [Floor(), Floor(), Floor()]])
    # swap: held goes to the grid, key into the hand
    state = State(grid, Agent(Position(1, 0), Orientation.F, held))
    tf.pickndrop(state, Action.PICK_N_DROP)
    check(state.agent.grid_object is key, 'picked object is not the stored one')
    check(state.grid[0, 0] is held, 'dropped object is not the held one')
    # unbox: the content object itself is placed
    state.agent.position = Position(1, 1)
    tf.actuate_box(state, Action.ACTUATE)
    check(state.grid[0, 1] is content, 'box content was copied')
    # door: opened in place
    state.agent.position = Position(1, 2)
    tf.actuate_door(state, Action.ACTUATE)
    check(state.grid[0, 2] is door and door.is_open, 'door not opened in place')


def test_module_rng():
    """rng=None uses the library generator; re-seeding reproduces"""
    r = rnd.default_rng(11)
    state = random_state(r, 5, 6)
    outs = []
    for _ in range(2):
        gv_rng.reset_gv_rng(77)
        s = fast_copy(state)
        for action in list(Action) * 3:
            tf.move_obstacles(s, action)
            tf.teleport(s, action)
        outs.append(snapshot(s))
    gv_rng.reset_gv_rng(77)
    s = fast_copy(state)
    for action in list(Action) * 3:
        ref_move_obstacles(s, action)
        ref_teleport(s, action)
    check(outs[0] == outs[1] == snapshot(s), 'module rng path differs')


# ----------------------------------------------------------------- histories

ENVS = {
    'keydoor5': (
        lambda rng: rf.keydoor(Shape(5, 5), rng=rng),
        ['move_agent', 'turn_agent', 'actuate_door', 'pickndrop'],
    ),
    'keydoor7x9': (
        lambda rng: rf.keydoor(Shape(7, 9), rng=rng),
        ['move_agent', 'turn_agent', 'actuate_door', 'pickndrop'],
    ),
    'obstacles5': (
        lambda rng: rf.dynamic_obstacles(Shape(5, 5), 1, rng=rng),
        ['move_agent', 'turn_agent', 'move_obstacles'],
    ),
    'obstacles7x6': (
        lambda rng: rf.dynamic_obstacles(Shape(7, 6), 3, True, rng=rng),
        ['move_agent', 'turn_agent', 'move_obstacles'],
    ),
    'teleport7': (
        lambda rng: rf.teleport(Shape(7, 7), rng=rng),
        ['move_agent', 'turn_agent', 'teleport'],
    ),
}


def test_histories():
    n = 0
    actions = list(Action)
    for env_name, (reset, names) in ENVS.items():
        for seed in range(6):
            # two "environments" alive in one process, each with own rng
            r_lib, r_ref = rnd.default_rng(seed), rnd.default_rng(seed)
            s_lib, s_ref = reset(r_lib), reset(r_ref)
            check(snapshot(s_lib) == snapshot(s_ref), 'reset not reproducible')
            start = inventory(s_lib)
            walls = {
                p
                for p in s_lib.grid.area.positions()
                if isinstance(s_lib.grid[p], (Wall, Door, Exit, Telepod))
            }
            policy = rnd.default_rng(1000 + seed)
            lib_chain = [PAIRS[name][0] for name in names]
            ref_chain = [PAIRS[name][1] for name in names]
            for _ in range(150):
                action = actions[policy.integers(len(actions))]
                tf.chain(
                    s_lib, action, transition_functions=lib_chain, rng=r_lib
                )
                for f in ref_chain:
                    f(s_ref, action, rng=r_ref)
                check(
                    snapshot(s_lib) == snapshot(s_ref),
                    f'{env_name}: history differs from reference',
                )
                check(
                    r_lib.bit_generator.state == r_ref.bit_generator.state,
                    f'{env_name}: generators diverged',
                )
                inv = inventory(s_lib)
                check(inv == start, f'{env_name}: not conserved')
                now = {
                    p
                    for p in s_lib.grid.area.positions()
                    if isinstance(s_lib.grid[p], (Wall, Door, Exit, Telepod))
                }
                check(now == walls, f'{env_name}: scenery moved')
                n += 1
    return n


if __name__ == '__main__':
    n1 = test_random_states()
    n2 = test_corners_all_headings()
    test_empty_choice_leaves_generator_alone()
    test_module_rng()
    n4 = test_off_grid_never_wraps()
    test_in_place_identity()
    n3 = test_histories()
    print(f'OK random={n1} corners={n2} off_grid={n4} history_steps={n3}')
