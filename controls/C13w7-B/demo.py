"""Check program for commit B (`random_exit` option of `dynamic_obstacles`).

Run as:  cd /tmp/wt7-C13 && /venv/bin/python -W ignore _seed/B/demo.py

Every built-in reset function is compared, for many shapes (square and not),
parameters and seeds, against an independent re-implementation (`ref_*`) which
works on plain nested lists of tuples and which draws from the generator
exactly like the original code.  The comparison covers every cell (type,
colour, door status), the agent pose and held item, the state of the generator
after the call (number and kind of draws), the type of the exception for
parameters which cannot be honoured, and aliasing.  The property itself
(well-formed initial states) is asserted for all valid parameters.

`dynamic_obstacles` is exercised with every spelling of the old call
(positional, keyword, through `factory`, through the yaml data factory, inside
environments);  when the new `random_exit` keyword exists (commit applied) it
is exercised in the same way, for both of its values, and the default is
checked to coincide with `random_exit=False` and with the old behaviour.
"""
import inspect
import itertools as itt
import os
import sys

sys.path.insert(0, os.getcwd())

import numpy as np  # noqa: E402
import numpy.random as rnd  # noqa: E402

from gym_gridverse import design  # noqa: E402
from gym_gridverse.envs import reset_functions as rf  # noqa: E402
from gym_gridverse.envs.yaml.factory import (  # noqa: E402
    factory_env_from_data,
    factory_reset_function,
)
from gym_gridverse.geometry import Orientation, Position, Shape  # noqa: E402
from gym_gridverse.grid import Grid  # noqa: E402
from gym_gridverse.grid_object import (  # noqa: E402
    Beacon,
    Color,
    Door,
    Exit,
    Floor,
    Key,
    MovingObstacle,
    NoneGridObject,
    Telepod,
    Wall,
)
from gym_gridverse.state import State  # noqa: E402

ORIENTATIONS = ['FORWARD', 'BACKWARD', 'LEFT', 'RIGHT']

FLOOR = ('Floor', 'NONE', 0)
WALL = ('Wall', 'NONE', 0)
OBSTACLE = ('MovingObstacle', 'NONE', 0)


def EXIT(color='NONE'):
    return ('Exit', color, 0)


def describe(obj):
    return (type(obj).__name__, obj.color.name, obj.state_index)


def describe_state(state):
    cells = [[describe(obj) for obj in row] for row in state.grid.objects]
    return (
        cells,
        state.agent.position.yx,
        state.agent.orientation.name,
        describe(state.agent.grid_object),
    )


# ---------------------------------------------------------------------------
# independent reference implementation (plain lists, raw generator calls)
# ---------------------------------------------------------------------------


def ref_choice(rng, data):
    return data[rng.choice(len(data))]


def ref_choices(rng, data, size):
    return [data[i] for i in rng.choice(len(data), size=size, replace=False)]


def ref_shuffle(rng, data):
    indices = list(range(len(data)))
    rng.shuffle(indices)
    return [data[i] for i in indices]


def ref_floors(cells):
    return [
        (y, x)
        for y in range(len(cells))
        for x in range(len(cells[0]))
        if cells[y][x] == FLOOR
    ]


def ref_blank(h, w):
    cells = [[FLOOR for _ in range(w)] for _ in range(h)]
    if h < 1 or w < 1:
        raise IndexError  # Grid([]) fails on objects[0]
    return cells


def ref_empty(h, w, random_agent=False, random_exit=False, *, rng):
    if h < 4 or w < 4:
        raise ValueError
    cells = ref_blank(h, w)
    for y in range(h):
        for x in range(w):
            if y in (0, h - 1) or x in (0, w - 1):
                cells[y][x] = WALL
    if random_exit:
        candidates = [
            (y, x)
            for y in range(1, h - 1)
            for x in range(1, w - 1)
            if random_agent or (y, x) != (1, 1)
        ]
        ey, ex = ref_choice(rng, candidates)
    else:
        ey, ex = h - 2, w - 2
    cells[ey][ex] = EXIT()
    if random_agent:
        pos = ref_choice(rng, ref_floors(cells))
        ori = ref_choice(rng, ORIENTATIONS)
    else:
        pos, ori = (1, 1), 'RIGHT'
    return cells, pos, ori


def ref_splits(length, num):
    # this is the definition used by the original code
    return [int(v) for v in np.linspace(0, length - 1, num=num + 1, dtype=int)]


def ref_room_grid(cells, ys, xs):
    y_range = range(min(ys), max(ys) + 1)
    x_range = range(min(xs), max(xs) + 1)
    for y in ys:
        for x in x_range:
            cells[y][x] = WALL
    for y in y_range:
        if y not in ys:
            for x in xs:
                cells[y][x] = WALL


def ref_rooms_grid(h, w, layout, rng):
    lh, lw = layout
    ys = ref_splits(h, lh)
    if len(ys) != len(set(ys)):
        raise ValueError
    xs = ref_splits(w, lw)
    if len(xs) != len(set(xs)):
        raise ValueError
    cells = ref_blank(h, w)
    ref_room_grid(cells, ys, xs)
    for y in ys[1:-1]:
        for x_from, x_to in zip(xs, xs[1:]):
            x = int(rng.integers(x_from + 1, x_to))
            cells[y][x] = FLOOR
    for y_from, y_to in zip(ys, ys[1:]):
        for x in xs[1:-1]:
            y = int(rng.integers(y_from + 1, y_to))
            cells[y][x] = FLOOR
    return cells


def ref_rooms(h, w, layout, *, rng):
    cells = ref_rooms_grid(h, w, layout, rng)
    pos, (ey, ex) = ref_choices(rng, ref_floors(cells), 2)
    ori = ref_choice(rng, ORIENTATIONS)
    cells[ey][ex] = EXIT()
    return cells, pos, ori


def ref_dynamic_obstacles(
    h, w, num_obstacles, random_agent=False, random_exit=False, *, rng
):
    cells, pos, ori = ref_empty(h, w, random_agent, random_exit, rng=rng)
    vacant = [p for p in ref_floors(cells) if p != pos]
    sample = ref_choices(rng, vacant, num_obstacles)  # ValueError if too many
    for y, x in sample:
        assert cells[y][x] == FLOOR
        cells[y][x] = OBSTACLE
    return cells, pos, ori


def ref_keydoor(h, w, *, rng):
    if h < 3 or w < 5 or (h, w) == (3, 5):
        raise ValueError
    cells, pos, ori = ref_empty(h, w, rng=None)
    x_wall = int(rng.integers(2, w - 3, endpoint=True))
    line = [(y, x_wall) for y in range(1, h - 1)]
    for y, x in line:
        cells[y][x] = WALL
    dy, dx = ref_choice(rng, line)
    cells[dy][dx] = ('Door', 'YELLOW', 2)
    y_key = int(rng.integers(1, h - 2, endpoint=True))
    x_key = int(rng.integers(1, x_wall - 1, endpoint=True))
    cells[y_key][x_key] = ('Key', 'YELLOW', 0)
    y_agent = int(rng.integers(1, h - 2, endpoint=True))
    x_agent = int(rng.integers(1, x_wall - 1, endpoint=True))
    ori = ref_choice(rng, ORIENTATIONS)
    return cells, (y_agent, x_agent), ori


def ref_crossing(h, w, num_rivers, object_type, *, rng):
    if h < 5 or h % 2 == 0:
        raise ValueError
    if w < 5 or w % 2 == 0:
        raise ValueError
    if num_rivers <= 0:
        raise ValueError
    cells, _, _ = ref_empty(h, w, rng=None)
    river = describe(object_type())
    rivers = [('h', i) for i in range(2, h - 2, 2)] + [
        ('v', j) for j in range(2, w - 2, 2)
    ]
    rivers = ref_shuffle(rng, rivers)[:num_rivers]
    rivers_h = sorted(p for d, p in rivers if d == 'h')
    rivers_v = sorted(p for d, p in rivers if d == 'v')
    for y in rivers_h:
        for x in range(1, w - 1):
            cells[y][x] = river
    for x in rivers_v:
        for y in range(1, h - 1):
            cells[y][x] = river
    path = ref_shuffle(rng, ['h'] * len(rivers_v) + ['v'] * len(rivers_h))
    limits_h = [0] + rivers_h + [h - 1]
    limits_v = [0] + rivers_v + [w - 1]
    room_i = room_j = 0
    for step in path:
        if step == 'h':
            i = int(rng.integers(limits_h[room_i] + 1, limits_h[room_i + 1]))
            j = limits_v[room_j + 1]
            room_j += 1
        else:
            i = limits_h[room_i + 1]
            j = int(rng.integers(limits_v[room_j] + 1, limits_v[room_j + 1]))
            room_i += 1
        cells[i][j] = FLOOR
    return cells, (1, 1), 'RIGHT'


def ref_teleport(h, w, *, rng):
    cells, pos, _ = ref_empty(h, w, rng=None)
    ref_choice(rng, ['RIGHT', 'BACKWARD'])
    vacant = [p for p in ref_floors(cells) if p != (1, 1)]
    for y, x in ref_choices(rng, vacant, 2):
        cells[y][x] = ('Telepod', 'RED', 0)
    ori = ref_choice(rng, ['RIGHT', 'BACKWARD'])
    return cells, (1, 1), ori


def ref_memory(h, w, colors, *, rng):
    if h < 5:
        raise ValueError
    if w < 5 or w % 2 == 0:
        raise ValueError
    if Color.NONE in colors:
        raise ValueError
    if len(colors) < 2:
        raise ValueError
    cells = [[WALL for _ in range(w)] for _ in range(h)]
    for x in range(2, w - 2):
        cells[1][x] = FLOOR
        cells[h - 2][x] = FLOOR
    for y in range(2, h - 2):
        cells[y][w // 2] = FLOOR
    names = [c.name for c in sorted(colors, key=lambda c: c.value)]
    good, bad = ref_choices(rng, names, 2)
    x_good, x_bad = ref_choices(rng, [1, w - 2], 2)
    cells[1][x_good] = EXIT(good)
    cells[1][x_bad] = EXIT(bad)
    cells[h - 2][1] = ('Beacon', good, 0)
    cells[h - 2][w - 2] = ('Beacon', good, 0)
    return cells, (h // 2, w // 2), 'FORWARD'


def ref_memory_rooms(h, w, layout, colors, num_beacons, num_exits, *, rng):
    if Color.NONE in colors:
        raise ValueError
    if len(colors) < 2:
        raise ValueError
    if num_beacons < 1:
        raise ValueError
    if num_exits < 2:
        raise ValueError
    cells = ref_rooms_grid(h, w, layout, rng)
    positions = ref_choices(
        rng, ref_floors(cells), 1 + num_beacons + num_exits
    )
    pos = positions[0]
    ori = ref_choice(rng, ORIENTATIONS)
    names = [c.name for c in sorted(colors, key=lambda c: c.value)]
    sample = ref_choices(rng, names, num_exits)
    for y, x in positions[1 : 1 + num_beacons]:
        cells[y][x] = ('Beacon', sample[0], 0)
    for (y, x), color in zip(positions[1 + num_beacons :], sample):
        cells[y][x] = EXIT(color)
    return cells, pos, ori


# ---------------------------------------------------------------------------
# comparison machinery
# ---------------------------------------------------------------------------

counts = {'ok': 0, 'raise': 0}


def run(function, *args, seed, **kwargs):
    rng = rnd.default_rng(seed)
    try:
        result = function(*args, rng=rng, **kwargs)
    except Exception as error:  # pylint: disable=broad-except
        return ('raise', type(error)), None, None
    return ('ok', None), result, rng.bit_generator.state


def check_aliasing(state):
    ids = [id(obj) for row in state.grid.objects for obj in row]
    assert len(ids) == len(set(ids)), 'cell objects are shared'
    rows = [id(row) for row in state.grid.objects]
    assert len(rows) == len(set(rows)), 'rows are shared'
    assert isinstance(state.agent.grid_object, NoneGridObject)
    assert type(state.agent.position) is Position
    # NOTE: keydoor has always returned numpy integers (from rng.integers)
    assert isinstance(state.agent.position.y, (int, np.integer))
    assert isinstance(state.agent.position.x, (int, np.integer))
    assert state.grid.shape == Shape(
        len(state.grid.objects), len(state.grid.objects[0])
    )


def compare(real, ref, real_args, ref_args, seed, real_kwargs=None):
    """runs both implementations, returns the real state (or None)"""
    real_kwargs = real_kwargs or {}
    outcome, state, rng_state = run(real, *real_args, seed=seed, **real_kwargs)
    ref_outcome, ref_result, ref_rng_state = run(ref, *ref_args, seed=seed)
    context = (real.__name__, real_args, real_kwargs, seed)
    assert outcome == ref_outcome, (context, outcome, ref_outcome)
    counts[outcome[0]] += 1
    if state is None:
        return None
    assert isinstance(state, State), context
    cells, pos, ori, held = describe_state(state)
    ref_cells, ref_pos, ref_ori = ref_result
    assert cells == ref_cells, (context, cells, ref_cells)
    assert pos == tuple(ref_pos), (context, pos, ref_pos)
    assert ori == ref_ori, (context, ori, ref_ori)
    assert held == ('NoneGridObject', 'NONE', 0), context
    assert rng_state == ref_rng_state, (context, 'different draws')
    check_aliasing(state)
    expected_type = np.int64 if real is rf.keydoor else int
    assert type(state.agent.position.y) is expected_type, context
    assert type(state.agent.position.x) is expected_type, context
    return state


def check_common(state, h, w):
    """the part of the property shared by all reset functions"""
    grid = state.grid
    assert grid.shape == Shape(h, w)
    assert len(grid.objects) == h and all(len(row) == w for row in grid.objects)
    for y in range(h):
        for x in range(w):
            if y in (0, h - 1) or x in (0, w - 1):
                assert type(grid[y, x]) is Wall, (y, x)
    pos = state.agent.position
    assert 0 <= pos.y < h and 0 <= pos.x < w
    assert isinstance(state.agent.grid_object, NoneGridObject)
    obj = grid[pos]
    assert not obj.blocks_movement
    assert not isinstance(obj, (Exit, MovingObstacle, Telepod))
    assert isinstance(state.agent.orientation, Orientation)


def count(state, object_type):
    return [
        (y, x, obj)
        for y, row in enumerate(state.grid.objects)
        for x, obj in enumerate(row)
        if type(obj) is object_type
    ]


SEEDS = list(range(12))
SHAPES_SMALL = [
    (h, w) for h in range(1, 9) for w in range(1, 9)
]  # from 1x1 up, square and not
SHAPES_LARGE = [(9, 13), (13, 9), (10, 10), (4, 15), (15, 4), (11, 17), (19, 7)]


def check_empty():
    for (h, w), ra, re in itt.product(
        SHAPES_SMALL + SHAPES_LARGE, [False, True], [False, True]
    ):
        for seed in SEEDS:
            state = compare(
                rf.empty, ref_empty, (Shape(h, w), ra, re), (h, w, ra, re), seed
            )
            if state is None:
                assert h < 4 or w < 4
                continue
            check_common(state, h, w)
            assert len(count(state, Exit)) == 1
            assert len(count(state, Floor)) == (h - 2) * (w - 2) - 1
            if not ra:
                assert state.agent.position == Position(1, 1)
            if not re:
                assert type(state.grid[h - 2, w - 2]) is Exit
    # keyword spelling, and default values
    for seed in SEEDS:
        a = rf.empty(Shape(5, 6), rng=rnd.default_rng(seed))
        b = rf.empty(
            shape=Shape(5, 6),
            random_agent=False,
            random_exit=False,
            rng=rnd.default_rng(seed),
        )
        assert describe_state(a) == describe_state(b)
    # every floor cell / every inside cell is reachable by the sampling
    seen_agent, seen_exit = set(), set()
    for seed in range(400):
        s = rf.empty(Shape(4, 5), True, True, rng=rnd.default_rng(seed))
        seen_agent.add(s.agent.position.yx)
        seen_exit.add(count(s, Exit)[0][:2])
    inside = {(y, x) for y in (1, 2) for x in (1, 2, 3)}
    assert seen_agent == inside and seen_exit == inside
    seen_exit = set()
    for seed in range(400):
        s = rf.empty(Shape(4, 5), False, True, rng=rnd.default_rng(seed))
        seen_exit.add(count(s, Exit)[0][:2])
    assert seen_exit == inside - {(1, 1)}


LAYOUTS = [(a, b) for a in range(0, 5) for b in range(0, 5)] + [
    (-1, 1),
    (1, -1),
    (6, 1),
    (1, 7),
]


def rooms_valid(h, w, layout):
    """rooms which have an inside of at least one cell, and layout >= 1"""
    lh, lw = layout
    if lh < 1 or lw < 1:
        return False
    ys, xs = ref_splits(h, lh), ref_splits(w, lw)
    return all(b - a >= 2 for a, b in zip(ys, ys[1:])) and all(
        b - a >= 2 for a, b in zip(xs, xs[1:])
    )


def check_rooms():
    shapes = [(h, w) for h in range(1, 8) for w in range(1, 8)] + SHAPES_LARGE
    for (h, w), layout in itt.product(shapes, LAYOUTS):
        for seed in SEEDS[:6]:
            state = compare(
                rf.rooms,
                ref_rooms,
                (Shape(h, w), layout),
                (h, w, layout),
                seed,
            )
            if state is None:
                continue
            if rooms_valid(h, w, layout):
                check_common(state, h, w)
                assert len(count(state, Exit)) == 1
    # a valid combination must not raise
    for (h, w), layout in [((9, 9), (2, 2)), ((13, 10), (3, 3)), ((3, 4), (1, 1))]:
        assert rooms_valid(h, w, layout)
        rf.rooms(Shape(h, w), layout, rng=rnd.default_rng(0))


HAS_RANDOM_EXIT = (
    'random_exit' in inspect.signature(rf.dynamic_obstacles).parameters
)


def check_dynamic_obstacles_signature():
    parameters = inspect.signature(rf.dynamic_obstacles).parameters
    names = list(parameters)
    if HAS_RANDOM_EXIT:
        assert names == [
            'shape',
            'num_obstacles',
            'random_agent',
            'random_exit',
            'rng',
        ]
        assert parameters['random_exit'].default is False
    else:
        assert names == ['shape', 'num_obstacles', 'random_agent', 'rng']
    assert parameters['random_agent'].default is False
    assert parameters['rng'].kind is inspect.Parameter.KEYWORD_ONLY
    assert parameters['rng'].default is None


def dynamic_obstacles_spellings(shape, n, ra, re):
    """all the ways to make the same call: (function, args, kwargs)"""
    spellings = []
    if not re:
        # the calls that existed before the commit
        spellings += [
            (rf.dynamic_obstacles, (shape, n, ra), {}),
            (rf.dynamic_obstacles, (shape, n), {'random_agent': ra}),
            (
                rf.dynamic_obstacles,
                (),
                {'shape': shape, 'num_obstacles': n, 'random_agent': ra},
            ),
            (
                rf.factory(
                    'dynamic_obstacles',
                    shape=shape,
                    num_obstacles=n,
                    random_agent=ra,
                ),
                (),
                {},
            ),
        ]
        if not ra:
            spellings += [
                (rf.dynamic_obstacles, (shape, n), {}),
                (
                    rf.factory(
                        'dynamic_obstacles', shape=shape, num_obstacles=n
                    ),
                    (),
                    {},
                ),
            ]
    if HAS_RANDOM_EXIT:
        spellings += [
            (rf.dynamic_obstacles, (shape, n, ra, re), {}),
            (rf.dynamic_obstacles, (shape, n, ra), {'random_exit': re}),
            (
                rf.dynamic_obstacles,
                (shape, n),
                {'random_exit': re, 'random_agent': ra},
            ),
            (
                rf.factory(
                    'dynamic_obstacles',
                    shape=shape,
                    num_obstacles=n,
                    random_agent=ra,
                    random_exit=re,
                ),
                (),
                {},
            ),
        ]
    return spellings


def check_dynamic_obstacles():
    check_dynamic_obstacles_signature()
    shapes = [(h, w) for h in range(3, 8) for w in range(3, 8)] + [
        (9, 13),
        (4, 15),
        (12, 4),
        (1, 1),
        (2, 9),
    ]
    exit_values = [False, True] if HAS_RANDOM_EXIT else [False]
    for (h, w), ra, re in itt.product(shapes, [False, True], exit_values):
        vacant = (h - 2) * (w - 2) - 2
        nums = sorted(
            {0, 1, 2, 3, vacant - 1, vacant, vacant + 1, vacant + 5, -1}
        )
        for n in nums:
            for seed in SEEDS[:8]:
                spellings = dynamic_obstacles_spellings(Shape(h, w), n, ra, re)
                descriptions = []
                for function, args, kwargs in spellings:
                    if not hasattr(function, '__name__'):
                        function.__name__ = 'partial(dynamic_obstacles)'
                    state = compare(
                        function,
                        ref_dynamic_obstacles,
                        args,
                        (h, w, n, ra, re),
                        seed,
                        kwargs,
                    )
                    descriptions.append(
                        None if state is None else describe_state(state)
                    )
                    if state is None:
                        assert h < 4 or w < 4 or n > vacant or n < 0, (h, w, n)
                        continue
                    assert 0 <= n <= vacant
                    check_common(state, h, w)
                    assert len(count(state, Exit)) == 1
                    assert len(count(state, MovingObstacle)) == n
                    floors = (h - 2) * (w - 2) - 1 - n
                    assert len(count(state, Floor)) == floors
                    if not ra:
                        assert state.agent.position == Position(1, 1)
                        assert state.agent.orientation is Orientation.R
                    if not re:
                        assert type(state.grid[h - 2, w - 2]) is Exit
                assert all(d == descriptions[0] for d in descriptions)

    # failures are ValueErrors, and do not depend on the new option
    for re in exit_values:
        kwargs = {'random_exit': re} if HAS_RANDOM_EXIT else {}
        for shape, n in [
            (Shape(3, 7), 1),
            (Shape(7, 3), 1),
            (Shape(4, 4), 3),
            (Shape(5, 6), 11),
            (Shape(5, 6), -1),
        ]:
            for ra in (False, True):
                try:
                    rf.dynamic_obstacles(
                        shape, n, ra, rng=rnd.default_rng(0), **kwargs
                    )
                except ValueError:
                    pass
                else:
                    raise AssertionError('expected ValueError')
        # the largest number of obstacles which fits is accepted
        state = rf.dynamic_obstacles(
            Shape(5, 6), 10, True, rng=rnd.default_rng(0), **kwargs
        )
        assert len(count(state, MovingObstacle)) == 10
        assert len(count(state, Floor)) == 1
        assert type(state.grid[state.agent.position]) is Floor

    if HAS_RANDOM_EXIT:
        # every inside cell (but the agent's corner) can host the exit, and
        # the agent never starts on the exit or on an obstacle
        seen = set()
        for seed in range(600):
            state = rf.dynamic_obstacles(
                Shape(4, 5), 2, False, True, rng=rnd.default_rng(seed)
            )
            ((y, x, _),) = count(state, Exit)
            seen.add((y, x))
        assert seen == {(y, x) for y in (1, 2) for x in (1, 2, 3)} - {(1, 1)}
        # unknown options are still rejected by the factory-made function
        function = rf.factory(
            'dynamic_obstacles',
            shape=Shape(5, 5),
            num_obstacles=1,
            random_exits=True,
        )
        state = function(rng=rnd.default_rng(0))  # silently ignored, as before
        assert type(state.grid[3, 3]) is Exit
    else:
        try:
            rf.dynamic_obstacles(
                Shape(5, 5), 1, False, random_exit=True, rng=rnd.default_rng(0)
            )
        except TypeError:
            pass
        else:
            raise AssertionError('expected TypeError')


def check_keydoor():
    for h, w in SHAPES_SMALL + SHAPES_LARGE + [(3, 6), (4, 5), (3, 12)]:
        for seed in SEEDS + list(range(100, 120)):
            state = compare(rf.keydoor, ref_keydoor, (Shape(h, w),), (h, w), seed)
            if state is None:
                continue
            check_common(state, h, w)
            assert len(count(state, Exit)) == 1
            ((dy, dx, door),) = count(state, Door)
            ((ky, kx, key),) = count(state, Key)
            assert door.is_locked and door.color is key.color
            column = [type(state.grid[y, dx]) for y in range(1, h - 1)]
            assert column.count(Wall) == len(column) - 1
            assert kx < dx and state.agent.position.x < dx


def check_crossing():
    shapes = [(h, w) for h in range(3, 12) for w in range(3, 12)] + [(5, 15), (13, 5)]
    for (h, w), n, t in itt.product(
        shapes, [-1, 0, 1, 2, 3, 5, 50], [Wall, MovingObstacle]
    ):
        for seed in SEEDS[:5]:
            state = compare(
                rf.crossing,
                ref_crossing,
                (Shape(h, w), n, t),
                (h, w, n, t),
                seed,
            )
            if state is None:
                continue
            check_common(state, h, w)
            assert len(count(state, Exit)) == 1


def check_teleport():
    for h, w in SHAPES_SMALL + SHAPES_LARGE:
        for seed in SEEDS + list(range(100, 120)):
            state = compare(rf.teleport, ref_teleport, (Shape(h, w),), (h, w), seed)
            if state is None:
                assert h < 4 or w < 4
                continue
            check_common(state, h, w)
            assert len(count(state, Exit)) == 1
            telepods = count(state, Telepod)
            assert len(telepods) == 2
            assert telepods[0][2].color is telepods[1][2].color
            assert telepods[0][2] is not telepods[1][2]


COLOR_SETS = [
    set(),
    {Color.RED},
    {Color.RED, Color.GREEN},
    {Color.NONE, Color.RED, Color.GREEN},
    {Color.YELLOW, Color.BLUE, Color.RED},
    {Color.RED, Color.GREEN, Color.BLUE, Color.YELLOW},
]


def check_exits_and_beacons(state, num_exits, num_beacons):
    exits = count(state, Exit)
    beacons = count(state, Beacon)
    assert len(exits) == num_exits and len(beacons) == num_beacons
    exit_colors = [obj.color for _, _, obj in exits]
    assert len(set(exit_colors)) == len(exit_colors)
    beacon_colors = {obj.color for _, _, obj in beacons}
    assert len(beacon_colors) == 1
    assert exit_colors.count(beacon_colors.pop()) == 1


def check_memory():
    shapes = [(h, w) for h in range(3, 10) for w in range(3, 10)] + [(5, 15), (12, 7)]
    for (h, w), colors in itt.product(shapes, COLOR_SETS):
        for seed in SEEDS[:8]:
            state = compare(
                rf.memory, ref_memory, (Shape(h, w), colors), (h, w, colors), seed
            )
            if state is None:
                continue
            check_common(state, h, w)
            check_exits_and_beacons(state, 2, 2)


def check_memory_rooms():
    shapes = [(5, 5), (7, 7), (7, 9), (9, 6), (10, 10), (13, 9), (4, 4), (3, 8), (1, 1)]
    layouts = [(1, 1), (2, 2), (1, 2), (3, 1), (3, 3), (0, 1), (2, 5)]
    for (h, w), layout, colors, nb, ne in itt.product(
        shapes, layouts, COLOR_SETS, [0, 1, 3], [1, 2, 3, 4, 5]
    ):
        for seed in SEEDS[:3]:
            state = compare(
                rf.memory_rooms,
                ref_memory_rooms,
                (Shape(h, w), layout, colors, nb, ne),
                (h, w, layout, colors, nb, ne),
                seed,
            )
            if state is None:
                continue
            if rooms_valid(h, w, layout):
                check_common(state, h, w)
                check_exits_and_beacons(state, ne, nb)


def check_room_grid_helper():
    """`design.draw_room_grid` directly, with lists, tuples, ranges and arrays"""
    cases = [
        ([0, 4, 8], [0, 3, 6]),
        ([1, 3], [2, 5, 6]),
        ([0, 2, 3, 7], [0, 6]),
        ([5, 0, 2], [4, 0]),  # unsorted
        ([0, 0, 3], [0, 2, 2, 5]),  # duplicates
        ([2], [3]),
    ]
    for ys, xs in cases:
        for convert in (list, tuple, np.array, lambda v: np.array(v, dtype=np.int32)):
            grid = Grid.from_shape((9, 8))
            positions = design.draw_room_grid(grid, convert(ys), convert(xs), Wall)
            cells = ref_blank(9, 8)
            ref_room_grid(cells, ys, xs)
            real = [[describe(obj) for obj in row] for row in grid.objects]
            assert real == cells, (ys, xs)
            expected = [
                (y, x) for y in ys for x in range(min(xs), max(xs) + 1)
            ] + [
                (y, x)
                for y in range(min(ys), max(ys) + 1)
                if y not in ys
                for x in xs
            ]
            assert [(int(p.y), int(p.x)) for p in positions] == expected
            walls = [
                id(grid[y, x])
                for y in range(9)
                for x in range(8)
                if type(grid[y, x]) is Wall
            ]
            assert len(walls) == len(set(walls))


def check_repeated_and_interleaved():
    """memoisation must be invisible: order of calls, second calls, factories"""
    jobs = []
    for (h, w), layout in itt.product(
        [(7, 7), (9, 9), (7, 9), (9, 7), (10, 13), (13, 10)],
        [(1, 1), (2, 2), (2, 3), (3, 2), (3, 3)],
    ):
        jobs.append((h, w, layout))

    def results(order, seed):
        out = {}
        for h, w, layout in order:
            s1 = rf.rooms(Shape(h, w), layout, rng=rnd.default_rng(seed))
            s2 = rf.memory_rooms(
                Shape(h, w),
                layout,
                {Color.RED, Color.BLUE, Color.GREEN},
                1,
                2,
                rng=rnd.default_rng(seed),
            )
            out[h, w, layout] = (describe_state(s1), describe_state(s2))
        return out

    first = results(jobs, 3)
    second = results(list(reversed(jobs)), 3)
    third = results(jobs[::2] + jobs[1::2], 3)
    assert first == second == third
    for (h, w, layout), (d1, _) in first.items():
        rng = rnd.default_rng(3)
        assert d1[0] == ref_rooms(h, w, layout, rng=rng)[0]

    # arguments of other (equal but differently typed) kinds
    a = rf.rooms(Shape(9, 9), (2, 2), rng=rnd.default_rng(5))
    b = rf.rooms(Shape(9, 9), [2, 2], rng=rnd.default_rng(5))
    c = rf.rooms(
        Shape(np.int64(9), np.int64(9)),
        (np.int64(2), np.int64(2)),
        rng=rnd.default_rng(5),
    )
    assert describe_state(a)[0] == describe_state(b)[0] == describe_state(c)[0]
    assert a.agent.position == b.agent.position == c.agent.position

    # failing calls keep failing, and do not poison later calls
    for _ in range(3):
        for shape, layout in [(Shape(3, 9), (2, 2)), (Shape(9, 3), (2, 2))]:
            try:
                rf.rooms(shape, layout, rng=rnd.default_rng(0))
            except ValueError:
                pass
            else:
                raise AssertionError('expected ValueError')
        rf.rooms(Shape(9, 9), (2, 2), rng=rnd.default_rng(0))

    # module generator (rng=None) path
    from gym_gridverse.rng import reset_gv_rng

    for name, kwargs in [
        ('rooms', dict(shape=Shape(9, 7), layout=(2, 2))),
        ('empty', dict(shape=Shape(5, 7), random_agent=True, random_exit=True)),
        ('dynamic_obstacles', dict(shape=Shape(6, 7), num_obstacles=4, random_agent=True)),
        ('teleport', dict(shape=Shape(6, 5))),
    ]:
        function = rf.factory(name, **kwargs)
        reset_gv_rng(11)
        s1 = function()
        s2 = function()
        reset_gv_rng(11)
        t1 = function()
        t2 = function(rng=None)
        assert describe_state(s1) == describe_state(t1)
        assert describe_state(s2) == describe_state(t2)
        r1 = function(rng=rnd.default_rng(11))
        assert describe_state(r1) == describe_state(s1)
        for u, v in itt.combinations([s1, s2, t1, t2, r1], 2):
            ids_u = {id(o) for row in u.grid.objects for o in row}
            ids_v = {id(o) for row in v.grid.objects for o in row}
            assert not ids_u & ids_v
            assert u.agent is not v.agent


def env_data(reset_function, objects, colors):
    return {
        'state_space': {'objects': objects, 'colors': colors},
        'action_space': [
            'MOVE_FORWARD',
            'MOVE_BACKWARD',
            'MOVE_LEFT',
            'MOVE_RIGHT',
            'TURN_LEFT',
            'TURN_RIGHT',
        ],
        'observation_space': {'objects': objects, 'colors': colors},
        'reset_function': reset_function,
        'transition_functions': [{'name': 'move_agent'}, {'name': 'turn_agent'}],
        'reward_functions': [{'name': 'living_reward', 'reward': -0.05}],
        'observation_function': {
            'name': 'partially_occluded',
            'area': [[-6, 0], [-3, 3]],
        },
        'terminating_function': {'name': 'reach_exit'},
    }


def check_environments():
    """two environments of each kind in the same process"""
    all_colors = ['NONE', 'RED', 'GREEN', 'BLUE', 'YELLOW']
    specs = [
        (
            {'name': 'rooms', 'shape': [9, 11], 'layout': [2, 3]},
            ['Wall', 'Floor', 'Exit'],
            lambda rng: ref_rooms(9, 11, (2, 3), rng=rng),
        ),
        (
            {'name': 'rooms', 'shape': [11, 9], 'layout': [3, 2]},
            ['Wall', 'Floor', 'Exit'],
            lambda rng: ref_rooms(11, 9, (3, 2), rng=rng),
        ),
        (
            {
                'name': 'memory_rooms',
                'shape': [9, 11],
                'layout': [2, 3],
                'colors': ['RED', 'GREEN', 'BLUE', 'YELLOW'],
                'num_beacons': 2,
                'num_exits': 3,
            },
            ['Wall', 'Floor', 'Exit', 'Beacon'],
            lambda rng: ref_memory_rooms(
                9,
                11,
                (2, 3),
                {Color.RED, Color.GREEN, Color.BLUE, Color.YELLOW},
                2,
                3,
                rng=rng,
            ),
        ),
        (
            {
                'name': 'empty',
                'shape': [5, 8],
                'random_agent': True,
                'random_exit': True,
            },
            ['Wall', 'Floor', 'Exit'],
            lambda rng: ref_empty(5, 8, True, True, rng=rng),
        ),
        (
            {
                'name': 'dynamic_obstacles',
                'shape': [6, 9],
                'num_obstacles': 5,
                'random_agent': True,
            },
            ['Wall', 'Floor', 'Exit', 'MovingObstacle'],
            lambda rng: ref_dynamic_obstacles(6, 9, 5, True, rng=rng),
        ),
        (
            {'name': 'teleport', 'shape': [5, 9]},
            ['Wall', 'Floor', 'Exit', 'Telepod'],
            lambda rng: ref_teleport(5, 9, rng=rng),
        ),
        (
            {'name': 'keydoor', 'shape': [5, 9]},
            ['Wall', 'Floor', 'Exit', 'Door', 'Key'],
            lambda rng: ref_keydoor(5, 9, rng=rng),
        ),
    ]
    if HAS_RANDOM_EXIT:
        for ra in (False, True):
            specs.append(
                (
                    {
                        'name': 'dynamic_obstacles',
                        'shape': [6, 9],
                        'num_obstacles': 7,
                        'random_agent': ra,
                        'random_exit': True,
                    },
                    ['Wall', 'Floor', 'Exit', 'MovingObstacle'],
                    lambda rng, ra=ra: ref_dynamic_obstacles(
                        6, 9, 7, ra, True, rng=rng
                    ),
                )
            )
    for reset_data, objects, ref in specs:
        env1 = factory_env_from_data(env_data(dict(reset_data), objects, all_colors))
        env2 = factory_env_from_data(env_data(dict(reset_data), objects, all_colors))
        for seed in range(5):
            env1.set_seed(seed)
            env2.set_seed(seed)
            rng = rnd.default_rng(seed)
            for _ in range(3):  # consecutive resets share the generator
                env1.reset()
                env2.reset()
                cells, pos, ori = ref(rng)
                for env in (env1, env2):
                    d = describe_state(env.state)
                    assert d[0] == cells and d[1] == tuple(pos) and d[2] == ori
                    assert env.state_space.contains(env.state)
                ids1 = {id(o) for row in env1.state.grid.objects for o in row}
                ids2 = {id(o) for row in env2.state.grid.objects for o in row}
                assert not ids1 & ids2
        # the reset function made by the yaml data factory, on its own
        function = factory_reset_function(dict(reset_data))
        d = describe_state(function(rng=rnd.default_rng(42)))
        cells, pos, ori = ref(rnd.default_rng(42))
        assert d[0] == cells and d[1] == tuple(pos) and d[2] == ori


def check_registry():
    names = sorted(f.__name__ for f in rf.reset_function_registry.values()) if hasattr(
        rf.reset_function_registry, 'values'
    ) else None
    expected = [
        'crossing',
        'dynamic_obstacles',
        'empty',
        'keydoor',
        'memory',
        'memory_rooms',
        'rooms',
        'teleport',
    ]
    for name in expected:
        assert rf.reset_function_registry[name] is getattr(rf, name)
    if names is not None:
        assert names == expected, names


def main():
    check_registry()
    check_empty()
    check_rooms()
    check_dynamic_obstacles()
    check_keydoor()
    check_crossing()
    check_teleport()
    check_memory()
    check_memory_rooms()
    check_room_grid_helper()
    check_repeated_and_interleaved()
    check_environments()
    # run everything a second time (warm caches), in a different order
    check_memory_rooms()
    check_rooms()
    check_empty()
    print(
        f'demo B: all checks passed ({counts}, '
        f'random_exit available: {HAS_RANDOM_EXIT})'
    )


if __name__ == '__main__':
    main()
