"""Demo / check program for refactoring A (transition functions).

Run as:  cd /tmp/wt5-C01 && /venv/bin/python -W ignore _seed/A/demo.py

The reference behaviour is computed by an INDEPENDENT re-implementation of the
transition dynamics that lives in this file and works on plain python data
(tuples / lists / ints); the library is only used to build the inputs, to run
the code under test, and to convert its outputs to the plain representation.

Checked (property C01: closure and totality of stepping):
  1. exhaustive single-function sweeps:  every built-in transition function x
     every agent pose (incl. grid edges facing outward) x every held item x
     every object in front / under the agent x every action, on several small
     grid shapes;  outcome compared with the reference model, including object
     identity (dropped / picked objects are moved, not copied);
  2. randomly filled grids (all declared object types, unpaired telepods, ...)
     x all actions, through `transition_with_copy` and `chain`, including the
     random number consumption (final bit-generator state must match);
  3. full `GridWorld` environments built from built-in components:  reset +
     random walks, next state in the state space (checked by an independent
     predicate *and* by `StateSpace.contains`), finite float reward, bool
     terminal, observation in the observation space, input state unchanged,
     invalid actions rejected with ValueError and nothing changed.
"""
import itertools
import math
import os
import sys

sys.path.insert(0, os.getcwd())

import numpy as np  # noqa: E402

from gym_gridverse.action import Action  # noqa: E402
from gym_gridverse.agent import Agent  # noqa: E402
from gym_gridverse.debugging import reset_gv_debug  # noqa: E402
from gym_gridverse.envs import observation_functions as observation_fs  # noqa: E402
from gym_gridverse.envs import reset_functions as reset_fs  # noqa: E402
from gym_gridverse.envs import reward_functions as reward_fs  # noqa: E402
from gym_gridverse.envs import terminating_functions as terminating_fs  # noqa: E402
from gym_gridverse.envs import transition_functions as transition_fs  # noqa: E402
from gym_gridverse.envs.gridworld import GridWorld  # noqa: E402
from gym_gridverse.geometry import Area, Orientation, Position, Shape  # noqa: E402
from gym_gridverse.grid import Grid  # noqa: E402
from gym_gridverse.grid_object import (  # noqa: E402
    Beacon,
    Box,
    Color,
    Door,
    Exit,
    Floor,
    Hidden,
    Key,
    MovingObstacle,
    NoneGridObject,
    Telepod,
    Wall,
)
from gym_gridverse.spaces import ActionSpace, ObservationSpace, StateSpace  # noqa: E402
from gym_gridverse.state import State  # noqa: E402
from gym_gridverse.utils.fast_copy import fast_copy  # noqa: E402

reset_gv_debug(True)

N_CHECKS = 0


def check(condition, *info):
    global N_CHECKS
    N_CHECKS += 1
    if not condition:
        raise AssertionError(' | '.join(str(i) for i in info))


# ---------------------------------------------------------------------------
# plain representation  (library objects -> tuples)
# ---------------------------------------------------------------------------

ORI_TO_INT = {
    Orientation.FORWARD: 0,  # facing up (towards smaller y)
    Orientation.RIGHT: 1,
    Orientation.BACKWARD: 2,
    Orientation.LEFT: 3,
}
INT_TO_ORI = {v: k for k, v in ORI_TO_INT.items()}
DELTAS = [(-1, 0), (0, 1), (1, 0), (0, -1)]  # clockwise from `up`


def plain_obj(obj):
    name = type(obj).__name__
    if name == 'Box':
        return ('Box', plain_obj(obj.content))
    if name == 'Door':
        return ('Door', obj.state.name, obj.color.name)
    if name in ('Key', 'Telepod', 'Beacon', 'Exit'):
        return (name, obj.color.name)
    return (name,)


def plain_state(state):
    return {
        'grid': [
            [plain_obj(state.grid.objects[y][x]) for x in range(state.grid.shape.width)]
            for y in range(state.grid.shape.height)
        ],
        'pos': (state.agent.position.y, state.agent.position.x),
        'ori': ORI_TO_INT[state.agent.orientation],
        'held': plain_obj(state.agent.grid_object),
    }


def copy_model(m):
    return {
        'grid': [list(row) for row in m['grid']],
        'pos': m['pos'],
        'ori': m['ori'],
        'held': m['held'],
    }


# ---------------------------------------------------------------------------
# independent reference model of the dynamics
# ---------------------------------------------------------------------------

MOVE_OFFSETS = {
    'MOVE_FORWARD': 0,
    'MOVE_RIGHT': 1,
    'MOVE_BACKWARD': 2,
    'MOVE_LEFT': 3,
}


def inside(m, p):
    return 0 <= p[0] < len(m['grid']) and 0 <= p[1] < len(m['grid'][0])


def at(m, p):
    return m['grid'][p[0]][p[1]]


def put(m, p, o):
    m['grid'][p[0]][p[1]] = o


def blocks_movement(o):
    if o[0] in ('Wall', 'Box'):
        return True
    if o[0] == 'Door':
        return o[1] != 'OPEN'
    return False


def front_of(m):
    dy, dx = DELTAS[m['ori']]
    return (m['pos'][0] + dy, m['pos'][1] + dx)


def ref_move_agent(m, a, rng):
    if a not in MOVE_OFFSETS:
        return
    dy, dx = DELTAS[(m['ori'] + MOVE_OFFSETS[a]) % 4]
    p = (m['pos'][0] + dy, m['pos'][1] + dx)
    if inside(m, p) and not blocks_movement(at(m, p)):
        m['pos'] = p


def ref_turn_agent(m, a, rng):
    if a == 'TURN_LEFT':
        m['ori'] = (m['ori'] + 3) % 4
    elif a == 'TURN_RIGHT':
        m['ori'] = (m['ori'] + 1) % 4


def ref_pickndrop(m, a, rng):
    if a != 'PICK_N_DROP':
        return
    p = front_of(m)
    if not inside(m, p):
        return
    front = at(m, p)
    holding = m['held'] != ('NoneGridObject',)
    if front == ('Floor',):
        if holding:  # drop
            put(m, p, m['held'])
            m['held'] = ('NoneGridObject',)
        # (else: a floor is replaced by a fresh floor, nothing visible)
    elif front[0] == 'Key':  # the only holdable built-in object
        put(m, p, m['held'] if holding else ('Floor',))  # swap / pick
        m['held'] = front


def ref_actuate_door(m, a, rng):
    if a != 'ACTUATE':
        return
    p = front_of(m)
    if not inside(m, p):
        return
    o = at(m, p)
    if o[0] != 'Door':
        return
    _, status, color = o
    if status == 'CLOSED':
        put(m, p, ('Door', 'OPEN', color))
    elif status == 'LOCKED' and m['held'] == ('Key', color):
        put(m, p, ('Door', 'OPEN', color))


def ref_actuate_box(m, a, rng):
    if a != 'ACTUATE':
        return
    p = front_of(m)
    if inside(m, p) and at(m, p)[0] == 'Box':
        put(m, p, at(m, p)[1])


def ref_teleport(m, a, rng):
    here = at(m, m['pos'])
    if here[0] != 'Telepod':
        return
    others = [
        (y, x)
        for y in range(len(m['grid']))
        for x in range(len(m['grid'][0]))
        if (y, x) != m['pos'] and m['grid'][y][x] == here
    ]
    if others:
        m['pos'] = others[int(rng.choice(len(others)))]


def ref_move_obstacles(m, a, rng):
    obstacles = [
        (y, x)
        for y in range(len(m['grid']))
        for x in range(len(m['grid'][0]))
        if m['grid'][y][x] == ('MovingObstacle',)
    ]
    for p in obstacles:
        free = [
            q
            for q in ((p[0] + dy, p[1] + dx) for dy, dx in DELTAS)
            if inside(m, q) and at(m, q) == ('Floor',)
        ]
        if free:
            q = free[int(rng.choice(len(free)))]
            tmp = at(m, p)
            put(m, p, at(m, q))
            put(m, q, tmp)


REFS = {
    'move_agent': ref_move_agent,
    'turn_agent': ref_turn_agent,
    'pickndrop': ref_pickndrop,
    'actuate_door': ref_actuate_door,
    'actuate_box': ref_actuate_box,
    'teleport': ref_teleport,
    'move_obstacles': ref_move_obstacles,
}
LIBS = {name: getattr(transition_fs, name) for name in REFS}
for name in REFS:  # registered names must be intact
    check(transition_fs.transition_function_registry[name] is LIBS[name], name)
check('chain' in transition_fs.transition_function_registry)
check(
    transition_fs._action_orientations
    == {Action.TURN_LEFT: Orientation.L, Action.TURN_RIGHT: Orientation.R}
)

# ---------------------------------------------------------------------------
# independent membership predicate on the plain model
# ---------------------------------------------------------------------------

ALL_TYPES = [
    Floor, Wall, Exit, Door, Key, MovingObstacle, Box, Telepod, Beacon,
]
ALL_COLORS = [Color.RED, Color.GREEN, Color.BLUE, Color.YELLOW]


def obj_color_name(o):
    if o[0] == 'Door':
        return o[2]
    if o[0] in ('Key', 'Telepod', 'Beacon', 'Exit'):
        return o[1]
    return 'NONE'


def model_in_space(m, shape, type_names, color_names):
    if (len(m['grid']), len(m['grid'][0])) != shape:
        return False
    for row in m['grid']:
        if len(row) != shape[1]:
            return False
        for o in row:
            if o[0] not in type_names:
                return False
            if obj_color_name(o) not in color_names | {'NONE'}:
                return False
    if not inside(m, m['pos']):
        return False
    if m['ori'] not in (0, 1, 2, 3):
        return False
    if m['held'][0] not in type_names | {'NoneGridObject'}:
        return False
    if obj_color_name(m['held']) not in color_names | {'NONE'}:
        return False
    return True


# ---------------------------------------------------------------------------
# helpers to build library states
# ---------------------------------------------------------------------------


def object_catalogue():
    """factories of every kind of object / status / colour that matters"""
    cat = [
        Floor,
        Wall,
        Exit,
        lambda: Exit(Color.GREEN),
        MovingObstacle,
        lambda: Key(Color.RED),
        lambda: Key(Color.BLUE),
        lambda: Telepod(Color.RED),
        lambda: Telepod(Color.BLUE),
        lambda: Beacon(Color.YELLOW),
        lambda: Box(Floor()),
        lambda: Box(Key(Color.RED)),
        lambda: Box(Box(Wall())),
        lambda: Box(Door(Door.Status.LOCKED, Color.RED)),
    ]
    for status in Door.Status:
        for color in (Color.RED, Color.BLUE):
            cat.append(lambda status=status, color=color: Door(status, color))
    return cat


def held_catalogue():
    return [
        lambda: None,  # Agent default -> NoneGridObject
        NoneGridObject,
        lambda: Key(Color.RED),
        lambda: Key(Color.BLUE),
    ]


def rng_state(rng):
    return repr(rng.bit_generator.state)


def run_and_compare(name, state, action, seed, label):
    """run library function in place and compare with the reference model"""
    lib_f, ref_f = LIBS[name], REFS[name]
    model = plain_state(state)

    # remember identities, to check that objects are moved and not copied
    front = state.agent.front()
    front_in = state.grid.area.contains(front)
    obj_front = state.grid[front] if front_in else None
    obj_held = state.agent.grid_object
    ids_before = {
        id(o) for row in state.grid.objects for o in row
    } | {id(obj_held)}

    rng_lib = np.random.default_rng(seed)
    rng_ref = np.random.default_rng(seed)
    ret = lib_f(state, action, rng=rng_lib)
    ref_f(model, action.name, rng_ref)

    check(ret is None, label, 'transition functions return None')
    got = plain_state(state)
    check(got == model, label, 'got', got, 'expected', model)
    check(rng_state(rng_lib) == rng_state(rng_ref), label, 'rng consumption')

    # aliasing: within one state no object is shared between two cells / agent
    ids_after = [id(o) for row in state.grid.objects for o in row] + [
        id(state.agent.grid_object)
    ]
    check(len(set(ids_after)) == len(ids_after), label, 'aliasing')

    if name == 'pickndrop' and action is Action.PICK_N_DROP and front_in:
        was_holding = not isinstance(obj_held, NoneGridObject)
        if isinstance(obj_front, Key):
            check(state.agent.grid_object is obj_front, label, 'picked identity')
            if was_holding:
                check(state.grid[front] is obj_held, label, 'swapped identity')
            else:
                check(id(state.grid[front]) not in ids_before, label, 'new floor')
        elif isinstance(obj_front, Floor):
            if was_holding:
                check(state.grid[front] is obj_held, label, 'dropped identity')
            check(
                id(state.agent.grid_object) not in ids_before,
                label,
                'fresh NoneGridObject',
            )
        else:
            check(state.grid[front] is obj_front, label, 'front untouched')
            check(state.agent.grid_object is obj_held, label, 'held untouched')
    if name == 'actuate_door' and front_in and isinstance(obj_front, Door):
        check(state.grid[front] is obj_front, label, 'door mutated in place')
    if name == 'actuate_box' and front_in and isinstance(obj_front, Box):
        if action is Action.ACTUATE:
            check(state.grid[front] is obj_front.content, label, 'box content')
        else:
            check(state.grid[front] is obj_front, label, 'box untouched')
    return got


# ---------------------------------------------------------------------------
# 1. exhaustive sweeps on small grids
# ---------------------------------------------------------------------------


def sweep_exhaustive():
    shapes = [(1, 1), (1, 2), (2, 1), (1, 3), (3, 1), (2, 2), (2, 3), (3, 3)]
    catalogue = object_catalogue()
    helds = held_catalogue()
    single = ['move_agent', 'turn_agent', 'pickndrop', 'actuate_door', 'actuate_box', 'teleport']
    n = 0
    for (h, w) in shapes:
        for y, x, ori in itertools.product(range(h), range(w), Orientation):
            # the `special` object is placed in front of the agent when that
            # cell exists, otherwise (edge, facing outward) behind/next to it,
            # and also once under the agent
            dy, dx = DELTAS[ORI_TO_INT[ori]]
            placements = []
            if 0 <= y + dy < h and 0 <= x + dx < w:
                placements.append((y + dy, x + dx))
            placements.append((y, x))
            other = [(yy, xx) for yy in range(h) for xx in range(w) if (yy, xx) not in placements]
            if other:
                placements.append(other[-1])
            for place in placements:
                for make_obj in catalogue:
                    for make_held in helds:
                        for action in Action:
                            for name in single:
                                grid = Grid.from_shape((h, w))
                                grid[place] = make_obj()
                                state = State(grid, Agent(Position(y, x), ori, make_held()))
                                run_and_compare(
                                    name, state, action, 7,
                                    f'exh {name} {(h, w)} {(y, x)} {ori.name} {place} {action.name}',
                                )
                                n += 1
    return n


# ---------------------------------------------------------------------------
# 2. randomly filled grids, chain, transition_with_copy
# ---------------------------------------------------------------------------


def random_state(rng, h, w, catalogue, helds):
    objects = [
        [catalogue[int(rng.integers(len(catalogue)))]() for _ in range(w)]
        for _ in range(h)
    ]
    # bias towards floors so that something can move
    for yy in range(h):
        for xx in range(w):
            if rng.random() < 0.35:
                objects[yy][xx] = Floor()
    agent = Agent(
        Position(int(rng.integers(h)), int(rng.integers(w))),
        INT_TO_ORI[int(rng.integers(4))],
        helds[int(rng.integers(len(helds)))](),
    )
    return State(Grid(objects), agent)


CHAIN_ORDERS = [
    ['move_agent', 'turn_agent', 'pickndrop', 'actuate_door', 'actuate_box', 'teleport', 'move_obstacles'],
    ['move_obstacles', 'teleport', 'actuate_box', 'actuate_door', 'pickndrop', 'turn_agent', 'move_agent'],
    ['turn_agent', 'move_agent', 'move_agent', 'actuate_door', 'pickndrop', 'pickndrop'],
    ['actuate_door', 'actuate_door', 'turn_agent', 'turn_agent', 'actuate_box', 'actuate_box'],
]


def sweep_random():
    catalogue = object_catalogue()
    helds = held_catalogue()
    master = np.random.default_rng(20240501)
    n = 0
    type_names = {t.__name__ for t in ALL_TYPES}
    color_names = {c.name for c in ALL_COLORS}
    for trial in range(400):
        h, w = int(master.integers(1, 7)), int(master.integers(1, 7))
        base = random_state(master, h, w, catalogue, helds)
        space = StateSpace(Shape(h, w), ALL_TYPES, ALL_COLORS)
        check(space.contains(base), 'random state in full space')
        for action in Action:
            # every single function, in place, on a fresh copy
            for name in REFS:
                state = fast_copy(base)
                run_and_compare(name, state, action, trial, f'rnd {name} #{trial} {action.name}')
                n += 1

            # chains through transition_with_copy
            for k, order in enumerate(CHAIN_ORDERS):
                f = transition_fs.factory(
                    'chain', transition_functions=[LIBS[o] for o in order]
                )
                before = plain_state(base)
                rng_lib = np.random.default_rng(1000 + trial)
                rng_ref = np.random.default_rng(1000 + trial)
                next_state = transition_fs.transition_with_copy(f, base, action, rng=rng_lib)
                model = copy_model(before)
                for o in order:
                    REFS[o](model, action.name, rng_ref)
                label = f'rnd chain{k} #{trial} {action.name}'
                check(plain_state(base) == before, label, 'input state modified')
                check(next_state is not base and next_state.grid is not base.grid, label)
                got = plain_state(next_state)
                check(got == model, label, 'got', got, 'expected', model)
                check(rng_state(rng_lib) == rng_state(rng_ref), label, 'rng')
                check(model_in_space(got, (h, w), type_names, color_names), label, 'closure (model)')
                check(space.contains(next_state), label, 'closure (library)')
                n += 1
    return n


# ---------------------------------------------------------------------------
# 3. whole environments
# ---------------------------------------------------------------------------


def make_env(reset_function, shape, transition_names, observation_name, view_shape, actions):
    state_space = StateSpace(shape, ALL_TYPES, ALL_COLORS)
    observation_space = ObservationSpace(view_shape, ALL_TYPES, ALL_COLORS)
    action_space = ActionSpace(actions)
    transition_function = transition_fs.factory(
        'chain', transition_functions=[LIBS[o] for o in transition_names]
    )
    observation_function = observation_fs.factory(
        observation_name, area=observation_space.area
    )
    reward_function = reward_fs.factory(
        'reduce_sum',
        reward_functions=[
            reward_fs.factory('living_reward', reward=-0.05),
            reward_fs.factory('reach_exit', reward_on=5.0, reward_off=0.0),
            reward_fs.factory('bump_moving_obstacle', reward=-1.0),
            reward_fs.factory('bump_into_wall', reward=-0.5),
            reward_fs.factory('actuate_door', reward_open=1.0, reward_close=-1.0),
            reward_fs.factory(
                'pickndrop', object_type=Key, reward_pick=0.5, reward_drop=-0.5
            ),
        ],
    )
    termination_function = terminating_fs.factory(
        'reduce_any',
        terminating_functions=[
            terminating_fs.factory('reach_exit'),
            terminating_fs.factory('bump_moving_obstacle'),
        ],
    )
    return GridWorld(
        state_space,
        action_space,
        observation_space,
        reset_function,
        transition_function,
        observation_function,
        reward_function,
        termination_function,
    )


def plain_observation_ok(observation, view_shape, type_names, color_names):
    """independent observation-space predicate"""
    g = observation.grid
    if (len(g.objects), len(g.objects[0])) != view_shape:
        return False
    for row in g.objects:
        if len(row) != view_shape[1]:
            return False
        for o in row:
            p = plain_obj(o)
            if p[0] not in type_names | {'Hidden'}:
                return False
            if obj_color_name(p) not in color_names | {'NONE'}:
                return False
    ay, ax = observation.agent.position.y, observation.agent.position.x
    if not (0 <= ay < view_shape[0] and 0 <= ax < view_shape[1]):
        return False
    held = plain_obj(observation.agent.grid_object)
    if held[0] not in type_names | {'NoneGridObject'}:
        return False
    return obj_color_name(held) in color_names | {'NONE'}


def sweep_envs():
    type_names = {t.__name__ for t in ALL_TYPES}
    color_names = {c.name for c in ALL_COLORS}
    full = ['move_agent', 'turn_agent', 'pickndrop', 'actuate_door', 'actuate_box', 'teleport', 'move_obstacles']
    all_actions = list(Action)
    configs = [
        ('empty', dict(shape=Shape(5, 6), random_agent=True, random_exit=True), Shape(5, 6)),
        ('keydoor', dict(shape=Shape(6, 8)), Shape(6, 8)),
        ('dynamic_obstacles', dict(shape=Shape(7, 7), num_obstacles=4, random_agent=True), Shape(7, 7)),
        ('teleport', dict(shape=Shape(6, 6)), Shape(6, 6)),
        ('crossing', dict(shape=Shape(7, 7), num_rivers=2, object_type=Wall), Shape(7, 7)),
        ('rooms', dict(shape=Shape(9, 9), layout=(2, 2)), Shape(9, 9)),
        ('memory', dict(shape=Shape(5, 7), colors={Color.RED, Color.GREEN}), Shape(5, 7)),
    ]
    observation_names = ['fully_transparent', 'partially_occluded', 'raytracing', 'stochastic_raytracing']
    view_shapes = [Shape(3, 3), Shape(7, 7), Shape(2, 5)]
    n = 0
    for ci, (reset_name, kwargs, shape) in enumerate(configs):
        reset_function = reset_fs.factory(reset_name, **kwargs)
        for oi, observation_name in enumerate(observation_names):
            view_shape = view_shapes[(ci + oi) % len(view_shapes)]
            env = make_env(reset_function, shape, full, observation_name, view_shape, all_actions)
            for seed in range(3):
                env.set_seed(seed)
                env.reset()
                walk = np.random.default_rng(99 + seed)
                for t in range(60):
                    state = env.state
                    before = plain_state(state)
                    check(model_in_space(before, shape.as_tuple, type_names, color_names))
                    check(env.state_space.contains(state))

                    observation = env.functional_observation(state)
                    label = f'env {reset_name} {observation_name} seed={seed} t={t}'
                    check(
                        plain_observation_ok(observation, view_shape.as_tuple, type_names, color_names),
                        label, 'observation (model)',
                    )
                    check(env.observation_space.contains(observation), label, 'observation (library)')
                    check(plain_state(state) == before, label, 'observation modified state')

                    action = all_actions[int(walk.integers(len(all_actions)))]

                    # functional step from the same state with a known seed
                    # is compared with the reference model
                    env.set_seed(5000 + t)
                    rng_ref = np.random.default_rng(5000 + t)
                    next_state, reward, terminal = env.functional_step(state, action)
                    model = copy_model(before)
                    for o in full:
                        REFS[o](model, action.name, rng_ref)
                    got = plain_state(next_state)
                    check(got == model, label, action.name, 'got', got, 'expected', model)
                    check(rng_state(env._rng) == rng_state(rng_ref), label, 'rng')
                    check(plain_state(state) == before, label, 'input state modified')
                    check(model_in_space(got, shape.as_tuple, type_names, color_names), label)
                    check(env.state_space.contains(next_state), label)
                    check(type(reward) is float and math.isfinite(reward), label, reward)
                    check(type(terminal) is bool, label, terminal)

                    # invalid actions: rejected, nothing changes
                    for bad in (None, 3, 'MOVE_FORWARD', Orientation.F):
                        try:
                            env.functional_step(state, bad)
                        except ValueError:
                            pass
                        else:
                            check(False, label, 'invalid action accepted', bad)
                        check(plain_state(state) == before, label)
                        check(plain_state(env.state) == before, label)
                        check(rng_state(env._rng) == rng_state(rng_ref), label)

                    reward2, terminal2 = env.step(action)
                    check(type(reward2) is float and math.isfinite(reward2), label)
                    check(type(terminal2) is bool, label)
                    n += 1
                    if terminal2:
                        env.reset()

    # restricted action space: actions outside are rejected
    env = make_env(
        reset_fs.factory('keydoor', shape=Shape(6, 8)), Shape(6, 8), full,
        'fully_transparent', Shape(3, 3), [Action.MOVE_FORWARD, Action.TURN_LEFT],
    )
    env.set_seed(0)
    env.reset()
    before = plain_state(env.state)
    for action in Action:
        if action in (Action.MOVE_FORWARD, Action.TURN_LEFT):
            continue
        try:
            env.step(action)
        except ValueError:
            pass
        else:
            check(False, 'action outside restricted space accepted', action)
        check(plain_state(env.state) == before)
    return n


def main():
    n1 = sweep_exhaustive()
    print(f'exhaustive single-function cases: {n1}')
    n2 = sweep_random()
    print(f'random-grid cases: {n2}')
    n3 = sweep_envs()
    print(f'environment steps: {n3}')
    print(f'all {N_CHECKS} checks passed')


if __name__ == '__main__':
    main()
