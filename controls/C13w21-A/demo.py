"""Demo for C13 (reset functions produce well-formed initial states).

Runs every built-in reset function over a broad parameter sweep (tiny,
non-square, odd/even shapes; all layouts; counts from 0 to too-many; colour
sets with NONE / empty / singleton; flags) and many seeds, and

1. checks the well-formedness property on every returned state,
2. checks every refusal is the same exception type as on the pristine tree,
3. compares a digest of (outcome, full grid content, agent, generator state
   after the call) per reset function with the digest recorded on the pristine
   tree -- so any difference in the number / kind / arguments of the random
   draws, or in the order of candidate cells, shows up.

Exit status 0 both on the pristine tree and with the change applied.
`python _seed/X/demo.py --print` prints the digests instead of comparing.
"""
import hashlib
import itertools as itt
import os
import sys

sys.path.insert(0, os.getcwd())  # run from the worktree root

from gym_gridverse import rng as gv_rng
from gym_gridverse.envs import reset_functions as rf
from gym_gridverse.geometry import Orientation, Position, Shape
from gym_gridverse.grid_object import (
    Beacon,
    Color,
    Door,
    Exit,
    Floor,
    Key,
    MovingObstacle,
    NoneGridObject,
    Telepod,
    Wall,
)
from gym_gridverse.state import State

SEEDS = range(6)

EXPECTED = {
    'empty': '804c84954568d0db3f466258c26bf067300bfe2d03ba1f3fa21e06ea295ec20d',
    'rooms': '9baad59475790c15ec9322bbff18ff50d91199ee32f024b10748b49fa7e17c10',
    'dynamic_obstacles': '67bdf0be18e8ce42b348d97e7e6062fce4641ccbd9cf7524dc56bddc597496e3',
    'keydoor': '72f74bb40ac174f5f29eb73b83d6be677416fc157562485d0c53f96f45db0e2c',
    'crossing': 'e01f706feb47639e25908ac47e4ed5ddbd8f0d2a44da8212367de28afd4acda9',
    'teleport': 'c08eae3fafc02abc5f11236343dc0c3592f9afec812cdc8c5a9dcbbf6facbf4b',
    'memory': 'b981e58423a55480737a746a40f128f2c644115746e81668a1cf93c473d233fd',
    'memory_rooms': 'e71350e81b20d2c554477a8408939d308b85f05209d068f8959d9aabc30ea827',
    'library_rng': '2d1123a2bf5412364c48e799acf82af193d6ff6e1ba3b1945a92fa2463be1ab1',
}


# --------------------------------------------------------------------------
# canonical serialisation
# --------------------------------------------------------------------------


def ser_obj(obj):
    return (type(obj).__name__, int(obj.state_index), obj.color.name)


def ser_state(state):
    grid = state.grid
    cells = tuple(
        ser_obj(grid[Position(y, x)])
        for y in range(grid.shape.height)
        for x in range(grid.shape.width)
    )
    agent = state.agent
    return (
        (int(grid.shape.height), int(grid.shape.width)),
        cells,
        (int(agent.position.y), int(agent.position.x)),
        agent.orientation.name,
        ser_obj(agent.grid_object),
    )


def ser_rng(rng):
    s = rng.bit_generator.state
    return (s['state']['state'], s['state']['inc'], s['has_uint32'], s['uinteger'])


# --------------------------------------------------------------------------
# property
# --------------------------------------------------------------------------


def count(state, kind):
    return [
        (pos, state.grid[pos])
        for pos in state.grid.area.positions()
        if type(state.grid[pos]) is kind
    ]


def check_common(state, shape, label, *, walled=True):
    assert isinstance(state, State), label
    grid, agent = state.grid, state.agent
    assert grid.shape == shape, (label, grid.shape)
    h, w = shape.height, shape.width
    if walled:
        for pos in grid.area.positions('border'):
            assert type(grid[pos]) is Wall, (label, pos, grid[pos])
    assert 0 <= agent.position.y < h and 0 <= agent.position.x < w, label
    assert grid.area.contains(agent.position), label
    assert isinstance(agent.grid_object, NoneGridObject), label
    assert isinstance(agent.orientation, Orientation), label
    under = grid[agent.position]
    assert not under.blocks_movement, (label, under)
    assert not isinstance(under, (Exit, MovingObstacle, Telepod)), (label, under)
    # no cell is shared between two grid positions (no aliasing of objects)
    ids = [id(grid[pos]) for pos in grid.area.positions()]
    assert len(ids) == len(set(ids)), label


def check_empty(state, shape, label, random_agent, random_exit):
    check_common(state, shape, label)
    assert len(count(state, Exit)) == 1, label
    if not random_exit:
        assert type(state.grid[shape.height - 2, shape.width - 2]) is Exit
    if not random_agent:
        assert state.agent.position == Position(1, 1), label
        assert state.agent.orientation is Orientation.R, label
    inside = sum(1 for _ in state.grid.area.positions('inside'))
    assert len(count(state, Floor)) == inside - 1, label


def check_rooms(state, shape, label):
    check_common(state, shape, label)
    assert len(count(state, Exit)) == 1, label


def check_dynamic(state, shape, label, num):
    check_common(state, shape, label)
    assert len(count(state, Exit)) == 1, label
    assert len(count(state, MovingObstacle)) == num, label


def check_keydoor(state, shape, label):
    check_common(state, shape, label)
    assert len(count(state, Exit)) == 1, label
    doors = count(state, Door)
    keys = count(state, Key)
    assert len(doors) == 1 and len(keys) == 1, label
    (dpos, door), (kpos, key) = doors[0], keys[0]
    assert door.is_locked and door.color == key.color, label
    # dividing wall: full inner column of walls except the door
    for y in range(1, shape.height - 1):
        cell = state.grid[y, dpos.x]
        assert (y == dpos.y) or type(cell) is Wall, label
    assert 2 <= dpos.x <= shape.width - 3, label
    assert kpos.x < dpos.x and state.agent.position.x < dpos.x, label


def check_crossing(state, shape, label):
    check_common(state, shape, label)
    assert len(count(state, Exit)) == 1, label
    assert state.agent.position == Position(1, 1), label


def check_teleport(state, shape, label):
    check_common(state, shape, label)
    assert len(count(state, Exit)) == 1, label
    pods = count(state, Telepod)
    assert len(pods) == 2, label
    assert pods[0][1].color == pods[1][1].color, label
    assert pods[0][1] is not pods[1][1], label


def check_memory_like(state, shape, label, num_exits, num_beacons, walled):
    check_common(state, shape, label, walled=walled)
    exits = count(state, Exit)
    beacons = count(state, Beacon)
    assert len(exits) == num_exits and len(beacons) == num_beacons, label
    colors = [e.color for _, e in exits]
    assert len(set(colors)) == len(colors), label
    assert Color.NONE not in colors, label
    bcolors = {b.color for _, b in beacons}
    assert len(bcolors) == 1, label
    assert sum(1 for c in colors if c in bcolors) == 1, label


# --------------------------------------------------------------------------
# scenarios
# --------------------------------------------------------------------------

SHAPES_SMALL = [Shape(h, w) for h in range(1, 8) for w in range(1, 8)]
SHAPES_EXTRA = [Shape(4, 11), Shape(11, 4), Shape(9, 13), Shape(13, 9)]


def scenarios():
    """yields (function name, label, callable(rng) -> State, checker)"""
    for shape in SHAPES_SMALL + SHAPES_EXTRA:
        for ra, re_ in itt.product([False, True], repeat=2):
            yield (
                'empty',
                f'empty {shape} {ra} {re_}',
                lambda rng, s=shape, a=ra, e=re_: rf.empty(s, a, e, rng=rng),
                lambda st, lab, s=shape, a=ra, e=re_: check_empty(st, s, lab, a, e),
            )

    layouts = [(1, 1), (1, 2), (2, 1), (2, 2), (3, 2), (2, 3), (1, 4), (0, 1), (1, 0)]
    room_shapes = [
        Shape(h, w) for h in (1, 2, 3, 4, 5, 7, 10) for w in (1, 2, 3, 5, 6, 9, 12)
    ]
    for shape in room_shapes:
        for layout in layouts:
            yield (
                'rooms',
                f'rooms {shape} {layout}',
                lambda rng, s=shape, la=layout: rf.rooms(s, la, rng=rng),
                lambda st, lab, s=shape: check_rooms(st, s, lab),
            )

    for shape in [Shape(h, w) for h in (3, 4, 5, 6) for w in (3, 4, 5, 7)]:
        inside = max(shape.height - 2, 0) * max(shape.width - 2, 0)
        for num in sorted({0, 1, 2, 3, inside - 3, inside - 2, inside - 1, inside}):
            if num < 0:
                continue
            for ra in (False, True):
                yield (
                    'dynamic_obstacles',
                    f'dynamic {shape} {num} {ra}',
                    lambda rng, s=shape, n=num, a=ra: rf.dynamic_obstacles(
                        s, n, a, rng=rng
                    ),
                    lambda st, lab, s=shape, n=num: check_dynamic(st, s, lab, n),
                )

    for shape in [Shape(h, w) for h in range(1, 8) for w in range(1, 10)]:
        yield (
            'keydoor',
            f'keydoor {shape}',
            lambda rng, s=shape: rf.keydoor(s, rng=rng),
            lambda st, lab, s=shape: check_keydoor(st, s, lab),
        )

    for shape in [Shape(h, w) for h in (3, 4, 5, 7, 9, 11) for w in (3, 5, 6, 7, 9, 13)]:
        for num in (-1, 0, 1, 2, 3, 5, 50):
            for kind in (Wall, MovingObstacle):
                yield (
                    'crossing',
                    f'crossing {shape} {num} {kind.__name__}',
                    lambda rng, s=shape, n=num, k=kind: rf.crossing(s, n, k, rng=rng),
                    lambda st, lab, s=shape: check_crossing(st, s, lab),
                )

    for shape in SHAPES_SMALL + SHAPES_EXTRA:
        yield (
            'teleport',
            f'teleport {shape}',
            lambda rng, s=shape: rf.teleport(s, rng=rng),
            lambda st, lab, s=shape: check_teleport(st, s, lab),
        )

    colour_sets = [
        set(),
        {Color.RED},
        {Color.RED, Color.NONE},
        {Color.RED, Color.GREEN, Color.NONE},
        {Color.RED, Color.GREEN},
        {Color.YELLOW, Color.BLUE, Color.GREEN},
        set(Color) - {Color.NONE},
    ]
    for shape in [Shape(h, w) for h in (3, 4, 5, 6, 8) for w in (3, 4, 5, 6, 7, 11)]:
        for colors in colour_sets:
            yield (
                'memory',
                f'memory {shape} {sorted(c.name for c in colors)}',
                lambda rng, s=shape, c=colors: rf.memory(s, set(c), rng=rng),
                lambda st, lab, s=shape: check_memory_like(st, s, lab, 2, 2, True),
            )

    for shape in [Shape(3, 3), Shape(4, 5), Shape(5, 4), Shape(7, 9), Shape(10, 6)]:
        for layout in [(1, 1), (1, 2), (2, 1), (2, 2), (3, 2)]:
            for colors in colour_sets[1:]:
                for nb, ne in [(0, 2), (1, 1), (1, 2), (2, 2), (3, 3), (1, 5), (40, 2)]:
                    yield (
                        'memory_rooms',
                        f'memory_rooms {shape} {layout} '
                        f'{sorted(c.name for c in colors)} {nb} {ne}',
                        lambda rng, s=shape, la=layout, c=colors, b=nb, e=ne: (
                            rf.memory_rooms(s, la, set(c), b, e, rng=rng)
                        ),
                        lambda st, lab, s=shape, b=nb, e=ne: check_memory_like(
                            st, s, lab, e, b, True
                        ),
                    )


MALFORMED = []


def degenerate(label):
    return '(0, 1)' in label or '(1, 0)' in label


def run():
    digests = {}
    outcomes = {}
    for name, label, call, check in scenarios():
        h = digests.setdefault(name, hashlib.sha256())
        for seed in SEEDS:
            rng = gv_rng.make_rng(seed)
            try:
                state = call(rng)
            except Exception as error:  # pylint: disable=broad-except
                outcome = ('raise', type(error).__name__)
            else:
                try:
                    check(state, f'{label} seed={seed}')
                except AssertionError:
                    # only degenerate (zero) layouts may be malformed; these
                    # are not valid parameters, but are still pinned below
                    if not degenerate(label):
                        raise
                    MALFORMED.append(label)
                outcome = ('state', ser_state(state))
                # determinism + independence of repeated calls
                again = call(gv_rng.make_rng(seed))
                assert ser_state(again) == outcome[1], label
                assert again.grid is not state.grid, label
            outcomes.setdefault(name, {}).setdefault(outcome[0], 0)
            outcomes[name][outcome[0]] += 1
            h.update(repr((label, seed, outcome, ser_rng(rng))).encode())
    return {name: h.hexdigest() for name, h in digests.items()}, outcomes


def check_library_rng():
    """rng=None falls back on the library generator; re-seeding replays"""
    calls = [
        lambda: rf.empty(Shape(5, 6), True, True),
        lambda: rf.rooms(Shape(7, 9), (2, 2)),
        lambda: rf.dynamic_obstacles(Shape(5, 6), 4, True),
        lambda: rf.keydoor(Shape(4, 7)),
        lambda: rf.crossing(Shape(7, 9), 3, Wall),
        lambda: rf.teleport(Shape(5, 4)),
        lambda: rf.memory(Shape(6, 7), {Color.RED, Color.BLUE, Color.GREEN}),
        lambda: rf.memory_rooms(
            Shape(7, 9), (2, 2), {Color.RED, Color.BLUE, Color.GREEN}, 2, 3
        ),
    ]
    gv_rng.reset_gv_rng(123)
    first = [ser_state(call()) for call in calls for _ in range(3)]
    gv_rng.reset_gv_rng(123)
    second = [ser_state(call()) for call in calls for _ in range(3)]
    assert first == second
    # the same stream, passed explicitly
    rng = gv_rng.make_rng(123)
    explicit = []
    for name, kwargs in [
        ('empty', dict(shape=Shape(5, 6), random_agent=True, random_exit=True)),
        ('rooms', dict(shape=Shape(7, 9), layout=(2, 2))),
    ]:
        function = rf.factory(name, **kwargs)
        explicit += [ser_state(function(rng=rng)) for _ in range(3)]
    assert explicit == first[:6]
    return hashlib.sha256(repr(first).encode()).hexdigest()


def extra_checks():
    """the `integer` helper (if present) draws exactly as `Generator.integers`"""
    integer = getattr(gv_rng, 'integer', None)
    if integer is None:
        return
    import numpy as np

    for seed in range(5):
        for low, high in [(1, 2), (1, 1), (3, 1), (0, 7), (-3, 4), (2, 2 ** 40)]:
            for kwargs in [{}, {'endpoint': False}, {'endpoint': True}]:
                r1, r2 = gv_rng.make_rng(seed), gv_rng.make_rng(seed)
                # numpy scalars as bounds, as np.linspace splits provide
                for lo, hi in [(low, high), (np.int64(low), np.int64(high))]:
                    try:
                        expected = ('ok', r1.integers(lo, hi, **kwargs))
                    except Exception as error:  # pylint: disable=broad-except
                        expected = ('raise', type(error), str(error))
                    try:
                        actual = ('ok', integer(r2, lo, hi, **kwargs))
                    except Exception as error:  # pylint: disable=broad-except
                        actual = ('raise', type(error), str(error))
                    assert expected == actual, (low, high, kwargs)
                    if expected[0] == 'ok':
                        assert type(expected[1]) is type(actual[1])
                    assert ser_rng(r1) == ser_rng(r2)


def main():
    digests, outcomes = run()
    digests['library_rng'] = check_library_rng()
    extra_checks()
    if '--print' in sys.argv:
        for name, digest in digests.items():
            print(f"    {name!r}: {digest!r},")
        print(outcomes, file=sys.stderr)
        return 0
    failed = False
    for name, digest in digests.items():
        if EXPECTED.get(name) != digest:
            print(f'DIGEST MISMATCH for {name}: {digest}')
            failed = True
    for name, oc in outcomes.items():
        assert oc.get('state', 0) > 0 and oc.get('raise', 0) > 0, (name, oc)
    if failed:
        return 1
    print('OK', {k: v for k, v in outcomes.items()})
    return 0


if __name__ == '__main__':
    sys.exit(main())
