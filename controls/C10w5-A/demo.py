"""Demo / regression check for refactoring A (actuate_door).

Run as:  cd /tmp/wt5-C10 && /venv/bin/python -W ignore _seed/A/demo.py

The reference behaviour is computed by an independent re-implementation
(`Model`, plain tuples and dicts, no library code) of the transition functions
used by the key-door environments.  The library is then driven through its
public API (transition functions, registry factory, `chain`,
`transition_with_copy`, `factory_env_from_data`, `functional_step`) and every
single transition is compared with the model.  On top of the lock-step
comparison, the C10 property is asserted directly on the library states.
"""
import itertools
import os
import sys

sys.path.insert(0, os.getcwd())

import numpy.random as rnd  # noqa: E402

from gym_gridverse.action import Action  # noqa: E402
from gym_gridverse.agent import Agent  # noqa: E402
from gym_gridverse.envs import transition_functions as tf  # noqa: E402
from gym_gridverse.envs.yaml.factory import factory_env_from_data  # noqa: E402
from gym_gridverse.geometry import Orientation, Position  # noqa: E402
from gym_gridverse.grid import Grid  # noqa: E402
from gym_gridverse.grid_object import (  # noqa: E402
    Beacon,
    Box,
    Color,
    Door,
    Exit,
    Floor,
    Key,
    MovingObstacle,
    NoneGridObject,
    Telepod,
    Wall,
)
from gym_gridverse.state import State  # noqa: E402

# --------------------------------------------------------------------------
# independent model
# --------------------------------------------------------------------------

ORDER = ['FORWARD', 'RIGHT', 'BACKWARD', 'LEFT']  # clockwise
DELTA = {
    'FORWARD': (-1, 0),
    'RIGHT': (0, 1),
    'BACKWARD': (1, 0),
    'LEFT': (0, -1),
}
MOVE_OFFSET = {
    'MOVE_FORWARD': 0,
    'MOVE_RIGHT': 1,
    'MOVE_BACKWARD': 2,
    'MOVE_LEFT': 3,
}
NONE = ('None',)
FLOOR = ('Floor',)


def m_blocks(cell):
    if cell[0] in ('Wall', 'Box'):
        return True
    if cell[0] == 'Door':
        return cell[1] != 'OPEN'
    return False


def m_holdable(cell):
    return cell[0] == 'Key'


class Model:
    """cells: dict (y, x) -> tuple;  pos: (y, x);  ori: str;  held: tuple"""

    def __init__(self, h, w, cells, pos, ori, held):
        self.h, self.w = h, w
        self.cells = dict(cells)
        self.pos, self.ori, self.held = pos, ori, held

    def copy(self):
        return Model(self.h, self.w, self.cells, self.pos, self.ori, self.held)

    def key(self):
        return (
            tuple(sorted(self.cells.items())),
            self.pos,
            self.ori,
            self.held,
        )

    def inside(self, p):
        return 0 <= p[0] < self.h and 0 <= p[1] < self.w

    def front(self):
        dy, dx = DELTA[self.ori]
        return (self.pos[0] + dy, self.pos[1] + dx)

    # -- the individual mechanisms -----------------------------------------
    def move_agent(self, a):
        if a not in MOVE_OFFSET:
            return
        d = ORDER[(ORDER.index(self.ori) + MOVE_OFFSET[a]) % 4]
        p = (self.pos[0] + DELTA[d][0], self.pos[1] + DELTA[d][1])
        if self.inside(p) and not m_blocks(self.cells[p]):
            self.pos = p

    def turn_agent(self, a):
        if a == 'TURN_LEFT':
            self.ori = ORDER[(ORDER.index(self.ori) - 1) % 4]
        elif a == 'TURN_RIGHT':
            self.ori = ORDER[(ORDER.index(self.ori) + 1) % 4]

    def actuate_door(self, a):
        if a != 'ACTUATE':
            return
        p = self.front()
        if not self.inside(p):
            return
        c = self.cells[p]
        if c[0] != 'Door':
            return
        _, status, color = c
        if status == 'CLOSED':
            self.cells[p] = ('Door', 'OPEN', color)
        elif status == 'LOCKED' and self.held == ('Key', color):
            self.cells[p] = ('Door', 'OPEN', color)

    def actuate_box(self, a):
        if a != 'ACTUATE':
            return
        p = self.front()
        if self.inside(p) and self.cells[p][0] == 'Box':
            self.cells[p] = self.cells[p][1]

    def pickndrop(self, a):
        if a != 'PICK_N_DROP':
            return
        p = self.front()
        if not self.inside(p):
            return
        c = self.cells[p]
        if not (c == FLOOR or m_holdable(c)):
            return
        self.cells[p] = FLOOR if self.held == NONE else self.held
        self.held = c if m_holdable(c) else NONE

    def apply(self, names, a):
        for n in names:
            getattr(self, n)(a)


# --------------------------------------------------------------------------
# encoding / decoding of library objects
# --------------------------------------------------------------------------


def enc(obj):
    if isinstance(obj, NoneGridObject):
        return NONE
    if isinstance(obj, Door):
        return ('Door', obj.state.name, obj.color.name)
    if isinstance(obj, Key):
        return ('Key', obj.color.name)
    if isinstance(obj, Box):
        return ('Box', enc(obj.content))
    if isinstance(obj, (Telepod, Beacon)):
        return (type(obj).__name__, obj.color.name)
    for t in (Floor, Wall, Exit, MovingObstacle):
        if isinstance(obj, t):
            return (t.__name__,)
    raise AssertionError(f'unexpected object {obj!r}')


def dec(cell):
    n = cell[0]
    if n == 'None':
        return NoneGridObject()
    if n == 'Door':
        return Door(Door.Status[cell[1]], Color[cell[2]])
    if n == 'Key':
        return Key(Color[cell[1]])
    if n == 'Box':
        return Box(dec(cell[1]))
    if n == 'Telepod':
        return Telepod(Color[cell[1]])
    if n == 'Beacon':
        return Beacon(Color[cell[1]])
    return {
        'Floor': Floor,
        'Wall': Wall,
        'Exit': Exit,
        'MovingObstacle': MovingObstacle,
    }[n]()


def enc_state(state):
    h, w = state.grid.shape.height, state.grid.shape.width
    cells = {
        (y, x): enc(state.grid[y, x]) for y in range(h) for x in range(w)
    }
    return Model(
        h,
        w,
        cells,
        state.agent.position.yx,
        state.agent.orientation.name,
        enc(state.agent.grid_object),
    )


def dec_state(m):
    objects = [[dec(m.cells[y, x]) for x in range(m.w)] for y in range(m.h)]
    return State(
        Grid(objects),
        Agent(Position(*m.pos), Orientation[m.ori], dec(m.held)),
    )


# --------------------------------------------------------------------------
# property C10 asserted directly on a (before, after) pair of library states
# --------------------------------------------------------------------------

COUNT = {'transitions': 0, 'door_opened': 0, 'locked_opened': 0, 'boxes': 0}


def check_c10(before_m, objs_before, held_before, state, action, names):
    """`before_m`: model encoding of the state before, `objs_before` the very
    python objects that were in the grid before, `state` the state after."""
    front = before_m.front()
    for p, c in before_m.cells.items():
        obj_after = state.grid[p]
        if c[0] == 'Door':
            faced = p == front and action is Action.ACTUATE
            faced = faced and 'actuate_door' in names
            moved_in = False
            if obj_after is not objs_before[p]:
                # a door is not holdable and is never replaced
                moved_in = True
            assert not moved_in, (p, c, action)
            new = obj_after.state.name
            assert obj_after.color.name == c[2]
            if new != c[1]:
                assert faced, ('door changed without faced ACTUATE', p, c)
                assert new == 'OPEN', ('door moved away from open', p, c, new)
                assert c[1] in ('CLOSED', 'LOCKED')
                COUNT['door_opened'] += 1
                if c[1] == 'LOCKED':
                    assert before_m.held == ('Key', c[2]), (c, before_m.held)
                    COUNT['locked_opened'] += 1
            elif faced:
                # unchanged although faced + actuated: open stays open,
                # locked without the right key stays locked
                assert c[1] == 'OPEN' or (
                    c[1] == 'LOCKED' and before_m.held != ('Key', c[2])
                ), (c, before_m.held)
        elif c[0] == 'Box':
            faced = p == front and action is Action.ACTUATE
            faced = faced and 'actuate_box' in names
            if faced:
                assert obj_after is objs_before[p].content
                COUNT['boxes'] += 1
            else:
                assert obj_after is objs_before[p]
                assert enc(obj_after) == c
    # keys are never consumed: the held item only changes with PICK_N_DROP
    if action is not Action.PICK_N_DROP or 'pickndrop' not in names:
        assert state.agent.grid_object is held_before
        assert enc(state.agent.grid_object) == before_m.held


def run_one(m, function, names, action, rng):
    """Runs `function` (library) on decoded `m`, compares with model `names`"""
    state = dec_state(m)
    objs_before = {p: state.grid[p] for p in m.cells}
    held_before = state.agent.grid_object
    rng_state = rng.bit_generator.state

    ret = function(state, action, rng=rng)
    assert ret is None
    assert rng.bit_generator.state == rng_state, 'random numbers consumed'

    expected = m.copy()
    expected.apply(names, action.name)
    got = enc_state(state)
    assert got.key() == expected.key(), (
        names,
        action,
        m.key(),
        got.key(),
        expected.key(),
    )
    check_c10(m, objs_before, held_before, state, action, names)
    COUNT['transitions'] += 1
    return state


# --------------------------------------------------------------------------
# part 1: exhaustive sweep on small hand-made grids
# --------------------------------------------------------------------------

COLORS = [c.name for c in Color]
STATUSES = ['OPEN', 'CLOSED', 'LOCKED']


def part1():
    rng = rnd.default_rng(7)
    h, w = 3, 4
    target_pos = (1, 1)
    other_pos = (0, 3)  # a corner: can be faced from two cells only

    targets = [('Door', s, c) for s in STATUSES for c in COLORS]
    targets += [
        ('Box', FLOOR),
        ('Box', ('Key', 'RED')),
        ('Box', ('Door', 'LOCKED', 'RED')),
        ('Box', ('Box', ('Key', 'BLUE'))),
        ('Wall',),
        ('Key', 'RED'),
        FLOOR,
    ]
    others = [('Door', 'LOCKED', 'RED'), ('Door', 'CLOSED', 'NONE')]
    helds = [NONE] + [('Key', c) for c in COLORS]
    helds += [
        ('MovingObstacle',),
        ('Door', 'OPEN', 'RED'),
        ('Box', ('Key', 'RED')),
        ('Telepod', 'RED'),
    ]

    chain_names = [
        ['move_agent', 'turn_agent', 'actuate_door', 'pickndrop'],  # keydoor
        ['actuate_door', 'actuate_box'],
        ['pickndrop', 'actuate_box', 'actuate_door', 'move_agent'],
    ]
    functions = [
        (tf.actuate_door, ['actuate_door']),
        (tf.factory('actuate_door'), ['actuate_door']),
        (tf.actuate_box, ['actuate_box']),
        (tf.pickndrop, ['pickndrop']),
    ]
    for names in chain_names:
        functions.append(
            (
                tf.factory(
                    'chain',
                    transition_functions=[tf.factory(n) for n in names],
                ),
                names,
            )
        )

    positions = [(y, x) for y in range(h) for x in range(w)]
    combos = itertools.product(enumerate(targets), enumerate(helds))
    for (i, target), (j, held) in combos:
        other = others[(i + j) % len(others)]
        cells = {p: FLOOR for p in positions}
        cells[target_pos] = target
        cells[other_pos] = other
        for pos, ori in itertools.product(positions, ORDER):
            m = Model(h, w, cells, pos, ori, held)
            for action in Action:
                for function, names in functions:
                    run_one(m, function, names, action, rng)


# --------------------------------------------------------------------------
# part 2: unusual inputs of actuate_door
# --------------------------------------------------------------------------


class GlassDoor(Door):
    """a user-defined door: the mechanism works through isinstance"""


def part2():
    # registered names are intact (private helpers must not be registered)
    assert sorted(tf.transition_function_registry.keys()) == [
        'actuate_box',
        'actuate_door',
        'chain',
        'move_agent',
        'move_obstacles',
        'pickndrop',
        'teleport',
        'turn_agent',
    ]
    assert tf.transition_function_registry['actuate_door'] is tf.actuate_door
    assert tf.transition_function_registry['actuate_box'] is tf.actuate_box
    assert tf.transition_function_registry['pickndrop'] is tf.pickndrop

    # 1x1 grid: every faced cell is outside the grid
    for ori in Orientation:
        for action in Action:
            state = State(Grid([[Door(Door.Status.CLOSED, Color.RED)]]),
                          Agent(Position(0, 0), ori, Key(Color.RED)))
            tf.actuate_door(state, action)
            tf.actuate_box(state, action)
            assert state.grid[0, 0].state is Door.Status.CLOSED

    # subclass of Door, every status / key combination
    for status in Door.Status:
        for held in [None, Key(Color.RED), Key(Color.BLUE), Wall()]:
            for action in Action:
                door = GlassDoor(status, Color.RED)
                state = State(
                    Grid([[door], [Floor()]]),
                    Agent(Position(1, 0), Orientation.F, held),
                )
                held_obj = state.agent.grid_object
                tf.actuate_door(state, action)
                assert state.grid[0, 0] is door
                assert state.agent.grid_object is held_obj
                opens = action is Action.ACTUATE and (
                    status is Door.Status.CLOSED
                    or (
                        status is Door.Status.LOCKED
                        and isinstance(held, Key)
                        and held.color is Color.RED
                    )
                )
                want = Door.Status.OPEN if opens else status
                assert door.state is want, (status, held, action, door.state)

    # rng keyword may be omitted or None;  positional rng is not accepted
    state = State(
        Grid([[Door(Door.Status.CLOSED, Color.RED)], [Floor()]]),
        Agent(Position(1, 0), Orientation.F),
    )
    tf.actuate_door(state, Action.ACTUATE, rng=None)
    assert state.grid[0, 0].is_open
    try:
        tf.actuate_door(state, Action.ACTUATE, None)
    except TypeError:
        pass
    else:
        raise AssertionError('rng must be keyword-only')

    # transition_with_copy leaves the input untouched
    state = State(
        Grid([[Door(Door.Status.LOCKED, Color.RED)], [Floor()]]),
        Agent(Position(1, 0), Orientation.F, Key(Color.RED)),
    )
    nxt = tf.transition_with_copy(tf.actuate_door, state, Action.ACTUATE)
    assert state.grid[0, 0].is_locked and nxt.grid[0, 0].is_open
    assert isinstance(nxt.agent.grid_object, Key)


# --------------------------------------------------------------------------
# part 3: the key-door environments
# --------------------------------------------------------------------------

KEYDOOR_NAMES = ['move_agent', 'turn_agent', 'actuate_door', 'pickndrop']


def keydoor_env(height, width):
    data = {
        'state_space': {
            'objects': ['Wall', 'Floor', 'Exit', 'Door', 'Key'],
            'colors': ['NONE', 'YELLOW'],
        },
        'observation_space': {
            'objects': ['Wall', 'Floor', 'Exit', 'Door', 'Key'],
            'colors': ['NONE', 'YELLOW'],
        },
        'reset_function': {'name': 'keydoor', 'shape': [height, width]},
        'transition_functions': [{'name': n} for n in KEYDOOR_NAMES],
        'reward_functions': [
            {'name': 'reach_exit', 'reward_on': 5.0, 'reward_off': 0.0},
            {
                'name': 'actuate_door',
                'reward_open': 1.0,
                'reward_close': -1.0,
            },
            {'name': 'living_reward', 'reward': -0.05},
        ],
        'observation_function': {
            'name': 'partially_occluded',
            'area': [[-6, 0], [-3, 3]],
        },
        'terminating_function': {'name': 'reach_exit'},
    }
    return factory_env_from_data(data)


def door_cells(m):
    return {p: c for p, c in m.cells.items() if c[0] == 'Door'}


def part3_bfs(height, width, seeds):
    """Exhaustive reachability, library and model in lock-step.

    The search state is (state, unlocked) where `unlocked` records whether a
    faced ACTUATE with the matching key has happened;  a locked door may only
    be found open when `unlocked` holds."""
    env = keydoor_env(height, width)
    n_states = 0
    for seed in seeds:
        env.set_seed(seed)
        start = env.functional_reset()
        m0 = enc_state(start)
        assert list(door_cells(m0).values()) == [('Door', 'LOCKED', 'YELLOW')]
        (door_pos,) = door_cells(m0)
        seen = {(m0.key(), False)}
        frontier = [(start, m0, False)]
        while frontier:
            state, m, unlocked = frontier.pop()
            n_states += 1
            for action in Action:
                nxt, reward, done = env.functional_step(state, action)
                expected = m.copy()
                expected.apply(KEYDOOR_NAMES, action.name)
                got = enc_state(nxt)
                assert got.key() == expected.key(), (seed, action, m.key())
                # input state is not modified by functional_step
                assert enc_state(state).key() == m.key()

                used_key = (
                    action is Action.ACTUATE
                    and m.front() == door_pos
                    and m.held == ('Key', 'YELLOW')
                )
                nxt_unlocked = unlocked or used_key
                status = got.cells[door_pos][1]
                assert status in ('LOCKED', 'OPEN')
                assert (status == 'OPEN') == nxt_unlocked, (seed, action)
                # reward of actuate_door reward function: +1 iff door opened
                opened = m.cells[door_pos][1] != 'OPEN' and status == 'OPEN'
                reach = got.cells[got.pos][0] == 'Exit'
                want = -0.05 + (1.0 if opened else 0.0) + (5.0 if reach else 0)
                assert abs(reward - want) < 1e-9, (reward, want)
                assert done == reach
                # exactly one key in the world at all times
                n_keys = sum(c[0] == 'Key' for c in got.cells.values())
                n_keys += got.held[0] == 'Key'
                assert n_keys == 1
                COUNT['transitions'] += 1

                k = (got.key(), nxt_unlocked)
                if k not in seen and not done:
                    seen.add(k)
                    frontier.append((nxt, got, nxt_unlocked))
    return n_states


def part3_rollouts(height, width, seeds, steps):
    env = keydoor_env(height, width)
    actions = list(Action)
    for seed in seeds:
        env.set_seed(seed)
        env.reset()
        policy = rnd.default_rng(1000 + seed)
        m = enc_state(env.state)
        (door_pos,) = door_cells(m)
        unlocked = False
        for _ in range(steps):
            action = actions[policy.integers(len(actions))]
            used_key = (
                action is Action.ACTUATE
                and m.front() == door_pos
                and m.held == ('Key', 'YELLOW')
            )
            unlocked = unlocked or used_key
            reward, done = env.step(action)
            m.apply(KEYDOOR_NAMES, action.name)
            got = enc_state(env.state)
            assert got.key() == m.key(), (seed, action)
            assert (got.cells[door_pos][1] == 'OPEN') == unlocked
            COUNT['transitions'] += 1
            if done:
                env.reset()
                m = enc_state(env.state)
                (door_pos,) = door_cells(m)
                unlocked = False


def main():
    part1()
    print('part1 ok', COUNT)
    part2()
    print('part2 ok')
    n = part3_bfs(5, 6, seeds=range(6))
    n += part3_bfs(4, 5, seeds=range(4))
    n += part3_bfs(5, 5, seeds=range(3))
    print('part3 bfs ok, states expanded:', n)
    part3_rollouts(7, 7, seeds=range(10), steps=400)
    part3_rollouts(9, 9, seeds=range(5), steps=400)
    part3_rollouts(6, 11, seeds=range(5), steps=400)
    print('part3 rollouts ok', COUNT)
    assert COUNT['door_opened'] > 0 and COUNT['locked_opened'] > 0
    assert COUNT['boxes'] > 0
    print('ALL OK')


if __name__ == '__main__':
    main()
