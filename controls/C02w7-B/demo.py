"""Check program for commit B (`dynamic_obstacles(..., random_exit=False)`).

Run as:  cd /tmp/wt7-C02 && /venv/bin/python -W ignore _seed/B/demo.py

Works on the clean tree (where `random_exit` does not exist yet:  only the
pre-existing behaviour is checked) and with the commit applied (where the
explicit default, and the new `random_exit=True` behaviour, are checked too).
The reference is an independent re-implementation of the reset function in
terms of raw generator draws, written in this file.
"""
import copy
import hashlib
import inspect
import os
import random
import subprocess
import sys

sys.path.insert(0, os.getcwd())

import numpy as np  # noqa: E402
import numpy.random as rnd  # noqa: E402

import gym_gridverse.rng as gv_rng  # noqa: E402
from gym_gridverse.action import Action  # noqa: E402
from gym_gridverse.debugging import reset_gv_debug  # noqa: E402
from gym_gridverse.envs import reset_functions as rfs  # noqa: E402
from gym_gridverse.envs.yaml.factory import factory_env_from_data  # noqa: E402
from gym_gridverse.geometry import Orientation, Shape  # noqa: E402
from gym_gridverse.grid_object import (  # noqa: E402
    Exit,
    Floor,
    MovingObstacle,
    Wall,
)

HAS_FEATURE = (
    'random_exit' in inspect.signature(rfs.dynamic_obstacles).parameters
)

# --------------------------------------------------------------------------
# reference:  layout as a dict (y, x) -> letter, computed from raw draws


def reference(height, width, num_obstacles, random_agent, random_exit, rng):
    if height < 4 or width < 4:
        raise ValueError('height and width need to be at least 4')

    inside = [(y, x) for y in range(1, height - 1) for x in range(1, width - 1)]

    if random_exit:
        candidates = [yx for yx in inside if random_agent or yx != (1, 1)]
        exit_yx = candidates[rng.choice(len(candidates))]
    else:
        exit_yx = (height - 2, width - 2)

    if random_agent:
        candidates = [yx for yx in inside if yx != exit_yx]
        agent_yx = candidates[rng.choice(len(candidates))]
        orientation = [
            Orientation.FORWARD,
            Orientation.BACKWARD,
            Orientation.LEFT,
            Orientation.RIGHT,
        ][rng.choice(4)]
    else:
        agent_yx = (1, 1)
        orientation = Orientation.RIGHT

    vacant = [yx for yx in inside if yx != exit_yx and yx != agent_yx]
    try:
        indices = rng.choice(len(vacant), size=num_obstacles, replace=False)
    except ValueError:
        raise ValueError(
            f'Too many obstacles ({num_obstacles}) and not enough '
            f'vacant positions ({len(vacant)})'
        )
    obstacles = {vacant[i] for i in indices}
    assert len(obstacles) == num_obstacles

    layout = {}
    for y in range(height):
        for x in range(width):
            if y in (0, height - 1) or x in (0, width - 1):
                layout[y, x] = 'W'
            elif (y, x) == exit_yx:
                layout[y, x] = 'E'
            elif (y, x) in obstacles:
                layout[y, x] = 'O'
            else:
                layout[y, x] = '.'
    return layout, agent_yx, orientation


LETTERS = {Wall: 'W', Exit: 'E', MovingObstacle: 'O', Floor: '.'}


def layout_of(state):
    return (
        {
            (y, x): LETTERS[type(obj)]
            for y, row in enumerate(state.grid.objects)
            for x, obj in enumerate(row)
        },
        state.agent.position.yx,
        state.agent.orientation,
    )


def rng_state(rng):
    state = rng.bit_generator.state
    return (
        state['state']['state'],
        state['state']['inc'],
        state['has_uint32'],
        state['uinteger'],
    )


def outcome(function, *args, **kwargs):
    """result or (exception type, message)"""
    try:
        return 'ok', function(*args, **kwargs)
    except Exception as error:  # pylint: disable=broad-except
        return 'raise', (type(error), str(error))


SHAPES = [
    (4, 4),
    (4, 5),
    (5, 4),
    (4, 9),
    (9, 4),
    (5, 5),
    (6, 9),
    (7, 7),
    (10, 5),
    (3, 6),  # too small
    (6, 3),  # too small
]
SEEDS = [0, 1, 2, 3, 11, 2**31 - 1, 987654321987]

# --------------------------------------------------------------------------
# 1. function level


def check_function():
    n = 0
    digest = hashlib.sha256()
    exit_cells = set()
    for height, width in SHAPES:
        num_inside = max(0, (height - 2) * (width - 2))
        for num_obstacles in sorted(
            {0, 1, 2, num_inside - 3, num_inside - 2, num_inside - 1, num_inside}
        ):
            if num_obstacles < 0:
                continue
            for random_agent in (False, True):
                for seed in SEEDS:
                    shape = Shape(height, width)

                    # pre-existing call styles (`random_exit` not mentioned)
                    calls = [
                        lambda rng: rfs.dynamic_obstacles(
                            shape, num_obstacles, random_agent, rng=rng
                        ),
                        lambda rng: rfs.dynamic_obstacles(
                            shape=shape,
                            num_obstacles=num_obstacles,
                            random_agent=random_agent,
                            rng=rng,
                        ),
                        lambda rng: rfs.factory(
                            'dynamic_obstacles',
                            shape=shape,
                            num_obstacles=num_obstacles,
                            random_agent=random_agent,
                        )(rng=rng),
                    ]
                    if not random_agent:
                        calls.append(
                            lambda rng: rfs.dynamic_obstacles(
                                shape, num_obstacles, rng=rng
                            )
                        )
                    if HAS_FEATURE:
                        calls.append(
                            lambda rng: rfs.dynamic_obstacles(
                                shape,
                                num_obstacles,
                                random_agent,
                                False,
                                rng=rng,
                            )
                        )
                        calls.append(
                            lambda rng: rfs.factory(
                                'dynamic_obstacles',
                                shape=shape,
                                num_obstacles=num_obstacles,
                                random_agent=random_agent,
                                random_exit=False,
                            )(rng=rng)
                        )

                    rng_ref = rnd.default_rng(seed)
                    kind_ref, expected = outcome(
                        reference,
                        height,
                        width,
                        num_obstacles,
                        random_agent,
                        False,
                        rng_ref,
                    )
                    for call in calls:
                        rng = rnd.default_rng(seed)
                        kind, result = outcome(call, rng)
                        assert kind == kind_ref, (height, width, num_obstacles)
                        if kind == 'ok':
                            assert layout_of(result) == expected
                            # exit in the far corner, as always
                            assert isinstance(
                                result.grid[height - 2, width - 2], Exit
                            )
                        else:
                            assert result == expected, (result, expected)
                        assert rng_state(rng) == rng_state(rng_ref)
                    digest.update(repr((kind_ref, expected)).encode())
                    n += 1

                    if not HAS_FEATURE:
                        continue

                    # the new behaviour
                    rng, rng_ref = rnd.default_rng(seed), rnd.default_rng(seed)
                    kind_ref, expected = outcome(
                        reference,
                        height,
                        width,
                        num_obstacles,
                        random_agent,
                        True,
                        rng_ref,
                    )
                    kind, result = outcome(
                        rfs.dynamic_obstacles,
                        shape,
                        num_obstacles,
                        random_agent,
                        random_exit=True,
                        rng=rng,
                    )
                    assert kind == kind_ref
                    if kind == 'ok':
                        layout, agent_yx, _ = layout_of(result)
                        assert layout_of(result) == expected
                        exits = [yx for yx, c in layout.items() if c == 'E']
                        assert len(exits) == 1 and exits[0] != agent_yx
                        assert random_agent or exits[0] != (1, 1)
                        assert layout[agent_yx] == '.'
                        assert (
                            sum(c == 'O' for c in layout.values())
                            == num_obstacles
                        )
                        exit_cells.add((height, width, exits[0]))
                    else:
                        assert result == expected, (result, expected)
                    assert rng_state(rng) == rng_state(rng_ref)
    if HAS_FEATURE:
        # the exit really moves around, including next to borders/corners
        assert len({yx for h, w, yx in exit_cells if (h, w) == (7, 7)}) >= 5
        assert any(yx[0] == 1 for _, _, yx in exit_cells)
        assert any(yx[1] == 1 for _, _, yx in exit_cells)
        assert any(yx[0] == h - 2 for h, _, yx in exit_cells)
        assert any(yx[1] == w - 2 for _, w, yx in exit_cells)
        assert any(yx != (h - 2, w - 2) for h, w, yx in exit_cells)
    return n, digest.hexdigest()


# 2. without a generator the library-level one is used (as before), and each
#    call draws from it


def check_library_rng():
    for kwargs in [{}] + ([{'random_exit': True}] if HAS_FEATURE else []):
        gv_rng.reset_gv_rng(5)
        a = layout_of(rfs.dynamic_obstacles(Shape(6, 7), 4, True, **kwargs))
        after = rng_state(gv_rng.get_gv_rng())
        b = layout_of(
            rfs.dynamic_obstacles(
                Shape(6, 7), 4, True, rng=rnd.default_rng(5), **kwargs
            )
        )
        assert a == b
        # ... and an explicit generator leaves the library-level one alone
        assert rng_state(gv_rng.get_gv_rng()) == after


# 3. environment level

BASE = {
    'state_space': {
        'objects': ['Wall', 'Floor', 'Exit', 'MovingObstacle'],
        'colors': ['NONE'],
    },
    'observation_space': {
        'objects': ['Wall', 'Floor', 'Exit', 'MovingObstacle', 'Hidden'],
        'colors': ['NONE'],
    },
    'transition_functions': [
        {'name': 'move_agent'},
        {'name': 'turn_agent'},
        {'name': 'move_obstacles'},
    ],
    'reward_functions': [
        {'name': 'living_reward', 'reward': -0.05},
        {'name': 'bump_moving_obstacle', 'reward': -1.0},
        {'name': 'reach_exit', 'reward_on': 5.0, 'reward_off': 0.0},
    ],
    'observation_function': {
        'name': 'stochastic_raytracing',
        'area': [[-4, 0], [-2, 2]],
    },
    'terminating_function': {
        'name': 'reduce_any',
        'terminating_functions': [
            {'name': 'reach_exit'},
            {'name': 'bump_moving_obstacle'},
        ],
    },
}

RESETS = {
    'shipped-5x5': {
        'name': 'dynamic_obstacles',
        'shape': [5, 5],
        'num_obstacles': 1,
        'random_agent': False,
    },
    'shipped-7x7': {
        'name': 'dynamic_obstacles',
        'shape': [7, 7],
        'num_obstacles': 4,
        'random_agent': False,
    },
    'random-agent-6x9': {
        'name': 'dynamic_obstacles',
        'shape': [6, 9],
        'num_obstacles': 6,
        'random_agent': True,
    },
    'no-flags-9x5': {
        'name': 'dynamic_obstacles',
        'shape': [9, 5],
        'num_obstacles': 3,
    },
}
if HAS_FEATURE:
    RESETS['random-exit-6x9'] = dict(
        RESETS['random-agent-6x9'], random_exit=True
    )
    RESETS['random-exit-only-5x8'] = {
        'name': 'dynamic_obstacles',
        'shape': [5, 8],
        'num_obstacles': 5,
        'random_exit': True,
    }

MOVES = [
    Action.MOVE_FORWARD,
    Action.MOVE_BACKWARD,
    Action.MOVE_LEFT,
    Action.MOVE_RIGHT,
    Action.TURN_LEFT,
    Action.TURN_RIGHT,
]


def make_env(name):
    data = copy.deepcopy(BASE)
    data['reset_function'] = copy.deepcopy(RESETS[name])
    return factory_env_from_data(data)


def snapshot(env, reward, done):
    layout, agent_yx, orientation = layout_of(env.state)
    return (
        tuple(sorted(layout.items())),
        agent_yx,
        orientation.name,
        tuple(
            tuple(type(obj).__name__ for obj in row)
            for row in env.observation.grid.objects
        ),
        reward,
        done,
    )


def run(env, seed, actions, other=None):
    env.set_seed(seed)
    if other is not None:
        other.set_seed(seed + 7)
        other.reset()
    env.reset()
    trace = [snapshot(env, None, None)]
    for k, action in enumerate(actions):
        if other is not None:
            other.step(MOVES[k % len(MOVES)])
            other.observation
            if k % 5 == 0:
                other.reset()
        reward, done = env.step(action)
        trace.append(snapshot(env, reward, done))
        if done:
            env.reset()
            trace.append(snapshot(env, None, None))
    return trace


def check_environments():
    action_gen = rnd.default_rng(31337)
    digests = {}
    for name, reset_data in RESETS.items():
        digest = hashlib.sha256()
        for seed in (0, 1, 5, 424242):
            actions = [
                MOVES[int(i)] for i in action_gen.integers(0, len(MOVES), 50)
            ]
            env_a, env_b = make_env(name), make_env(name)
            noise = make_env('random-agent-6x9')

            gv_rng.reset_gv_rng(99)
            np.random.seed(3)
            random.seed(3)
            before = (
                rng_state(gv_rng.get_gv_rng()),
                np.random.get_state()[1].tobytes(),
                random.getstate(),
            )

            trace_a = run(env_a, seed, actions)
            trace_b = run(env_b, seed, actions, other=noise)
            assert trace_a == trace_b, (name, seed)
            # re-seeding the very same environment object
            assert run(env_a, seed, actions) == trace_a

            after = (
                rng_state(gv_rng.get_gv_rng()),
                np.random.get_state()[1].tobytes(),
                random.getstate(),
            )
            assert before == after, name

            reset_gv_debug(True)
            trace_c = run(make_env(name), seed, actions)
            reset_gv_debug(False)
            assert trace_a == trace_c, (name, seed)

            # the first state is the reference reset for that seed
            layout, agent_yx, orientation = reference(
                *reset_data['shape'],
                reset_data['num_obstacles'],
                reset_data.get('random_agent', False),
                reset_data.get('random_exit', False),
                rnd.default_rng(seed),
            )
            assert trace_a[0][:3] == (
                tuple(sorted(layout.items())),
                agent_yx,
                orientation.name,
            )
            digest.update(repr(trace_a).encode())
        digests[name] = digest.hexdigest()
    return digests


# recorded on the clean tree (before the commit)
RECORDED = {
    'function': (
        '0c0740f6b7403ef4532814f71a1ceddde509ca59fa716db166da0c51609e725b'
    ),
    'shipped-5x5': (
        '1d71e10aaef0e154baf28463f6cbc0db83c3d7e5e8b2103efb3bfab36cce8eb9'
    ),
    'shipped-7x7': (
        '062e1741c3889cc30664b7a3b0758e4a5e2468c74e89de7ec3119b64718ded9e'
    ),
    'random-agent-6x9': (
        '4055ecdafbf412a3c1657ee8cecb1e3074a293ca4d866021fff29291c77528bb'
    ),
    'no-flags-9x5': (
        '8eab12ca27923c9c5cb10a0546994a55239fde9a8a12ded2622edc556b1cfd35'
    ),
}


def main():
    if len(sys.argv) > 1 and sys.argv[1] == '--digest':
        print(sorted(check_environments().items()))
        return

    n, function_digest = check_function()
    check_library_rng()
    digests = check_environments()

    results = dict(digests, function=function_digest)
    for key, recorded in RECORDED.items():
        assert recorded is None or results[key] == recorded, (key, results[key])

    for hashseed in ('0', '7', '123123'):
        out = subprocess.run(
            [sys.executable, '-W', 'ignore', __file__, '--digest'],
            env=dict(os.environ, PYTHONHASHSEED=hashseed),
            capture_output=True,
            text=True,
            check=True,
        ).stdout.strip()
        assert out == repr(sorted(digests.items())), hashseed

    print(f'OK feature={HAS_FEATURE} function cases={n}')
    for key in sorted(results):
        print(f'  {key}: {results[key]}')


if __name__ == '__main__':
    main()
