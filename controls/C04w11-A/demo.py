"""Demo for change A (Grid.subgrid: hoisted bounds, per-row test).

Run from the worktree root:  /venv/bin/python _seed/A/demo.py

Exits 0 on the pristine tree and with the patch applied.  Checks

1.  Grid.subgrid against a reference implementation (the original nested
    comprehension, embedded below) on exhaustive small and random large inputs:
    non-square grids, areas inside / straddling every side / entirely outside
    the grid, 1x1 areas, negative coordinates;  cell *identity* (in-grid cells
    are the very objects of the source grid, out-of-grid cells are distinct
    fresh Hidden instances), freshness of rows (no aliasing of source rows),
    and that the source grid is left untouched;
2.  property C04 (stateful interface == functional interface, observations
    never stale, memoised once per state, state-before-reset raises, OuterEnv
    exposes exactly the representations) on a zoo of environments, seeds,
    action sequences and read patterns;
3.  hard-coded observation expectations for agents in corners / on borders,
    for all four headings, with symmetric and asymmetric view areas.
"""
import itertools as itt
import os
import random
import sys
import warnings

warnings.filterwarnings('ignore')

# run from the worktree root:  make `gym_gridverse` importable from there
sys.path.insert(0, os.getcwd())

import numpy as np  # noqa: E402

from gym_gridverse.action import Action  # noqa: E402
from gym_gridverse.agent import Agent  # noqa: E402
from gym_gridverse.envs import observation_functions as observation_fs  # noqa: E402
from gym_gridverse.envs import reset_functions as reset_fs  # noqa: E402
from gym_gridverse.envs import reward_functions as reward_fs  # noqa: E402
from gym_gridverse.envs import terminating_functions as terminating_fs  # noqa: E402
from gym_gridverse.envs import transition_functions as transition_fs  # noqa: E402
from gym_gridverse.envs.gridworld import GridWorld  # noqa: E402
from gym_gridverse.geometry import Area, Orientation, Position, Shape  # noqa: E402
from gym_gridverse.grid import Grid  # noqa: E402
from gym_gridverse.grid_object import (  # noqa: E402
    Beacon,
    Color,
    Door,
    Exit,
    Floor,
    Hidden,
    Key,
    MovingObstacle,
    NoneGridObject,
    Telepod,
    Wall,
)
from gym_gridverse.outer_env import OuterEnv  # noqa: E402
from gym_gridverse.representations.observation_representations import (  # noqa: E402
    make_observation_representation,
)
from gym_gridverse.representations.state_representations import (  # noqa: E402
    make_state_representation,
)
from gym_gridverse.spaces import (  # noqa: E402
    ActionSpace,
    ObservationSpace,
    StateSpace,
)
from gym_gridverse.state import State  # noqa: E402

CHECKS = 0


def check(condition, message):
    global CHECKS
    CHECKS += 1
    if not condition:
        print(f'FAIL: {message}')
        sys.exit(1)


# ---------------------------------------------------------------------------
# canonical encodings (independent of __eq__/__repr__ of the library)
# ---------------------------------------------------------------------------


def enc_object(obj):
    return (type(obj).__name__, obj.state_index, obj.color.name)


def enc_grid(grid):
    return (
        grid.shape.height,
        grid.shape.width,
        tuple(tuple(enc_object(obj) for obj in row) for row in grid.objects),
    )


def enc_agent(agent):
    return (
        agent.position.y,
        agent.position.x,
        agent.orientation.name,
        enc_object(agent.grid_object),
    )


def enc(state_or_observation):
    return (enc_grid(state_or_observation.grid), enc_agent(state_or_observation.agent))


# ---------------------------------------------------------------------------
# 1. Grid.subgrid vs. reference
# ---------------------------------------------------------------------------


def reference_subgrid(grid, area):
    """the original implementation, verbatim"""
    return Grid(
        [
            [
                grid.objects[y][x]
                if 0 <= y < grid.area.height and 0 <= x < grid.area.width
                else Hidden()
                for x in area.x_coordinates()
            ]
            for y in area.y_coordinates()
        ]
    )


def random_object(rng):
    kind = rng.randrange(7)
    if kind == 0:
        return Floor()
    if kind == 1:
        return Wall()
    if kind == 2:
        return Exit()
    if kind == 3:
        return Door(rng.choice(list(Door.Status)), rng.choice(list(Color)))
    if kind == 4:
        return Key(rng.choice(list(Color)))
    if kind == 5:
        return MovingObstacle()
    return Beacon(rng.choice(list(Color)))


def random_grid(rng, height, width):
    return Grid(
        [[random_object(rng) for _ in range(width)] for _ in range(height)]
    )


def check_subgrid_case(grid, area):
    before_rows = list(grid.objects)
    before_cells = [list(row) for row in grid.objects]

    expected = reference_subgrid(grid, area)
    actual = grid.subgrid(area)

    check(isinstance(actual, Grid), 'subgrid returns a Grid')
    check(
        actual.shape == Shape(area.height, area.width),
        f'subgrid shape {actual.shape} for {area}',
    )
    check(actual.shape == expected.shape, 'subgrid shape == reference shape')
    check(actual.area == expected.area, 'subgrid area == reference area')
    check(enc_grid(actual) == enc_grid(expected), f'subgrid cells {area}')
    check(actual == expected, 'subgrid == reference (library equality)')

    hidden_ids = set()
    for i, y in enumerate(range(area.ymin, area.ymax + 1)):
        for j, x in enumerate(range(area.xmin, area.xmax + 1)):
            cell = actual.objects[i][j]
            inside = 0 <= y < grid.shape.height and 0 <= x < grid.shape.width
            if inside:
                check(
                    cell is grid.objects[y][x],
                    'in-grid cell is the very object of the source grid',
                )
                check(cell is expected.objects[i][j], 'same identity as ref')
            else:
                check(type(cell) is Hidden, 'out-of-grid cell is Hidden')
                check(id(cell) not in hidden_ids, 'Hidden cells are distinct')
                hidden_ids.add(id(cell))

    # rows are fresh lists:  no aliasing with source rows, nor between rows
    source_row_ids = {id(row) for row in grid.objects}
    row_ids = [id(row) for row in actual.objects]
    check(len(set(row_ids)) == len(row_ids), 'subgrid rows are distinct lists')
    check(
        not (set(row_ids) & source_row_ids),
        'subgrid rows do not alias source rows',
    )
    check(actual.objects is not grid.objects, 'outer list is fresh')
    check(all(type(row) is list for row in actual.objects), 'rows are lists')

    # overwriting the subgrid (as from_visibility does) leaves the source alone
    for position in actual.area.positions():
        actual[position] = Hidden()
    check(
        all(a is b for a, b in zip(grid.objects, before_rows)),
        'source rows untouched',
    )
    check(
        all(
            c is d
            for row, before_row in zip(grid.objects, before_cells)
            for c, d in zip(row, before_row)
        )
        and all(
            len(row) == len(before_row)
            for row, before_row in zip(grid.objects, before_cells)
        ),
        'source cells untouched',
    )


def check_subgrid():
    rng = random.Random(1234)

    # exhaustive on small grids (including 1x1, 1xN, Nx1, non-square)
    for height, width in [(1, 1), (1, 3), (3, 1), (2, 3), (3, 2), (3, 3)]:
        grid = random_grid(rng, height, width)
        coordinates = range(-3, 6)
        for ymin, ymax in itt.combinations_with_replacement(coordinates, 2):
            for xmin, xmax in itt.combinations_with_replacement(coordinates, 2):
                check_subgrid_case(grid, Area((ymin, ymax), (xmin, xmax)))

    # random larger cases
    for _ in range(300):
        height, width = rng.randint(1, 9), rng.randint(1, 13)
        grid = random_grid(rng, height, width)
        ymin = rng.randint(-12, 12)
        xmin = rng.randint(-15, 15)
        area = Area(
            (ymin, ymin + rng.randint(0, 14)), (xmin, xmin + rng.randint(0, 17))
        )
        check_subgrid_case(grid, area)

    # the area of the grid itself is a shallow copy
    grid = random_grid(rng, 4, 7)
    copy = grid.subgrid(grid.area)
    check(copy == grid and copy is not grid, 'subgrid(grid.area) copies')
    check(
        all(
            a is b
            for row_a, row_b in zip(copy.objects, grid.objects)
            for a, b in zip(row_a, row_b)
        ),
        'shallow copy shares cells',
    )

    # repeated calls are independent
    area = Area((-1, 2), (5, 8))
    first, second = grid.subgrid(area), grid.subgrid(area)
    check(first == second and first is not second, 'repeated subgrid calls')
    first[0, 0] = Wall()
    check(type(second[0, 0]) is Hidden, 'repeated subgrid calls independent')


# ---------------------------------------------------------------------------
# 3. hard-coded observation expectations
# ---------------------------------------------------------------------------

_CHARS = {
    'Floor': '.',
    'Wall': '#',
    'Exit': 'E',
    'Hidden': '?',
    'Key': 'k',
    'Door': 'D',
}


def draw(grid):
    return [
        ''.join(_CHARS[type(obj).__name__] for obj in row)
        for row in grid.objects
    ]


def make_marked_grid():
    """3x4 (non-square) grid with distinguishable cells

    #.E.
    .k..
    D..#
    """
    grid = Grid.from_shape((3, 4))
    grid[0, 0] = Wall()
    grid[0, 2] = Exit()
    grid[1, 1] = Key(Color.RED)
    grid[2, 0] = Door(Door.Status.OPEN, Color.BLUE)
    grid[2, 3] = Wall()
    return grid


def check_hardcoded_observations():
    symmetric = Area((-2, 0), (-1, 1))
    asymmetric = Area((-1, 1), (0, 2))

    F, R, B, L = Orientation.F, Orientation.R, Orientation.B, Orientation.L
    expectations = [
        # agent in the top-left corner, all four headings
        (Position(0, 0), F, symmetric, ['???', '???', '?#.']),
        (Position(0, 0), R, symmetric, ['?E.', '?.k', '?#.']),
        (Position(0, 0), B, symmetric, ['.D?', 'k.?', '.#?']),
        (Position(0, 0), L, symmetric, ['???', '???', '.#?']),
        # agent in the bottom-right corner
        (Position(2, 3), F, symmetric, ['E.?', '..?', '.#?']),
        (Position(2, 3), R, symmetric, ['???', '???', '.#?']),
        (Position(2, 3), B, symmetric, ['???', '???', '?#.']),
        (Position(2, 3), L, symmetric, ['?.k', '?..', '?#.']),
        # agent on the bottom border
        (Position(2, 1), F, symmetric, ['#.E', '.k.', 'D..']),
        (Position(2, 1), R, symmetric, ['.#?', '..?', 'k.?']),
        (Position(2, 1), B, symmetric, ['???', '???', '..D']),
        (Position(2, 1), L, symmetric, ['???', '?D.', '?.k']),
        # asymmetric area (agent at the middle-left of its view)
        (Position(1, 1), F, asymmetric, ['.E.', 'k..', '..#']),
        (Position(1, 1), R, asymmetric, ['..?', 'k.?', '.D?']),
        (Position(1, 1), B, asymmetric, ['.D?', 'k.?', '.#?']),
        (Position(1, 1), L, asymmetric, ['.#?', 'k.?', '.E?']),
        # asymmetric area, agent in the top-right corner
        (Position(0, 3), F, asymmetric, ['???', '.??', '.??']),
        (Position(0, 3), R, asymmetric, ['???', '..#', 'E..']),
        (Position(0, 3), B, asymmetric, ['..k', '.E.', '???']),
        (Position(0, 3), L, asymmetric, ['E??', '.??', '???']),
        # asymmetric area, agent in the bottom-left corner
        (Position(2, 0), F, asymmetric, ['.k.', 'D..', '???']),
        (Position(2, 0), R, asymmetric, ['.??', 'D??', '???']),
        (Position(2, 0), B, asymmetric, ['???', 'D??', '.??']),
        (Position(2, 0), L, asymmetric, ['???', 'D.#', '.k.']),
    ]

    for position, orientation, area, expected in expectations:
        grid = make_marked_grid()
        held = Key(Color.GREEN)
        state = State(grid, Agent(position, orientation, held))
        snapshot = enc(state)
        observation = observation_fs.fully_transparent(state, area=area)
        check(
            draw(observation.grid) == expected,
            f'observation at {position} {orientation} {area}: '
            f'{draw(observation.grid)} != {expected}',
        )
        check(
            observation.agent.position == Position(-area.ymin, -area.xmin),
            'pov agent position',
        )
        check(observation.agent.orientation is Orientation.F, 'pov heading')
        check(observation.agent.grid_object is held, 'pov held item')
        check(enc(state) == snapshot, 'observation leaves the state alone')


# ---------------------------------------------------------------------------
# 2. property C04
# ---------------------------------------------------------------------------


def make_env(
    reset_function,
    transition_names,
    observation_name,
    area,
    object_types,
    colors,
    *,
    actions=None,
    terminating=None,
):
    transition_function = transition_fs.factory(
        'chain',
        transition_functions=[
            transition_fs.factory(name) for name in transition_names
        ],
    )
    reward_function = reward_fs.factory(
        'reduce_sum',
        reward_functions=[
            reward_fs.factory('reach_exit', reward_on=5.0, reward_off=0.0),
            reward_fs.factory('bump_into_wall', reward=-1.0),
            reward_fs.factory('living_reward', reward=-0.05),
        ],
    )
    terminating_function = (
        terminating_fs.factory('reach_exit')
        if terminating is None
        else terminating
    )
    observation_function = observation_fs.factory(observation_name, area=area)

    state = reset_function()
    state_space = StateSpace(state.grid.shape, object_types, colors)
    observation = observation_function(state)
    observation_space = ObservationSpace(
        observation.grid.shape, object_types, colors
    )
    action_space = ActionSpace(list(Action) if actions is None else actions)

    env = GridWorld(
        state_space,
        action_space,
        observation_space,
        reset_function,
        transition_function,
        observation_function,
        reward_function,
        terminating_function,
    )
    env.demo_area = area  # the view area, in the agent's frame
    return env


STANDARD = Area((-6, 0), (-3, 3))
SMALL = Area((-2, 0), (-1, 1))
WIDE = Area((-1, 0), (-4, 4))
TALL = Area((-8, 0), (0, 0))
ASYMMETRIC = Area((-3, 1), (-1, 3))
BEHIND = Area((0, 2), (-2, 0))

MOVES = [
    Action.MOVE_FORWARD,
    Action.MOVE_BACKWARD,
    Action.MOVE_LEFT,
    Action.MOVE_RIGHT,
    Action.TURN_LEFT,
    Action.TURN_RIGHT,
]


def env_makers():
    """name -> zero-argument constructor (so that several instances can be made)"""
    basic = [Wall, Floor, Exit]

    def empty(shape, random_agent, random_exit, observation_name, area):
        return lambda: make_env(
            reset_fs.factory(
                'empty',
                shape=Shape(*shape),
                random_agent=random_agent,
                random_exit=random_exit,
            ),
            ['move_agent', 'turn_agent'],
            observation_name,
            area,
            basic,
            [Color.NONE],
        )

    makers = {
        'empty-4x4-fixed': empty((4, 4), False, False, 'partially_occluded', STANDARD),
        'empty-4x9-random': empty((4, 9), True, True, 'partially_occluded', SMALL),
        'empty-9x4-random-wide': empty((9, 4), True, True, 'partially_occluded', WIDE),
        'empty-5x8-tall': empty((5, 8), True, False, 'fully_transparent', TALL),
        'empty-5x6-asymmetric': empty((5, 6), True, True, 'raytracing', ASYMMETRIC),
        'empty-6x5-behind': empty((6, 5), True, True, 'fully_transparent', BEHIND),
        'empty-7x5-stochastic': empty((7, 5), True, True, 'stochastic_raytracing', STANDARD),
        'empty-5x7-stochastic-asymmetric': empty(
            (5, 7), True, True, 'stochastic_raytracing', ASYMMETRIC
        ),
        'keydoor-7x7': lambda: make_env(
            reset_fs.factory('keydoor', shape=Shape(7, 7)),
            ['move_agent', 'turn_agent', 'actuate_door', 'pickndrop'],
            'partially_occluded',
            STANDARD,
            [Wall, Floor, Exit, Door, Key],
            [Color.NONE, Color.YELLOW],
        ),
        'keydoor-6x9-stochastic': lambda: make_env(
            reset_fs.factory('keydoor', shape=Shape(6, 9)),
            ['move_agent', 'turn_agent', 'actuate_door', 'pickndrop'],
            'stochastic_raytracing',
            SMALL,
            [Wall, Floor, Exit, Door, Key],
            [Color.NONE, Color.YELLOW],
        ),
        'dynamic-obstacles-7x6': lambda: make_env(
            reset_fs.factory(
                'dynamic_obstacles',
                shape=Shape(7, 6),
                num_obstacles=3,
                random_agent=True,
            ),
            ['move_agent', 'turn_agent', 'move_obstacles'],
            'stochastic_raytracing',
            STANDARD,
            [Wall, Floor, Exit, MovingObstacle],
            [Color.NONE],
            actions=MOVES,
            terminating=terminating_fs.factory(
                'reduce_any',
                terminating_functions=[
                    terminating_fs.factory('reach_exit'),
                    terminating_fs.factory('bump_moving_obstacle'),
                ],
            ),
        ),
        'crossing-7x9': lambda: make_env(
            reset_fs.factory(
                'crossing', shape=Shape(7, 9), num_rivers=2, object_type=Wall
            ),
            ['move_agent', 'turn_agent'],
            'raytracing',
            STANDARD,
            basic,
            [Color.NONE],
            actions=MOVES,
        ),
        'teleport-6x8': lambda: make_env(
            reset_fs.factory('teleport', shape=Shape(6, 8)),
            ['move_agent', 'turn_agent', 'teleport'],
            'partially_occluded',
            STANDARD,
            [Wall, Floor, Exit, Telepod],
            list(Color),
        ),
        'memory-5x9': lambda: make_env(
            reset_fs.factory(
                'memory', shape=Shape(5, 9), colors={Color.RED, Color.BLUE}
            ),
            ['move_agent', 'turn_agent'],
            'partially_occluded',
            SMALL,
            [Wall, Floor, Exit, Beacon],
            [Color.NONE, Color.RED, Color.BLUE],
        ),
        'four-rooms-9x11': lambda: make_env(
            reset_fs.factory('rooms', shape=Shape(9, 11), layout=(2, 2)),
            ['move_agent', 'turn_agent'],
            'stochastic_raytracing',
            ASYMMETRIC,
            basic,
            [Color.NONE],
        ),
    }
    return makers


def rng_state(env):
    return env._rng.bit_generator.state  # pylint: disable=protected-access


def same_rng_state(a, b):
    return repr(a) == repr(b)


def run_stateful(env, seed, script):
    """drives the stateful interface;  returns the list of recorded events

    script:  list of ('reset',) / ('step', action) / ('obs', n) / ('state', n)
    """
    events = []
    env.set_seed(seed)
    for item in script:
        if item[0] == 'reset':
            env.reset()
            events.append(('reset',))
        elif item[0] == 'step':
            reward, done = env.step(item[1])
            events.append(('step', reward, done))
        elif item[0] == 'state':
            reads = [env.state for _ in range(item[1])]
            check(all(s is reads[0] for s in reads), 'state reads are stable')
            events.append(('state', enc(reads[0])))
        elif item[0] == 'obs':
            first = env.observation
            after_first = rng_state(env)
            reads = [env.observation for _ in range(item[1] - 1)]
            check(
                all(o is first for o in reads),
                'repeated observation reads return the same observation',
            )
            check(
                same_rng_state(after_first, rng_state(env)),
                'repeated observation reads do not consume randomness',
            )
            events.append(('obs', enc(first)))
    return events


def run_functional(env, seed, script):
    """threads states through the functional interface, mirroring the script"""
    events = []
    env.set_seed(seed)
    state = None
    observed = False
    for item in script:
        if item[0] == 'reset':
            state = env.functional_reset()
            observed = None
            events.append(('reset',))
        elif item[0] == 'step':
            snapshot = enc(state)
            next_state, reward, done = env.functional_step(state, item[1])
            check(enc(state) == snapshot, 'functional_step leaves input alone')
            check(next_state is not state, 'functional_step returns new state')
            check(
                next_state.grid is not state.grid
                and not (
                    {id(row) for row in next_state.grid.objects}
                    & {id(row) for row in state.grid.objects}
                ),
                'next state does not alias the previous grid',
            )
            state = next_state
            observed = None
            events.append(('step', reward, done))
        elif item[0] == 'state':
            events.append(('state', enc(state)))
        elif item[0] == 'obs':
            # at most one observation is generated per state
            if observed is None:
                snapshot = enc(state)
                rows = [id(row) for row in state.grid.objects]
                observed = env.functional_observation(state)
                check(
                    enc(state) == snapshot
                    and rows == [id(row) for row in state.grid.objects],
                    'functional_observation leaves the state alone',
                )
                check(
                    not (
                        {id(row) for row in observed.grid.objects} & set(rows)
                    ),
                    'observation rows do not alias state rows',
                )
            events.append(('obs', enc(observed)))
    return events


def random_script(rng, env, length, *, reads):
    """reads: 'none', 'every', 'random'"""
    actions = list(env.action_space.actions)
    script = [('reset',)]

    def add_reads():
        if reads == 'none':
            return
        if reads == 'every':
            script.append(('obs', 1))
            return
        for _ in range(rng.randrange(3)):
            kind = rng.choice(['obs', 'obs', 'state'])
            script.append((kind, rng.randint(1, 4)))

    add_reads()
    for _ in range(length):
        if rng.random() < 0.08:
            script.append(('reset',))
            if rng.random() < 0.3:
                # reset twice in a row, possibly without reading anything
                script.append(('reset',))
        else:
            script.append(('step', rng.choice(actions)))
        add_reads()
    # always finish by reading everything, so unread episodes are compared too
    script.append(('state', 2))
    script.append(('obs', 3))
    return script


def check_before_reset(make):
    env = make()
    for _ in range(2):
        try:
            env.state
        except RuntimeError:
            pass
        else:
            check(False, 'state before the first reset must raise')
        try:
            env.observation
        except RuntimeError:
            pass
        else:
            check(False, 'observation before the first reset must raise')
    env.set_seed(3)
    try:
        env.state
    except RuntimeError:
        pass
    else:
        check(False, 'state after seeding but before reset must raise')
    try:
        env.step(env.action_space.actions[0])
    except RuntimeError:
        pass
    else:
        check(False, 'step before the first reset must raise')
    check(True, 'before-reset discipline')


def check_outer(make, seed, script):
    inner = make()
    can_state = inner.state_space.can_be_represented
    for name in ['default', 'no-overlap', 'compact']:
        inner = make()
        state_representation = (
            make_state_representation(name, inner.state_space)
            if can_state
            else None
        )
        observation_representation = make_observation_representation(
            name, inner.observation_space
        )
        outer = OuterEnv(
            inner,
            state_representation=state_representation,
            observation_representation=observation_representation,
        )
        check(outer.action_space is inner.action_space, 'outer action space')

        inner.set_seed(seed)
        for item in script:
            if item[0] == 'reset':
                outer.reset()
            elif item[0] == 'step':
                outer.step(item[1])
            else:
                for _ in range(item[1]):
                    got = outer.observation
                    expected = observation_representation.convert(
                        inner.observation
                    )
                    check(
                        got.keys() == expected.keys()
                        and all(
                            got[k].dtype == expected[k].dtype
                            and np.array_equal(got[k], expected[k])
                            for k in got
                        ),
                        f'outer observation ({name})',
                    )
                    if state_representation is not None:
                        got = outer.state
                        expected = state_representation.convert(inner.state)
                        check(
                            got.keys() == expected.keys()
                            and all(
                                got[k].dtype == expected[k].dtype
                                and np.array_equal(got[k], expected[k])
                                for k in got
                            ),
                            f'outer state ({name})',
                        )

    # missing representations raise
    outer = OuterEnv(make())
    outer.inner_env.set_seed(0)
    outer.reset()
    for attribute in ['state', 'observation']:
        try:
            getattr(outer, attribute)
        except RuntimeError:
            pass
        else:
            check(False, f'outer {attribute} without representation raises')


def check_property():
    rng = random.Random(99)
    makers = env_makers()

    for name, make in makers.items():
        check_before_reset(make)

        stateful, functional, other = make(), make(), make()

        for seed in [0, 1, 7, 2**31 + 11]:
            for reads in ['none', 'every', 'random', 'random']:
                script = random_script(rng, stateful, 25, reads=reads)

                # same instances are re-used across seeds (re-seeding)
                events_stateful = run_stateful(stateful, seed, script)
                events_functional = run_functional(functional, seed, script)
                check(
                    events_stateful == events_functional,
                    f'{name}: stateful != functional (seed {seed}, {reads})',
                )

                # a third environment, used both ways, interleaved with the
                # others in the same process
                check(
                    run_functional(other, seed, script) == events_functional
                    and run_stateful(other, seed, script) == events_stateful,
                    f'{name}: several environments in one process',
                )

                # re-seeding the same instance replays the same trajectory
                check(
                    run_stateful(stateful, seed, script) == events_stateful,
                    f'{name}: re-seeding replays',
                )

        # observation is recomputed after every reset and step (not stale)
        env = make()
        env.set_seed(5)
        env.reset()
        for _ in range(30):
            previous = env.observation
            action = rng.choice(list(env.action_space.actions))
            if rng.random() < 0.1:
                env.reset()
            else:
                env.step(action)
            current = env.observation
            check(current is not previous, 'observation is regenerated')
            check(
                enc_agent(current.agent)[3] == enc_agent(env.state.agent)[3],
                'observation item is the item of the current state',
            )
            # the visible part of the observation agrees with the state
            area = env.state.agent.transform * env.demo_area
            reference = (
                reference_subgrid(env.state.grid, area)
                * env.state.agent.orientation
            )
            check(
                reference.shape == current.grid.shape,
                'observation shape agrees with the view area',
            )
            check(
                all(
                    type(current.grid[p]) is Hidden
                    or current.grid[p] is reference[p]
                    for p in current.grid.area.positions()
                ),
                'visible cells are the cells of the current state',
            )

        check_outer(make, 3, random_script(rng, stateful, 12, reads='random'))


def main():
    check_subgrid()
    check_hardcoded_observations()
    check_property()
    print(f'OK ({CHECKS} checks)')


if __name__ == '__main__':
    main()
