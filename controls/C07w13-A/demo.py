"""Demo for change A (from_visibility hides cells through the index list of
the invisible cells).

Exits 0 on the pristine tree and with the patch applied.  Checks

1. every built-in deterministic observation function against a reference
   implementation embedded here (cell by cell, straight from the definition of
   an egocentric view), on non-square grids, every agent position (corners and
   borders included), all four headings and a set of symmetric and asymmetric
   view areas (some not containing the agent, some larger than the grid);
2. the property C07 itself: rotating the world by any quarter turn leaves the
   observation unchanged;
3. `from_visibility` with awkward visibility functions (nothing visible,
   everything visible, integer / float / object dtypes, wrong shape), that the
   state grid is never mutated, that hidden cells are fresh distinct objects,
   and that repeated calls give equal results.
"""
import os
import sys

sys.path.insert(0, os.getcwd())

import numpy as np

from gym_gridverse.agent import Agent
from gym_gridverse.envs import observation_functions as of
from gym_gridverse.envs.visibility_functions import visibility_function_registry
from gym_gridverse.geometry import Area, Orientation, Position
from gym_gridverse.grid import Grid
from gym_gridverse.grid_object import (
    Beacon,
    Box,
    Color,
    Door,
    Exit,
    Floor,
    Hidden,
    Key,
    MovingObstacle,
    Telepod,
    Wall,
)
from gym_gridverse.state import State

ORIENTATIONS = [Orientation.F, Orientation.R, Orientation.B, Orientation.L]

# heading as a (dy, dx) vector, y grows downward
FORWARD_VECTOR = {
    Orientation.F: (-1, 0),
    Orientation.R: (0, 1),
    Orientation.B: (1, 0),
    Orientation.L: (0, -1),
}
ORIENTATION_OF_VECTOR = {v: k for k, v in FORWARD_VECTOR.items()}


def pov_to_world(agent_yx, orientation, pov_yx):
    """world cell seen at egocentric offset (dy, dx): dy<0 is ahead, dx>0 is to the right"""
    fy, fx = FORWARD_VECTOR[orientation]
    # right-hand vector is the forward vector rotated clockwise
    ry, rx = fx, -fy
    dy, dx = pov_yx
    ay, ax = agent_yx
    return (ay + (-dy) * fy + dx * ry, ax + (-dy) * fx + dx * rx)


OBJECT_MAKERS = [
    Floor,
    Floor,
    Floor,
    Wall,
    Wall,
    lambda: Exit(),
    lambda: Exit(Color.NONE),
    lambda: Door(Door.Status.OPEN, Color.RED),
    lambda: Door(Door.Status.CLOSED, Color.NONE),
    lambda: Door(Door.Status.LOCKED, Color.BLUE),
    lambda: Key(Color.YELLOW),
    lambda: Key(Color.NONE),
    MovingObstacle,
    lambda: Box(Key(Color.GREEN)),
    lambda: Telepod(Color.NONE),
    lambda: Beacon(Color.RED),
]


def random_objects(rng, height, width):
    return [
        [OBJECT_MAKERS[rng.integers(len(OBJECT_MAKERS))]() for _ in range(width)]
        for _ in range(height)
    ]


def reference_view(objects, agent_yx, orientation, area):
    """egocentric view before occlusion, cell by cell"""
    height, width = len(objects), len(objects[0])
    rows = []
    for dy in range(area.ymin, area.ymax + 1):
        row = []
        for dx in range(area.xmin, area.xmax + 1):
            y, x = pov_to_world(agent_yx, orientation, (dy, dx))
            row.append(
                objects[y][x] if 0 <= y < height and 0 <= x < width else Hidden()
            )
        rows.append(row)
    return rows


def reference_observation(objects, agent_yx, orientation, held, area, vis_name):
    rows = reference_view(objects, agent_yx, orientation, area)
    pov_position = Position(-area.ymin, -area.xmin)
    visibility = visibility_function_registry[vis_name](Grid(rows), pov_position)
    rows = [
        [obj if visibility[y][x] else Hidden() for x, obj in enumerate(row)]
        for y, row in enumerate(rows)
    ]
    return rows, pov_position, held


def check_against_reference(observation, reference):
    rows, pov_position, held = reference
    assert observation.grid.shape.as_tuple == (len(rows), len(rows[0]))
    assert observation.grid.objects == rows, (observation.grid.objects, rows)
    assert observation.grid == Grid(rows)
    assert observation.agent.position == pov_position
    assert observation.agent.orientation is Orientation.F
    assert observation.agent.grid_object == held
    assert observation.agent == Agent(pov_position, Orientation.F, held)


def rotate_world(objects, agent_yx, orientation, turns):
    """rotates the world counter-clockwise by `turns` quarter turns (own implementation)"""
    ay, ax = agent_yx
    fy, fx = FORWARD_VECTOR[orientation]
    for _ in range(turns):
        height, width = len(objects), len(objects[0])
        # cell (y, x) -> (width - 1 - x, y)
        new = [[None] * height for _ in range(width)]
        for y in range(height):
            for x in range(width):
                new[width - 1 - x][y] = objects[y][x]
        objects = new
        ay, ax = width - 1 - ax, ay
        fy, fx = -fx, fy
    return objects, (ay, ax), ORIENTATION_OF_VECTOR[(fy, fx)]


AREAS = [
    Area((0, 0), (0, 0)),
    Area((-2, 0), (-1, 1)),
    Area((-3, 0), (-1, 2)),  # asymmetric left/right
    Area((-1, 0), (-3, 0)),
    Area((-6, 0), (-3, 3)),  # larger than most grids
    Area((-2, 1), (-1, 1)),  # agent not on the bottom row
    Area((-1, 2), (0, 3)),
    Area((-3, -1), (1, 2)),  # does not contain the agent
    Area((1, 1), (-2, -2)),  # single cell behind-left, agent outside
    Area((-4, 4), (-4, 4)),
]

FUNCTIONS = {
    'fully_transparent': of.fully_transparent,
    'partially_occluded': of.partially_occluded,
    'raytracing': of.raytracing,
}


def applicable(name, area):
    if name == 'partially_occluded':
        # the visibility function only supports the agent on the bottom row
        return area.ymax == 0 and area.contains(Position(0, 0))
    if name == 'raytracing':
        return area.contains(Position(0, 0))
    return True


def main():
    rng = np.random.default_rng(20260927)
    shapes = [(1, 1), (1, 4), (5, 1), (2, 3), (4, 3), (3, 6)]
    helds = [None, Key(Color.NONE), Box(Floor())]
    n_reference = n_rotation = 0

    for height, width in shapes:
        for sample in range(2):
            objects = random_objects(rng, height, width)
            snapshot = [list(row) for row in objects]
            positions = [(y, x) for y in range(height) for x in range(width)]
            if height * width > 8:
                # all corners, some border and inside cells
                keep = {(0, 0), (0, width - 1), (height - 1, 0), (height - 1, width - 1)}
                keep |= {positions[i] for i in rng.choice(len(positions), 4, replace=False)}
                positions = sorted(keep)
            for agent_yx in positions:
                for orientation in ORIENTATIONS:
                    held = helds[rng.integers(len(helds))]
                    for area in AREAS:
                        for name, function in FUNCTIONS.items():
                            if not applicable(name, area):
                                continue
                            if name == 'raytracing' and area.height * area.width > 30:
                                continue  # keep the demo fast
                            state = State(
                                Grid(objects),
                                Agent(Position(*agent_yx), orientation, held),
                            )
                            observation = function(state, area=area)
                            reference = reference_observation(
                                objects,
                                agent_yx,
                                orientation,
                                state.agent.grid_object,
                                area,
                                name,
                            )
                            check_against_reference(observation, reference)
                            n_reference += 1

                            # repeated call: equal, but not the same containers
                            again = function(state, area=area)
                            assert again.grid == observation.grid
                            assert again.agent == observation.agent
                            assert again.grid.objects is not observation.grid.objects

                            # the state is never mutated
                            assert all(
                                a is b
                                for row_a, row_b in zip(state.grid.objects, snapshot)
                                for a, b in zip(row_a, row_b)
                            )

                            # C07: every quarter turn of the world
                            for turns in range(1, 4):
                                r_objects, r_yx, r_orientation = rotate_world(
                                    objects, agent_yx, orientation, turns
                                )
                                r_state = State(
                                    Grid(r_objects),
                                    Agent(Position(*r_yx), r_orientation, held),
                                )
                                r_observation = function(r_state, area=area)
                                assert r_observation.grid == observation.grid, (
                                    name, area, agent_yx, orientation, turns,
                                )
                                assert r_observation.agent == observation.agent
                                assert hash(r_observation.grid) == hash(observation.grid)
                                n_rotation += 1

    # the library's own world rotation agrees with the one used above
    objects = random_objects(rng, 3, 5)
    for q, turns in [(Orientation.R, 1), (Orientation.B, 2), (Orientation.L, 3)]:
        r_objects, _, _ = rotate_world(objects, (0, 0), Orientation.F, turns)
        assert (Grid(objects) * q).objects == r_objects

    # awkward visibility functions through from_visibility
    objects = random_objects(rng, 4, 3)
    state = State(Grid(objects), Agent(Position(3, 0), Orientation.R, Key(Color.NONE)))
    area = Area((-2, 1), (-1, 2))
    shape = (area.height, area.width)
    view = reference_view(objects, (3, 0), Orientation.R, area)

    pattern = np.array(
        [[1, 0, 2, 0], [0, 0, -1, 3], [5, 1, 0, 0], [0, 7, 0, 1]], dtype=int
    )
    visibilities = {
        'nothing': np.zeros(shape, dtype=bool),
        'everything': np.ones(shape, dtype=bool),
        'int': pattern,
        'float': pattern.astype(float) / 2,
        'uint8': (pattern != 0).astype(np.uint8),
        'object': (pattern != 0).astype(object),
        'checker': (np.indices(shape).sum(axis=0) % 2).astype(bool),
        'fortran': np.asfortranarray(pattern != 0),
        'view': np.repeat(np.repeat(pattern != 0, 2, axis=0), 2, axis=1)[::2, ::2],
    }
    for label, visibility in visibilities.items():
        before = visibility.copy()
        observation = of.from_visibility(
            state,
            area=area,
            visibility_function=lambda grid, position, *, rng=None, v=visibility: v,
        )
        expected = [
            [obj if visibility[y, x] else Hidden() for x, obj in enumerate(row)]
            for y, row in enumerate(view)
        ]
        assert observation.grid.objects == expected, label
        assert observation.agent == Agent(Position(2, 1), Orientation.F, Key(Color.NONE))
        # visible cells are the state's own objects, hidden ones are fresh and distinct
        hidden = []
        for y in range(area.height):
            for x in range(area.width):
                obj = observation.grid[y, x]
                if visibility[y, x]:
                    assert obj is view[y][x] or isinstance(view[y][x], Hidden)
                else:
                    assert type(obj) is Hidden
                    hidden.append(obj)
        assert len({id(obj) for obj in hidden}) == len(hidden), label
        # the visibility array is left alone
        assert (visibility == before).all() and visibility.dtype == before.dtype
        # the state is not mutated
        assert all(
            a is b
            for row_a, row_b in zip(state.grid.objects, objects)
            for a, b in zip(row_a, row_b)
        )

    # wrong visibility shapes are rejected with the documented exception
    for wrong in [(3, 4), (4, 3, 1), (16,), (4, 5)]:
        try:
            of.from_visibility(
                state,
                area=area,
                visibility_function=lambda grid, position, *, rng=None: np.ones(
                    wrong, dtype=bool
                ),
            )
        except ValueError as error:
            assert 'incorrect visibility shape' in str(error)
            assert str((area.height, area.width)) in str(error)
            assert str(wrong) in str(error)
        else:
            raise AssertionError(f'shape {wrong} accepted')

    # the factory builds the same functions
    for name in FUNCTIONS:
        if applicable(name, Area((-2, 0), (-1, 1))):
            built = of.factory(name, area=Area((-2, 0), (-1, 1)))
            direct = FUNCTIONS[name](state, area=Area((-2, 0), (-1, 1)))
            assert built(state).grid == direct.grid
            assert built(state).agent == direct.agent

    # stochastic raytracing: same seed, same observation (re-seeding)
    area = Area((-2, 0), (-1, 1))
    first = of.stochastic_raytracing(state, area=area, rng=np.random.default_rng(7))
    second = of.stochastic_raytracing(state, area=area, rng=np.random.default_rng(7))
    assert first.grid == second.grid and first.agent == second.agent

    print(f'OK: {n_reference} reference checks, {n_rotation} rotation checks')


if __name__ == '__main__':
    main()
