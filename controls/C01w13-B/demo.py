"""Demo for change B (grid.py / spaces.py: `Grid.colors()` used by the space predicates).

Run from the worktree root:  /venv/bin/python _seed/B/demo.py

Exits 0 both on the pristine tree and with the patch applied.  It

1. compares `StateSpace.contains` and `ObservationSpace.contains` (library
   versions) against reference implementations embedded below (verbatim copies
   of the pristine bodies) on conforming and non-conforming states and
   observations:  non-square grids (1x1, 1xN, Nx1), agent on borders / corners
   / outside, all headings, colour NONE (always declared), undeclared colours
   on the grid or in the agent's hands, undeclared object types, wrong shapes,
   boxes with undeclared content, spaces declared with empty lists, custom
   objects whose colour is a property;
2. checks hard-coded expectations of the two predicates, and of
   `Grid.colors()` when the method exists (it does not on the pristine tree);
3. checks property C01 (closure and totality) on environments assembled from
   the built-in components, with debugging checks on (these call the
   predicates), and that under-declared spaces are still detected;
4. checks that seeded runs are reproducible, also with several environments
   interleaved in one process and after re-seeding.
"""
import itertools as itt
import math
import os
import sys
from functools import partial

# the worktree root (two levels up) provides `gym_gridverse`
sys.path.insert(
    0, os.path.dirname(os.path.dirname(os.path.dirname(os.path.abspath(__file__))))
)

from gym_gridverse.action import Action
from gym_gridverse.agent import Agent
from gym_gridverse.debugging import reset_gv_debug
from gym_gridverse.envs import (
    observation_functions,
    reset_functions,
    reward_functions,
    terminating_functions,
    transition_functions,
)
from gym_gridverse.envs.gridworld import GridWorld
from gym_gridverse.geometry import Area, Orientation, Position, Shape
from gym_gridverse.grid import Grid
from gym_gridverse.grid_object import (
    Beacon,
    Box,
    Color,
    Door,
    Exit,
    Floor,
    GridObject,
    Hidden,
    Key,
    MovingObstacle,
    NoneGridObject,
    Telepod,
    Wall,
)
from gym_gridverse.observation import Observation
from gym_gridverse.rng import make_rng
from gym_gridverse.spaces import ActionSpace, ObservationSpace, StateSpace
from gym_gridverse.state import State
from gym_gridverse.utils.fast_copy import fast_copy

reset_gv_debug(True)

CHECKS = 0


def check(condition, message):
    global CHECKS
    CHECKS += 1
    if not condition:
        print(f'FAILED: {message}')
        sys.exit(1)


# ---------------------------------------------------------------------------
# custom object (awkward but legal input):  colour computed by a property
# ---------------------------------------------------------------------------


class Lamp(GridObject):
    """a custom object whose colour depends on its state"""

    blocks_movement = False
    blocks_vision = False
    holdable = True

    def __init__(self, on: bool):
        self.on = on

    @property
    def state_index(self) -> int:
        return int(self.on)

    @property
    def color(self) -> Color:
        return Color.YELLOW if self.on else Color.NONE

    @classmethod
    def can_be_represented_in_state(cls) -> bool:
        return True

    @classmethod
    def num_states(cls) -> int:
        return 2

    def __repr__(self):
        return f'Lamp({self.on})'


# ---------------------------------------------------------------------------
# reference implementations (verbatim pristine bodies, `self` -> `space`)
# ---------------------------------------------------------------------------


def ref_state_space_contains(space: StateSpace, state: State) -> bool:
    return (
        state.grid.shape == space.grid_shape
        and state.grid.object_types().issubset(space.object_types)
        and set(
            state.grid[position].color
            for position in state.grid.area.positions()
        ).issubset(space.colors)
        and state.grid.area.contains(state.agent.position)
        and isinstance(state.agent.orientation, Orientation)
        and type(state.agent.grid_object) in space._agent_object_types
        and state.agent.grid_object.color in space.colors
    )


def ref_observation_space_contains(
    space: ObservationSpace, observation: Observation
) -> bool:
    have_same_shape = observation.grid.shape == space.grid_shape
    y_in_grid = 0 <= observation.agent.position.y < space.area.height
    x_in_grid = 0 <= observation.agent.position.x < space.area.width
    agent_obj_type_in_space = (
        type(observation.agent.grid_object) in space._agent_object_types
    )
    grid_objs_in_space = observation.grid.object_types().issubset(
        space._grid_object_types
    )
    grid_objs_colors_in_space = set(
        observation.grid[pos].color
        for pos in observation.grid.area.positions()
    ).issubset(space.colors)
    agent_obj_color_in_space = (
        observation.agent.grid_object.color in space.colors
    )

    res = [
        have_same_shape,
        grid_objs_in_space,
        grid_objs_colors_in_space,
        y_in_grid,
        x_in_grid,
        agent_obj_type_in_space,
        agent_obj_color_in_space,
    ]

    return all(res)


def ref_grid_colors(grid: Grid):
    return set(grid[position].color for position in grid.area.positions())


# ---------------------------------------------------------------------------
# 1. comparison with the reference implementations
# ---------------------------------------------------------------------------

OBJECT_FACTORIES = [
    Floor,
    Wall,
    Exit,
    partial(Exit, Color.GREEN),
    partial(Door, Door.Status.OPEN, Color.RED),
    partial(Door, Door.Status.LOCKED, Color.NONE),
    partial(Key, Color.RED),
    partial(Key, Color.BLUE),
    partial(Key, Color.NONE),
    MovingObstacle,
    lambda: Box(Key(Color.BLUE)),
    lambda: Box(Floor()),
    partial(Telepod, Color.YELLOW),
    partial(Beacon, Color.GREEN),
    partial(Lamp, True),
    partial(Lamp, False),
    Hidden,
    NoneGridObject,
]

HELD_FACTORIES = [
    None,
    partial(Key, Color.RED),
    partial(Key, Color.BLUE),
    partial(Key, Color.NONE),
    partial(Lamp, True),
    partial(Lamp, False),
    Hidden,
    Floor,
]

# (object types, colours) declarations, including empty lists
DECLARATIONS = [
    ([], []),
    ([Floor], []),
    ([Floor, Wall, Exit], [Color.GREEN]),
    ([Floor, Wall, Key, Door], [Color.RED]),
    ([Floor, Wall, Key, Door, Box], [Color.RED, Color.NONE]),
    ([Floor, Key, Lamp, Telepod, Beacon], [Color.YELLOW, Color.BLUE]),
    (
        [Floor, Wall, Exit, Door, Key, MovingObstacle, Box, Telepod, Beacon, Lamp],
        list(Color),
    ),
    # duplicates and a tuple instead of a list
    ((Floor, Floor, Key), (Color.BLUE, Color.BLUE)),
]

STATE_SHAPES = [Shape(1, 1), Shape(1, 3), Shape(3, 1), Shape(2, 3)]
VIEW_SHAPES = [Shape(1, 1), Shape(1, 3), Shape(3, 1), Shape(2, 3)]


def grids(shape):
    """grids of the given shape with zero, one or two non-floor objects"""
    yield Grid.from_shape(shape)
    positions = list(Area((0, shape.height - 1), (0, shape.width - 1)).positions())
    corners = sorted(
        {positions[0], positions[-1], positions[len(positions) // 2]},
        key=lambda p: p.yx,
    )
    for position in corners:
        for factory in OBJECT_FACTORIES:
            grid = Grid.from_shape(shape)
            grid[position] = factory()
            yield grid
    if len(positions) >= 2:
        for f, g in itt.product(OBJECT_FACTORIES[3:10], repeat=2):
            grid = Grid.from_shape(shape)
            grid[positions[0]] = f()
            grid[positions[-1]] = g()
            yield grid
    # nothing but one kind of object
    for factory in OBJECT_FACTORIES:
        yield Grid.from_shape(shape, factory=factory)


def agents(shape):
    """agents inside (all cells), just outside, and far outside of the shape"""
    positions = list(
        Area((-1, shape.height), (-1, shape.width)).positions()
    ) + [Position(100, 0), Position(0, -100)]
    for i, position in enumerate(positions):
        orientation = list(Orientation)[i % 4]
        held_f = HELD_FACTORIES[i % len(HELD_FACTORIES)]
        yield Agent(
            position, orientation, None if held_f is None else held_f()
        )
    # every held item and heading at the first and last cell
    for position in [Position(0, 0), Position(shape.height - 1, shape.width - 1)]:
        for orientation, held_f in itt.product(Orientation, HELD_FACTORIES):
            yield Agent(
                position, orientation, None if held_f is None else held_f()
            )
    # not an orientation
    yield Agent(Position(0, 0), 'N')  # type: ignore
    yield Agent(Position(0, 0), None)  # type: ignore


def membership_comparison():
    n_true = n_false = 0
    for object_types, colors in DECLARATIONS:
        state_spaces = [
            StateSpace(shape, object_types, colors) for shape in STATE_SHAPES
        ]
        observation_spaces = [
            ObservationSpace(shape, object_types, colors)
            for shape in VIEW_SHAPES
            if shape.width % 2 == 1
        ]
        for shape in STATE_SHAPES:
            agents_ = list(agents(shape))
            for i, grid in enumerate(grids(shape)):
                check(
                    not hasattr(Grid, 'colors')
                    or grid.colors() == ref_grid_colors(grid),
                    f'Grid.colors {grid}',
                )
                # all agents on the first grids, a rotating selection after
                selection = (
                    agents_ if i < 8 else agents_[i % 7 :: 7]
                )
                for agent in selection:
                    state = State(grid, agent)
                    for space in state_spaces:
                        expected = ref_state_space_contains(space, state)
                        actual = space.contains(state)
                        check(
                            type(actual) is bool and actual == expected,
                            f'StateSpace({space.grid_shape}, {object_types}, '
                            f'{colors}).contains({state}) = {actual!r}, '
                            f'expected {expected!r}',
                        )
                        n_true += expected
                        n_false += not expected
                    observation = Observation(grid, agent)
                    for space in observation_spaces:
                        expected = ref_observation_space_contains(
                            space, observation
                        )
                        actual = space.contains(observation)
                        check(
                            type(actual) is bool and actual == expected,
                            f'ObservationSpace({space.grid_shape}, '
                            f'{object_types}, {colors})'
                            f'.contains({observation}) = {actual!r}, '
                            f'expected {expected!r}',
                        )
                        n_true += expected
                        n_false += not expected
    check(n_true > 1000 and n_false > 1000, 'both outcomes are exercised')
    return n_true, n_false


# ---------------------------------------------------------------------------
# 2. hard-coded expectations
# ---------------------------------------------------------------------------


def hard_coded_expectations():
    space = StateSpace(Shape(2, 3), [Floor, Wall, Key, Box], [Color.RED])

    def state(agent=None, **objects):
        grid = Grid.from_shape((2, 3))
        for name, obj in objects.items():
            grid[int(name[1]), int(name[2])] = obj
        return State(
            grid, Agent(Position(0, 0), Orientation.F) if agent is None else agent
        )

    check(space.contains(state()), 'all floor')
    check(space.contains(state(p00=Key(Color.RED))), 'declared colour')
    check(space.contains(state(p12=Key(Color.NONE))), 'NONE is always declared')
    check(not space.contains(state(p12=Key(Color.BLUE))), 'undeclared colour')
    check(
        not space.contains(state(p00=Key(Color.RED), p12=Key(Color.GREEN))),
        'one undeclared colour among declared ones',
    )
    check(not space.contains(state(p01=Exit())), 'undeclared type')
    check(
        space.contains(state(p01=Box(Key(Color.BLUE)))),
        'box content is not inspected',
    )
    check(
        space.contains(
            state(agent=Agent(Position(1, 2), Orientation.R, Key(Color.RED)))
        ),
        'agent in the corner, facing outward, declared item',
    )
    check(
        not space.contains(
            state(agent=Agent(Position(1, 2), Orientation.R, Key(Color.BLUE)))
        ),
        'held item of undeclared colour',
    )
    check(
        not space.contains(
            state(agent=Agent(Position(1, 2), Orientation.R, Exit()))
        ),
        'held item of undeclared type',
    )
    check(
        not space.contains(state(agent=Agent(Position(2, 0), Orientation.F))),
        'agent below the grid',
    )
    check(
        not space.contains(state(agent=Agent(Position(0, -1), Orientation.F))),
        'agent left of the grid',
    )
    check(
        not space.contains(State(Grid.from_shape((3, 2)), state().agent)),
        'transposed shape',
    )

    space = ObservationSpace(Shape(2, 3), [Floor, Wall, Key], [Color.RED])

    def observation(agent=None, **objects):
        s = state(agent, **objects)
        return Observation(s.grid, s.agent)

    check(space.contains(observation()), 'all floor')
    check(space.contains(observation(p00=Hidden())), 'Hidden always declared')
    check(space.contains(observation(p11=Key(Color.RED))), 'declared colour')
    check(space.contains(observation(p11=Key(Color.NONE))), 'NONE declared')
    check(not space.contains(observation(p11=Key(Color.BLUE))), 'undeclared')
    check(not space.contains(observation(p11=Exit())), 'undeclared type')
    check(
        not space.contains(
            observation(agent=Agent(Position(1, 1), Orientation.F, Hidden()))
        ),
        'Hidden is not a declared held item',
    )
    check(
        not space.contains(
            observation(agent=Agent(Position(2, 1), Orientation.F))
        ),
        'agent outside of the view',
    )

    if hasattr(Grid, 'colors'):
        grid = Grid.from_shape((2, 3))
        check(grid.colors() == {Color.NONE}, 'colors: all floor')
        grid[1, 2] = Key(Color.RED)
        grid[0, 0] = Door(Door.Status.OPEN, Color.BLUE)
        grid[0, 1] = Box(Key(Color.GREEN))
        check(
            grid.colors() == {Color.NONE, Color.RED, Color.BLUE},
            'colors: corners of a non-square grid, box content ignored',
        )
        colors = grid.colors()
        colors.add(Color.YELLOW)
        check(Color.YELLOW not in grid.colors(), 'colors: fresh set each call')
        check(
            Grid([[Key(Color.RED)]]).colors() == {Color.RED},
            'colors: 1x1 grid without NONE',
        )
        check(
            (grid * Orientation.R).colors() == grid.colors()
            and grid.subgrid(Area((-1, 0), (-1, 0))).colors() == {Color.NONE, Color.BLUE},
            'colors: rotated grid and subgrid',
        )


# ---------------------------------------------------------------------------
# 3. property C01 on assembled environments
# ---------------------------------------------------------------------------

ALL_OBJECT_TYPES = [
    Floor,
    Wall,
    Exit,
    Door,
    Key,
    MovingObstacle,
    Box,
    Telepod,
    Beacon,
]
ALL_COLORS = list(Color)


def make_env(
    reset_function,
    shape,
    *,
    view_shape=Shape(5, 3),
    observation_name='partially_occluded',
    actions=None,
    object_types=None,
    colors=None,
):
    object_types = ALL_OBJECT_TYPES if object_types is None else object_types
    colors = ALL_COLORS if colors is None else colors
    state_space = StateSpace(shape, object_types, colors)
    action_space = ActionSpace(list(Action) if actions is None else actions)
    observation_space = ObservationSpace(view_shape, object_types, colors)

    transition_function = transition_functions.factory(
        'chain',
        transition_functions=[
            transition_functions.factory(name)
            for name in [
                'move_agent',
                'turn_agent',
                'pickndrop',
                'actuate_door',
                'actuate_box',
                'move_obstacles',
                'teleport',
            ]
        ],
    )
    reward_function = reward_functions.factory(
        'reduce_sum',
        reward_functions=[
            reward_functions.factory('living_reward', reward=-0.1),
            reward_functions.factory('reach_exit', reward_on=5.0),
            reward_functions.factory('bump_moving_obstacle', reward=-2.0),
            reward_functions.factory('bump_into_wall', reward=-0.5),
            reward_functions.factory(
                'actuate_door', reward_open=0.25, reward_close=-0.25
            ),
            reward_functions.factory(
                'pickndrop', object_type=Key, reward_pick=0.5, reward_drop=-0.5
            ),
        ],
    )
    termination_function = terminating_functions.factory(
        'reduce_any',
        terminating_functions=[
            terminating_functions.factory('reach_exit'),
            terminating_functions.factory('bump_moving_obstacle'),
            terminating_functions.factory('bump_into_wall'),
        ],
    )
    observation_function = observation_functions.factory(
        observation_name, area=observation_space.area
    )
    return GridWorld(
        state_space,
        action_space,
        observation_space,
        reset_function,
        transition_function,
        observation_function,
        reward_function,
        termination_function,
    )


def check_step(env, state, action, what):
    before = fast_copy(state)
    next_state, reward, terminal = env.functional_step(state, action)
    check(state == before, f'{what}: functional_step mutated its input')
    check(next_state is not state, f'{what}: next state is a new object')
    check(env.state_space.contains(next_state), f'{what}: next state in space')
    check(
        ref_state_space_contains(env.state_space, next_state),
        f'{what}: next state in space (reference predicate)',
    )
    check(
        next_state.grid.shape == env.state_space.grid_shape,
        f'{what}: grid shape',
    )
    check(
        next_state.grid.area.contains(next_state.agent.position),
        f'{what}: agent in grid',
    )
    check(
        type(reward) is float and math.isfinite(reward),
        f'{what}: reward {reward!r} is a finite float',
    )
    check(type(terminal) is bool, f'{what}: terminal {terminal!r} is a bool')
    observation = env.functional_observation(next_state)
    check(
        env.observation_space.contains(observation),
        f'{what}: observation in space',
    )
    check(
        ref_observation_space_contains(env.observation_space, observation),
        f'{what}: observation in space (reference predicate)',
    )
    check(
        observation.grid.shape == env.observation_space.grid_shape,
        f'{what}: observation shape',
    )
    return next_state, reward, terminal


def check_rejects(env, state, bad_action, what):
    before = fast_copy(state)
    try:
        env.functional_step(state, bad_action)
    except ValueError:
        pass
    else:
        check(False, f'{what}: {bad_action!r} should raise ValueError')
    check(state == before, f'{what}: rejected action changed the state')


def explore(env, seed, num_steps, what, trace):
    """random walk;  from every visited state, every action is also tried"""
    env.set_seed(seed)
    rng = make_rng(seed + 1000)
    state = env.functional_reset()
    check(env.state_space.contains(state), f'{what}: reset state in space')
    check(
        env.observation_space.contains(env.functional_observation(state)),
        f'{what}: reset observation in space',
    )
    actions = env.action_space.actions
    for t in range(num_steps):
        results = [
            check_step(env, state, action, f'{what} t={t} {action.name}')
            for action in actions
        ]
        for bad_action in [a for a in Action if a not in actions] + [0, None]:
            check_rejects(env, state, bad_action, f'{what} t={t}')
        i = int(rng.integers(len(actions)))
        next_state, reward, terminal = results[i]
        trace.append(
            (
                actions[i].name,
                next_state.agent.position.yx,
                next_state.agent.orientation.name,
                repr(next_state.agent.grid_object),
                reward,
                terminal,
            )
        )
        state = env.functional_reset() if terminal else next_state
    return state


def handcrafted_states():
    """awkward states of a 4x5 state space"""
    states = []
    shape = Shape(4, 5)
    for held in [None, Key(Color.NONE), Key(Color.RED)]:
        for position in Area((0, 3), (0, 4)).positions('border'):
            for orientation in Orientation:
                grid = Grid.from_shape(shape)
                # a mix of objects, unpaired telepods, no walls on the border
                grid[1, 1] = Telepod(Color.RED)
                grid[1, 2] = Telepod(Color.BLUE)
                grid[2, 2] = Telepod(Color.RED)
                grid[2, 3] = Telepod(Color.RED)
                grid[1, 3] = Door(Door.Status.LOCKED, Color.RED)
                grid[2, 1] = Box(Key(Color.GREEN))
                grid[0, 2] = Key(Color.RED)
                grid[3, 2] = MovingObstacle()
                grid[0, 4] = Exit()
                grid[3, 0] = Beacon(Color.YELLOW)
                grid[2, 0] = Door(Door.Status.CLOSED, Color.NONE)
                grid[0, 1] = Wall()
                if grid[position].blocks_movement:
                    continue
                agent = Agent(position, orientation, fast_copy(held))
                states.append(State(grid, agent))
    return shape, states


def property_checks():
    traces = {}

    configurations = {
        'empty': (
            partial(reset_functions.empty, Shape(4, 6), True, True),
            Shape(4, 6),
            {},
        ),
        'keydoor': (
            partial(reset_functions.keydoor, Shape(5, 8)),
            Shape(5, 8),
            {'view_shape': Shape(3, 5), 'observation_name': 'raytracing'},
        ),
        'dynamic_obstacles': (
            partial(reset_functions.dynamic_obstacles, Shape(6, 5), 3, True),
            Shape(6, 5),
            {'view_shape': Shape(2, 7), 'observation_name': 'fully_transparent'},
        ),
        'teleport': (
            partial(reset_functions.teleport, Shape(5, 7)),
            Shape(5, 7),
            {'view_shape': Shape(7, 7), 'observation_name': 'stochastic_raytracing'},
        ),
        'crossing': (
            partial(reset_functions.crossing, Shape(7, 9), 2, Wall),
            Shape(7, 9),
            {'view_shape': Shape(1, 1)},
        ),
        'rooms': (
            partial(reset_functions.rooms, Shape(7, 9), (2, 2)),
            Shape(7, 9),
            {
                'actions': [
                    Action.MOVE_FORWARD,
                    Action.TURN_LEFT,
                    Action.PICK_N_DROP,
                    Action.ACTUATE,
                ]
            },
        ),
        'memory': (
            partial(
                reset_functions.memory, Shape(5, 7), {Color.RED, Color.BLUE}
            ),
            Shape(5, 7),
            {'view_shape': Shape(4, 1)},
        ),
    }

    for name, (reset_function, shape, kwargs) in configurations.items():
        env = make_env(reset_function, shape, **kwargs)
        trace = []
        for seed in range(3):
            explore(env, seed, 25, f'{name} seed={seed}', trace)
        traces[name] = trace

    # hand-crafted awkward states, every action, several views
    shape, states = handcrafted_states()
    for view_shape, observation_name in [
        (Shape(5, 3), 'partially_occluded'),
        (Shape(2, 7), 'raytracing'),
        (Shape(1, 1), 'fully_transparent'),
    ]:
        env = make_env(
            partial(reset_functions.empty, shape),
            shape,
            view_shape=view_shape,
            observation_name=observation_name,
        )
        env.set_seed(11)
        for i, state in enumerate(states):
            check(env.state_space.contains(state), f'handcrafted {i} in space')
            for action in Action:
                check_step(
                    env, state, action, f'handcrafted {i} {action.name}'
                )
            check_rejects(env, state, 'PICK_N_DROP', f'handcrafted {i}')

    return traces


# ---------------------------------------------------------------------------
# 4. reproducibility:  re-seeding, several environments in one process
# ---------------------------------------------------------------------------


def run_episode(env, seed, actions):
    env.set_seed(seed)
    env.reset()
    out = [fast_copy(env.state)]
    for action in actions:
        reward, done = env.step(action)
        out.append((fast_copy(env.state), reward, done, env.observation))
        if done:
            env.reset()
    return out


def reproducibility_checks():
    rng = make_rng(5)
    all_actions = list(Action)
    actions = [
        all_actions[int(i)] for i in rng.integers(len(all_actions), size=40)
    ]

    def new_env():
        return make_env(
            partial(reset_functions.dynamic_obstacles, Shape(6, 7), 4, True),
            Shape(6, 7),
            view_shape=Shape(3, 5),
            observation_name='stochastic_raytracing',
        )

    env_a, env_b = new_env(), new_env()
    first = run_episode(env_a, 42, actions)
    # re-seeding the same environment
    check(run_episode(env_a, 42, actions) == first, 're-seeding reproduces')
    # another environment in the same process
    check(run_episode(env_b, 42, actions) == first, 'second env reproduces')

    # interleaved environments do not disturb each other
    env_a.set_seed(42)
    env_b.set_seed(7)
    env_a.reset()
    env_b.reset()
    out = [fast_copy(env_a.state)]
    for action in actions:
        env_b.step(Action.PICK_N_DROP)
        env_b.step(Action.ACTUATE)
        reward, done = env_a.step(action)
        out.append((fast_copy(env_a.state), reward, done, env_a.observation))
        if done:
            env_a.reset()
    check(out == first, 'interleaved envs reproduce')

    # InnerEnv.step rejects invalid actions and keeps its state
    state = fast_copy(env_a.state)
    try:
        env_a.step(17)
    except ValueError:
        pass
    else:
        check(False, 'step(17) should raise ValueError')
    check(env_a.state == state, 'rejected step keeps the state')


def under_declared_spaces():
    """debugging checks still detect states / observations outside the spaces"""
    # keydoor has a yellow key and a yellow locked door
    for colors, object_types, fails in [
        ([Color.YELLOW], ALL_OBJECT_TYPES, False),
        ([], ALL_OBJECT_TYPES, True),
        ([Color.RED, Color.BLUE], ALL_OBJECT_TYPES, True),
        ([Color.YELLOW], [Floor, Wall, Exit, Door], True),
    ]:
        env = make_env(
            partial(reset_functions.keydoor, Shape(5, 8)),
            Shape(5, 8),
            object_types=object_types,
            colors=colors,
        )
        env.set_seed(3)
        try:
            state = env.functional_reset()
        except ValueError:
            check(fails, f'colors={colors}: reset unexpectedly rejected')
        else:
            check(not fails, f'colors={colors}: reset should be rejected')
            env.functional_observation(state)

    # declared state colours, under-declared observation colours
    state_space = StateSpace(Shape(5, 8), ALL_OBJECT_TYPES, [Color.YELLOW])
    observation_space = ObservationSpace(Shape(9, 15), ALL_OBJECT_TYPES, [])
    env = make_env(partial(reset_functions.keydoor, Shape(5, 8)), Shape(5, 8))
    env.state_space = state_space
    env.observation_space = observation_space
    env._observation_function = observation_functions.factory(
        'fully_transparent', area=observation_space.area
    )
    env.set_seed(3)
    state = env.functional_reset()
    try:
        env.functional_observation(state)
    except ValueError:
        pass
    else:
        check(False, 'observation with undeclared colour should be rejected')


def main():
    n_true, n_false = membership_comparison()
    hard_coded_expectations()
    traces = property_checks()
    # the traces are reproducible
    check(property_checks() == traces, 'property traces are reproducible')
    under_declared_spaces()
    reproducibility_checks()
    print(
        f'OK: {n_true} accepted / {n_false} rejected reference comparisons, '
        f'{CHECKS} checks'
    )


if __name__ == '__main__':
    main()
