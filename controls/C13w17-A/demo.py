"""Demo for change A (GridWorld wiring: debug / validity checks as helpers).

Run from the worktree root:  /venv/bin/python _seed/A/demo.py

Exits 0 on the pristine tree and with the patch applied.  It checks

1. property C13 (well-formed initial states, ValueError for parameters that
   cannot be honoured) for the eight built-in reset functions *through*
   `GridWorld.functional_reset` / `reset`, with the debug checks on and off;
2. that `GridWorld` is wired exactly like the reference implementation
   embedded below (the pristine code, verbatim): same calls, same order, same
   objects, same `rng`, same exceptions and messages -- with recording stubs
   and with real components, before and after `set_seed`, re-seeding,
   several environments in one process.
"""
import os
import sys

sys.path.insert(0, os.getcwd())

import itertools as itt  # noqa: E402
import warnings  # noqa: E402

warnings.simplefilter('ignore')

from functools import partial  # noqa: E402
from typing import Optional, Tuple  # noqa: E402

import numpy.random as rnd  # noqa: E402

from gym_gridverse import debugging  # noqa: E402
from gym_gridverse.action import Action  # noqa: E402
from gym_gridverse.debugging import gv_debug, reset_gv_debug  # noqa: E402
from gym_gridverse.envs import InnerEnv  # noqa: E402
from gym_gridverse.envs import observation_functions as of  # noqa: E402
from gym_gridverse.envs import reset_functions as rf  # noqa: E402
from gym_gridverse.envs import reward_functions as rw  # noqa: E402
from gym_gridverse.envs import terminating_functions as tm  # noqa: E402
from gym_gridverse.envs import transition_functions as tf  # noqa: E402
from gym_gridverse.envs.gridworld import GridWorld  # noqa: E402
from gym_gridverse.envs.transition_functions import (  # noqa: E402
    transition_with_copy,
)
from gym_gridverse.geometry import Orientation, Position, Shape  # noqa: E402
from gym_gridverse.grid_object import (  # noqa: E402
    Beacon,
    Color,
    Door,
    Exit,
    Floor,
    Key,
    MovingObstacle,
    NoneGridObject,
    Telepod,
    Wall,
)
from gym_gridverse.rng import make_rng, reset_gv_rng  # noqa: E402
from gym_gridverse.spaces import (  # noqa: E402
    ActionSpace,
    ObservationSpace,
    StateSpace,
)
from gym_gridverse.state import State  # noqa: E402

# --------------------------------------------------------------------------
# reference implementation: the pristine GridWorld, verbatim
# --------------------------------------------------------------------------


class ReferenceGridWorld(InnerEnv):
    def __init__(
        self,
        state_space,
        action_space,
        observation_space,
        reset_function,
        transition_function,
        observation_function,
        reward_function,
        termination_function,
    ):
        self._reset_function = reset_function
        self._transition_function = transition_function
        self._observation_function = observation_function
        self._reward_function = reward_function
        self._termination_function = termination_function

        self._rng: Optional[rnd.Generator] = None

        super().__init__(state_space, action_space, observation_space)

    def set_seed(self, seed: Optional[int] = None):
        self._rng = make_rng(seed)

    def functional_reset(self) -> State:
        state = self._reset_function(rng=self._rng)
        if gv_debug() and not self.state_space.contains(state):
            raise ValueError('state does not satisfy state_space')

        return state

    def functional_step(self, state, action) -> Tuple[State, float, bool]:
        if gv_debug() and not self.state_space.contains(state):
            raise ValueError('state does not satisfy state_space')
        if not self.action_space.contains(action):
            raise ValueError('action {action} does not satisfy action-space')

        next_state = transition_with_copy(
            self._transition_function,
            state,
            action,
            rng=self._rng,
        )

        if gv_debug() and not self.state_space.contains(next_state):
            raise ValueError('next_state does not satisfy state_space')

        reward = self._reward_function(state, action, next_state)
        terminal = self._termination_function(state, action, next_state)

        return (next_state, reward, terminal)

    def functional_observation(self, state):
        observation = self._observation_function(state, rng=self._rng)
        if gv_debug() and not self.observation_space.contains(observation):
            raise ValueError('observation does not satisfy observation_space')

        return observation


# --------------------------------------------------------------------------
# property C13
# --------------------------------------------------------------------------


def cells(state):
    return [(p, state.grid[p]) for p in state.grid.area.positions()]


def objects_of(state, object_type):
    return [(p, o) for p, o in cells(state) if type(o) is object_type]


def check_common(state, shape):
    grid = state.grid
    assert isinstance(state, State)
    assert grid.shape == shape, (grid.shape, shape)
    height, width = shape.height, shape.width
    for y, x in itt.product(range(height), range(width)):
        if y in (0, height - 1) or x in (0, width - 1):
            assert type(grid[y, x]) is Wall, (y, x, grid[y, x])
    position = state.agent.position
    assert grid.area.contains(position), position
    assert 0 < position.y < height - 1 and 0 < position.x < width - 1
    assert type(state.agent.grid_object) is NoneGridObject
    assert isinstance(state.agent.orientation, Orientation)
    under = grid[position]
    assert not under.blocks_movement, under
    assert not isinstance(under, (Exit, MovingObstacle, Telepod)), under


def check_inventory(name, kwargs, state):
    shape = kwargs['shape']
    check_common(state, shape)
    exits = objects_of(state, Exit)

    if name in ('empty', 'rooms', 'crossing'):
        assert len(exits) == 1

    if name == 'empty':
        n_border = 2 * shape.height + 2 * shape.width - 4
        assert len(objects_of(state, Wall)) == n_border
        n_inside = (shape.height - 2) * (shape.width - 2)
        assert len(objects_of(state, Floor)) == n_inside - 1
        if not kwargs.get('random_exit', False):
            assert exits[0][0] == Position(shape.height - 2, shape.width - 2)
        if not kwargs.get('random_agent', False):
            assert state.agent.position == Position(1, 1)
            assert state.agent.orientation is Orientation.R

    elif name == 'dynamic_obstacles':
        assert len(exits) == 1
        obstacles = objects_of(state, MovingObstacle)
        assert len(obstacles) == kwargs['num_obstacles']

    elif name == 'keydoor':
        assert len(exits) == 1
        doors = objects_of(state, Door)
        keys = objects_of(state, Key)
        assert len(doors) == 1 and len(keys) == 1
        (door_position, door), (key_position, key) = doors[0], keys[0]
        assert door.is_locked and door.color is key.color
        column = [state.grid[y, door_position.x] for y in range(shape.height)]
        assert all(type(o) is Wall or o is door for o in column)
        assert key_position.x < door_position.x
        assert state.agent.position.x < door_position.x
        assert exits[0][0].x > door_position.x

    elif name == 'teleport':
        assert len(exits) == 1
        telepods = objects_of(state, Telepod)
        assert len(telepods) == 2
        assert telepods[0][1].color is telepods[1][1].color

    elif name in ('memory', 'memory_rooms'):
        beacons = objects_of(state, Beacon)
        n_exits = kwargs.get('num_exits', 2)
        n_beacons = kwargs.get('num_beacons', 2)
        assert len(exits) == n_exits and len(beacons) == n_beacons
        exit_colors = [o.color for _, o in exits]
        assert len(set(exit_colors)) == n_exits
        assert set(exit_colors) <= set(kwargs['colors'])
        assert Color.NONE not in exit_colors
        beacon_colors = {o.color for _, o in beacons}
        assert len(beacon_colors) == 1
        assert exit_colors.count(beacon_colors.pop()) == 1


ALL_COLORS = [color for color in Color]
ALL_TYPES = [Floor, Wall, Exit, Door, Key, MovingObstacle, Telepod, Beacon]

COLOR_SETS = [
    set(),
    {Color.RED},
    {Color.RED, Color.NONE},
    {Color.RED, Color.BLUE},
    {Color.RED, Color.BLUE, Color.NONE},
    set(Color) - {Color.NONE},
]


def scenarios():
    """(name, kwargs) for all eight reset functions, legal and illegal"""
    shapes = [Shape(h, w) for h in range(1, 9) for w in range(1, 9)]
    shapes += [Shape(4, 13), Shape(13, 4), Shape(9, 11), Shape(11, 7)]
    layouts = [(1, 1), (1, 2), (2, 1), (2, 2), (3, 2), (1, 3)]

    for shape in shapes:
        for random_agent, random_exit in itt.product([False, True], repeat=2):
            yield 'empty', dict(
                shape=shape, random_agent=random_agent, random_exit=random_exit
            )
        yield 'empty', dict(shape=shape)

        for layout in layouts:
            yield 'rooms', dict(shape=shape, layout=layout)

        for num_obstacles in [-1, 0, 1, 3, 20, 200]:
            yield 'dynamic_obstacles', dict(
                shape=shape, num_obstacles=num_obstacles
            )
            yield 'dynamic_obstacles', dict(
                shape=shape, num_obstacles=num_obstacles, random_agent=True
            )

        yield 'keydoor', dict(shape=shape)
        yield 'teleport', dict(shape=shape)

        for num_rivers in [-1, 0, 1, 2, 3, 50]:
            yield 'crossing', dict(
                shape=shape, num_rivers=num_rivers, object_type=Wall
            )

        for colors in COLOR_SETS:
            yield 'memory', dict(shape=shape, colors=colors)

        for layout, colors, (num_beacons, num_exits) in itt.product(
            [(1, 1), (2, 2), (1, 3)],
            [COLOR_SETS[1], COLOR_SETS[3], COLOR_SETS[4], COLOR_SETS[5]],
            [(0, 2), (1, 1), (1, 2), (2, 3), (1, 6), (40, 2)],
        ):
            if (shape.height + shape.width) % 3 == 0 or shape.height > 8:
                yield 'memory_rooms', dict(
                    shape=shape,
                    layout=layout,
                    colors=colors,
                    num_beacons=num_beacons,
                    num_exits=num_exits,
                )


def make_real_env(cls, reset_function, shape):
    observation_space = ObservationSpace(Shape(5, 7), ALL_TYPES, ALL_COLORS)
    return cls(
        StateSpace(shape, ALL_TYPES, ALL_COLORS),
        ActionSpace(list(Action)),
        observation_space,
        reset_function,
        partial(
            tf.chain,
            transition_functions=[
                tf.move_agent,
                tf.turn_agent,
                tf.move_obstacles,
                tf.teleport,
            ],
        ),
        partial(of.partially_occluded, area=observation_space.area),
        partial(rw.reach_exit, reward_on=5.0, reward_off=-1.0),
        tm.reach_exit,
    )


def rng_state(rng):
    return None if rng is None else rng.bit_generator.state


def check_property_through_gridworld():
    counts = {}
    for index, (name, kwargs) in enumerate(scenarios()):
        function = getattr(rf, name)
        assert rf.reset_function_registry[name] is function
        reset_function = partial(function, **kwargs)
        debug = index % 2 == 0
        reset_gv_debug(debug)

        for seed in (0, 1, 2):
            # reference: the reset function called directly
            rng = make_rng(seed)
            try:
                expected = reset_function(rng=rng)
            except ValueError:
                expected = None
            except Exception as error:  # pragma: no cover
                raise AssertionError((name, kwargs, seed, error))

            env = make_real_env(GridWorld, reset_function, kwargs['shape'])
            ref = make_real_env(
                ReferenceGridWorld, reset_function, kwargs['shape']
            )
            env.set_seed(seed)
            ref.set_seed(seed)

            if expected is None:
                for e in (env, ref):
                    try:
                        e.functional_reset()
                    except ValueError:
                        pass
                    else:
                        raise AssertionError((name, kwargs, seed))
                    try:
                        e.reset()
                    except ValueError:
                        pass
                    else:
                        raise AssertionError((name, kwargs, seed))
                key = (name, 'ValueError')
                counts[key] = counts.get(key, 0) + 1
                continue

            state = env.functional_reset()
            check_inventory(name, kwargs, state)
            assert state == expected, (name, kwargs, seed)
            assert state == ref.functional_reset()
            # exactly the same random numbers were consumed
            assert rng_state(env._rng) == rng_state(rng)
            assert rng_state(env._rng) == rng_state(ref._rng)

            # the stateful interface goes through the same wiring
            env.reset()
            ref.reset()
            check_inventory(name, kwargs, env.state)
            assert env.state == ref.state
            assert env.state is not state

            # re-seeding restarts the stream
            env.set_seed(seed)
            assert env.functional_reset() == expected

            # a few steps and observations agree with the reference as well
            if seed == 0:
                env.set_seed(7)
                ref.set_seed(7)
                env.reset()
                ref.reset()
                for action in list(Action)[:6]:
                    assert env.observation == ref.observation
                    assert env.step(action) == ref.step(action)
                    assert env.state == ref.state
                    assert env.state.grid.shape == kwargs['shape']

            counts[name, 'ok'] = counts.get((name, 'ok'), 0) + 1

    reset_gv_debug(None)
    for name in (
        'empty',
        'rooms',
        'dynamic_obstacles',
        'keydoor',
        'crossing',
        'teleport',
        'memory',
        'memory_rooms',
    ):
        assert counts.get((name, 'ok'), 0) > 20, (name, counts)
        assert counts.get((name, 'ValueError'), 0) > 0, (name, counts)
    return counts


def check_no_seed_uses_library_rng():
    """Before `set_seed`, `rng=None` is forwarded: the library rng is used"""
    kwargs = dict(shape=Shape(6, 9), layout=(1, 2))
    for cls in (GridWorld, ReferenceGridWorld):
        env = make_real_env(cls, partial(rf.rooms, **kwargs), kwargs['shape'])
        assert env._rng is None
        reset_gv_rng(123)
        first = env.functional_reset()
        second = env.functional_reset()
        reset_gv_rng(123)
        assert env.functional_reset() == first
        assert env.functional_reset() == second
        expected = rf.rooms(**kwargs, rng=make_rng(123))
        assert first == expected
        check_inventory('rooms', kwargs, first)
        assert env._rng is None


def check_several_envs_interleaved():
    kwargs = dict(shape=Shape(7, 8), num_obstacles=4, random_agent=True)
    reset_function = partial(rf.dynamic_obstacles, **kwargs)
    envs = [
        make_real_env(GridWorld, reset_function, kwargs['shape'])
        for _ in range(3)
    ]
    for seed, env in enumerate(envs):
        env.set_seed(seed)
    interleaved = [[env.functional_reset() for env in envs] for _ in range(4)]
    for seed in range(3):
        rng = make_rng(seed)
        for row in interleaved:
            assert row[seed] == reset_function(rng=rng)
            check_inventory('dynamic_obstacles', kwargs, row[seed])
    assert len({id(env._rng) for env in envs}) == 3


# --------------------------------------------------------------------------
# wiring, with recording stubs
# --------------------------------------------------------------------------


class Recorder:
    def __init__(self):
        self.log = []

    def space(self, name, answers):
        recorder = self

        class Space:
            def contains(self, item):
                recorder.log.append((name + '.contains', id(item)))
                return answers.pop(0) if answers else True

        return Space()

    def function(self, name, result):
        def function(*args, **kwargs):
            self.log.append(
                (
                    name,
                    tuple(id(arg) for arg in args),
                    tuple(sorted((k, id(v)) for k, v in kwargs.items())),
                )
            )
            return result() if callable(result) else result

        return function


def outcome(f, *args):
    try:
        return ('ok', f(*args))
    except Exception as error:  # noqa: BLE001
        return ('raise', type(error), str(error))


def run_stub_scenario(cls, debug, seed, answers, action_ok):
    """returns everything observable about one pass through the wiring"""
    reset_gv_debug(debug)
    recorder = Recorder()
    state = rf.empty(Shape(5, 6), rng=make_rng(0))
    observation = object()
    answers = dict((k, list(v)) for k, v in answers.items())

    def transition(next_state, action, *, rng=None):
        recorder.log.append(
            (
                'transition',
                next_state is not state and next_state == state,
                action,
                ('rng', rng is env._rng),
            )
        )
        next_state.agent.orientation = Orientation.B

    env = cls(
        recorder.space('state_space', answers.get('state', [])),
        recorder.space('action_space', [action_ok]),
        recorder.space('observation_space', answers.get('observation', [])),
        recorder.function('reset', state),
        transition,
        recorder.function('observation', observation),
        recorder.function('reward', 0.25),
        recorder.function('termination', True),
    )
    if seed is not None:
        env.set_seed(seed)
        assert rng_state(env._rng) == rng_state(make_rng(seed))

    names = {id(state): 'state', id(observation): 'observation'}
    names[id(env._rng)] = 'env._rng'  # id(None) when not seeded
    names[id(Action.ACTUATE)] = 'action'

    results = []
    results.append(outcome(env.functional_reset))
    if results[-1][0] == 'ok':
        assert results[-1][1] is state  # the very object, not a copy
        results[-1] = ('ok', 'state')
    results.append(outcome(env.functional_observation, state))
    if results[-1][0] == 'ok':
        assert results[-1][1] is observation
        results[-1] = ('ok', 'observation')
    step = outcome(env.functional_step, state, Action.ACTUATE)
    if step[0] == 'ok':
        next_state, reward, terminal = step[1]
        assert next_state is not state
        assert next_state.agent.orientation is Orientation.B
        assert state.agent.orientation is Orientation.R  # input untouched
        names[id(next_state)] = 'next_state'
        step = ('ok', (next_state == state, reward, terminal))
    results.append(step)

    def rename(entry):
        if isinstance(entry, tuple):
            return tuple(rename(e) for e in entry)
        if isinstance(entry, int) and not isinstance(entry, bool):
            return names.get(entry, 'other')
        return entry

    return results, [rename(entry) for entry in recorder.log]


def check_wiring_with_stubs():
    expected_full_debug_log = None
    for debug, seed, action_ok in itt.product(
        [True, False], [None, 0, 5], [True, False]
    ):
        for state_answers, observation_answers in itt.product(
            [[], [False], [True, False], [True, True, False]],
            [[], [False]],
        ):
            answers = dict(state=state_answers, observation=observation_answers)
            got = run_stub_scenario(GridWorld, debug, seed, answers, action_ok)
            want = run_stub_scenario(
                ReferenceGridWorld, debug, seed, answers, action_ok
            )
            assert got == want, (debug, seed, answers, action_ok, got, want)

            if debug and action_ok and not state_answers:
                expected_full_debug_log = got[1]

    # hard-coded expectation for the all-good, debug-on pass
    rng = (('rng', 'env._rng'),)
    sano = ('state', 'action', 'next_state')
    assert expected_full_debug_log == [
        ('reset', (), rng),
        ('state_space.contains', 'state'),
        ('observation', ('state',), rng),
        ('observation_space.contains', 'observation'),
        ('state_space.contains', 'state'),
        ('action_space.contains', 'action'),
        ('transition', True, Action.ACTUATE, ('rng', True)),
        ('state_space.contains', 'next_state'),
        ('reward', sano, ()),
        ('termination', sano, ()),
    ], expected_full_debug_log

    # hard-coded expectations for the failures
    results, log = run_stub_scenario(
        GridWorld, True, 3, dict(state=[False, False]), True
    )
    message = 'state does not satisfy state_space'
    assert results[0] == ('raise', ValueError, message)
    assert results[2] == ('raise', ValueError, message)
    assert [entry[0] for entry in log] == [
        'reset',
        'state_space.contains',
        'observation',
        'observation_space.contains',
        'state_space.contains',
    ]

    results, log = run_stub_scenario(
        GridWorld, True, 3, dict(state=[True, True, False]), True
    )
    assert results[2] == (
        'raise',
        ValueError,
        'next_state does not satisfy state_space',
    )
    assert [entry[0] for entry in log][-4:] == [
        'state_space.contains',
        'action_space.contains',
        'transition',
        'state_space.contains',
    ]

    results, log = run_stub_scenario(
        GridWorld, True, 3, dict(observation=[False]), True
    )
    assert results[1] == (
        'raise',
        ValueError,
        'observation does not satisfy observation_space',
    )

    # the action check is not a debug check; the debug checks are skipped
    # without consulting the spaces
    results, log = run_stub_scenario(
        GridWorld, False, None, dict(state=[False] * 3), False
    )
    assert results[0][0] == 'ok' and results[1][0] == 'ok'
    assert results[2] == (
        'raise',
        ValueError,
        'action {action} does not satisfy action-space',
    )
    assert log == [
        ('reset', (), (('rng', 'env._rng'),)),
        ('observation', ('state',), (('rng', 'env._rng'),)),
        ('action_space.contains', 'action'),
    ], log

    reset_gv_debug(None)


def check_debug_check_with_real_spaces():
    """a reset function that disagrees with the state space is caught (debug)"""
    reset_function = partial(rf.keydoor, shape=Shape(5, 7))
    for cls in (GridWorld, ReferenceGridWorld):
        env = make_real_env(cls, reset_function, Shape(5, 8))  # wrong shape
        env.set_seed(0)
        reset_gv_debug(True)
        assert outcome(env.functional_reset) == (
            'raise',
            ValueError,
            'state does not satisfy state_space',
        )
        reset_gv_debug(False)
        state = env.functional_reset()
        check_inventory('keydoor', dict(shape=Shape(5, 7)), state)
    reset_gv_debug(None)
    assert debugging.gv_debug() == __debug__


def main():
    counts = check_property_through_gridworld()
    check_no_seed_uses_library_rng()
    check_several_envs_interleaved()
    check_wiring_with_stubs()
    check_debug_check_with_real_spaces()
    print('ok', sorted(counts.items()))


if __name__ == '__main__':
    main()
