"""Demo / check program for refactoring A (pickndrop, actuate_door, actuate_box).

Run as:  cd /tmp/wt3-C03 && /venv/bin/python -W ignore _seed/A/demo.py

The expected next state / reward / termination of every (state, action) pair
is computed by an independent re-implementation (`model_step` & co., working on
plain tuples) and compared with `GridWorld.functional_step`.  On top of that
the C03-relevant facts are asserted for every call:

* the input state is not modified (same values *and* same object identities),
* the returned state shares no mutable component with its input,
* repeating the same question after other calls gives an equal answer,
* mutating either state afterwards does not affect the other,
* copies equal and hash like their originals.
"""
import os
import sys

sys.path.insert(0, os.getcwd())

import copy
import itertools as itt
import random

import numpy as np

from gym_gridverse.action import Action
from gym_gridverse.agent import Agent
from gym_gridverse.envs import (
    observation_functions,
    reward_functions,
    terminating_functions,
    transition_functions,
)
from gym_gridverse.envs.gridworld import GridWorld
from gym_gridverse.geometry import Area, Orientation, Position, Shape
from gym_gridverse.grid import Grid
from gym_gridverse.grid_object import (
    Beacon,
    Box,
    Color,
    Door,
    Exit,
    Floor,
    GridObject,
    Key,
    MovingObstacle,
    NoneGridObject,
    Telepod,
    Wall,
)
from gym_gridverse.spaces import ActionSpace, ObservationSpace, StateSpace
from gym_gridverse.state import State
from gym_gridverse.utils.fast_copy import fast_copy

# --------------------------------------------------------------------------
# plain-data model
#
# objects: ('Floor',) ('Wall',) ('Exit',) ('MovingObstacle',) ('None',)
#          ('Door', status, color) ('Key', color) ('Telepod', color)
#          ('Beacon', color) ('Box', content)
# state:   (rows, (y, x), orientation, held), orientation in 'NESW'
# --------------------------------------------------------------------------

ORIENTATIONS = 'NESW'
LIB_ORIENTATION = {
    'N': Orientation.F,
    'E': Orientation.R,
    'S': Orientation.B,
    'W': Orientation.L,
}
MODEL_ORIENTATION = {v: k for k, v in LIB_ORIENTATION.items()}
DELTA = {'N': (-1, 0), 'E': (0, 1), 'S': (1, 0), 'W': (0, -1)}
MOVE_TURNS = {
    Action.MOVE_FORWARD: 0,
    Action.MOVE_RIGHT: 1,
    Action.MOVE_BACKWARD: 2,
    Action.MOVE_LEFT: 3,
}
COLORS = {c.name: c for c in Color}
STATUSES = {s.name: s for s in Door.Status}


def turned(orientation, quarter_turns_clockwise):
    i = ORIENTATIONS.index(orientation)
    return ORIENTATIONS[(i + quarter_turns_clockwise) % 4]


def build_object(m) -> GridObject:
    kind = m[0]
    if kind == 'Floor':
        return Floor()
    if kind == 'Wall':
        return Wall()
    if kind == 'Exit':
        return Exit()
    if kind == 'MovingObstacle':
        return MovingObstacle()
    if kind == 'None':
        return NoneGridObject()
    if kind == 'Door':
        return Door(STATUSES[m[1]], COLORS[m[2]])
    if kind == 'Key':
        return Key(COLORS[m[1]])
    if kind == 'Telepod':
        return Telepod(COLORS[m[1]])
    if kind == 'Beacon':
        return Beacon(COLORS[m[1]])
    if kind == 'Box':
        return Box(build_object(m[1]))
    raise AssertionError(kind)


def model_object(obj):
    name = type(obj).__name__
    if name in ('Floor', 'Wall', 'Exit', 'MovingObstacle'):
        return (name,)
    if name == 'NoneGridObject':
        return ('None',)
    if name == 'Door':
        return ('Door', obj.state.name, obj.color.name)
    if name in ('Key', 'Telepod', 'Beacon'):
        return (name, obj.color.name)
    if name == 'Box':
        return ('Box', model_object(obj.content))
    raise AssertionError(name)


def build_state(m) -> State:
    rows, (y, x), orientation, held = m
    grid = Grid([[build_object(c) for c in row] for row in rows])
    agent = Agent(
        Position(y, x), LIB_ORIENTATION[orientation], build_object(held)
    )
    return State(grid, agent)


def model_state(state: State):
    rows = tuple(
        tuple(model_object(obj) for obj in row) for row in state.grid.objects
    )
    return (
        rows,
        (state.agent.position.y, state.agent.position.x),
        MODEL_ORIENTATION[state.agent.orientation],
        model_object(state.agent.grid_object),
    )


def blocks_movement(m):
    return (
        m[0] in ('Wall', 'Box')
        or (m[0] == 'Door' and m[1] != 'OPEN')
    )


def holdable(m):
    return m[0] == 'Key'


def model_step(m, action, rng, functions):
    """independent re-implementation of the chained transition functions"""
    rows, (y, x), orientation, held = m
    cells = [list(row) for row in rows]
    height, width = len(cells), len(cells[0])

    def inside(p):
        return 0 <= p[0] < height and 0 <= p[1] < width

    for function in functions:
        dy, dx = DELTA[orientation]
        front = (y + dy, x + dx)

        if function == 'move_agent':
            if action in MOVE_TURNS:
                ddy, ddx = DELTA[turned(orientation, MOVE_TURNS[action])]
                target = (y + ddy, x + ddx)
                if inside(target) and not blocks_movement(
                    cells[target[0]][target[1]]
                ):
                    y, x = target

        elif function == 'turn_agent':
            if action is Action.TURN_LEFT:
                orientation = turned(orientation, 3)
            elif action is Action.TURN_RIGHT:
                orientation = turned(orientation, 1)

        elif function == 'actuate_door':
            if action is Action.ACTUATE and inside(front):
                cell = cells[front[0]][front[1]]
                if cell[0] == 'Door':
                    _, status, color = cell
                    if status == 'CLOSED':
                        status = 'OPEN'
                    elif status == 'LOCKED' and held == ('Key', color):
                        status = 'OPEN'
                    cells[front[0]][front[1]] = ('Door', status, color)

        elif function == 'actuate_box':
            if action is Action.ACTUATE and inside(front):
                cell = cells[front[0]][front[1]]
                if cell[0] == 'Box':
                    cells[front[0]][front[1]] = cell[1]

        elif function == 'pickndrop':
            if action is Action.PICK_N_DROP and inside(front):
                cell = cells[front[0]][front[1]]
                if cell == ('Floor',) or holdable(cell):
                    cells[front[0]][front[1]] = (
                        ('Floor',) if held == ('None',) else held
                    )
                    held = cell if holdable(cell) else ('None',)

        elif function == 'move_obstacles':
            obstacles = [
                (oy, ox)
                for oy in range(height)
                for ox in range(width)
                if cells[oy][ox] == ('MovingObstacle',)
            ]
            for oy, ox in obstacles:
                candidates = [
                    p
                    for p in [
                        (oy - 1, ox),
                        (oy, ox + 1),
                        (oy + 1, ox),
                        (oy, ox - 1),
                    ]
                    if inside(p) and cells[p[0]][p[1]] == ('Floor',)
                ]
                if candidates:
                    py, px = candidates[rng.choice(len(candidates))]
                    cells[oy][ox], cells[py][px] = (
                        cells[py][px],
                        cells[oy][ox],
                    )

        elif function == 'teleport':
            cell = cells[y][x]
            if cell[0] == 'Telepod':
                candidates = [
                    (ty, tx)
                    for ty in range(height)
                    for tx in range(width)
                    if (ty, tx) != (y, x)
                    and cells[ty][tx][0] == 'Telepod'
                    and cells[ty][tx][1] == cell[1]
                ]
                if candidates:
                    y, x = candidates[rng.choice(len(candidates))]

        else:
            raise AssertionError(function)

    return (tuple(tuple(row) for row in cells), (y, x), orientation, held)


def model_reward(m, action, m_next):
    """reach_exit(5, 0) + pickndrop(Key, 1, -1) + actuate_door(1, -1) + living(-0.05)"""
    rows, (y, x), orientation, held = m
    rows_next, (y_next, x_next), _, held_next = m_next

    terms = []
    terms.append(5.0 if rows_next[y_next][x_next] == ('Exit',) else 0.0)

    has, has_next = held[0] == 'Key', held_next[0] == 'Key'
    terms.append(
        1.0 if not has and has_next else -1.0 if has and not has_next else 0.0
    )

    door_term = 0.0
    if action is Action.ACTUATE:
        dy, dx = DELTA[orientation]
        fy, fx = y + dy, x + dx
        if 0 <= fy < len(rows) and 0 <= fx < len(rows[0]):
            door, door_next = rows[fy][fx], rows_next[fy][fx]
            if door[0] == 'Door' and door_next[0] == 'Door':
                if door[1] != 'OPEN' and door_next[1] == 'OPEN':
                    door_term = 1.0
                elif door[1] == 'OPEN' and door_next[1] != 'OPEN':
                    door_term = -1.0
    terms.append(door_term)
    terms.append(-0.05)
    return sum(terms)


def model_terminal(m, action, m_next):
    rows_next, (y_next, x_next), _, _ = m_next
    return rows_next[y_next][x_next] == ('Exit',)


# --------------------------------------------------------------------------
# identity helpers
# --------------------------------------------------------------------------


def object_components(obj):
    yield obj
    if isinstance(obj, Box):
        yield from object_components(obj.content)


def mutable_components(state: State):
    """all the mutable components reachable from a state"""
    components = [
        state.grid,
        state.grid.objects,
        state.agent,
        state.agent.transform,
    ]
    components.extend(state.grid.objects)
    for row in state.grid.objects:
        for obj in row:
            components.extend(object_components(obj))
    components.extend(object_components(state.agent.grid_object))
    return components


def identity_snapshot(state: State):
    return [id(c) for c in mutable_components(state)]


def assert_no_alias(a: State, b: State, context):
    ids_a = set(identity_snapshot(a))
    ids_b = set(identity_snapshot(b))
    assert not (ids_a & ids_b), ('aliasing', context)
    assert a is not b, context


def scramble(state: State):
    """mutates every mutable component of a state"""
    for position in state.grid.area.positions():
        obj = state.grid[position]
        for component in object_components(obj):
            if isinstance(component, Door):
                component.state = (
                    Door.Status.LOCKED
                    if component.state is not Door.Status.LOCKED
                    else Door.Status.OPEN
                )
                component.color = Color.BLUE
            elif isinstance(component, (Key, Telepod, Beacon, Exit)):
                component.color = (
                    Color.GREEN
                    if component.color is not Color.GREEN
                    else Color.RED
                )
            elif isinstance(component, Box):
                component.content = Wall()
    for position in state.grid.area.positions():
        if isinstance(state.grid[position], (Floor, Wall)):
            state.grid[position] = Beacon(Color.YELLOW)
    held = state.agent.grid_object
    if isinstance(held, Key):
        held.color = Color.GREEN if held.color is not Color.GREEN else Color.RED
    state.agent.grid_object = Telepod(Color.BLUE)
    state.agent.orientation = state.agent.orientation * Orientation.R
    state.agent.position = Position(
        state.grid.shape.height - 1 - state.agent.position.y,
        state.grid.shape.width - 1 - state.agent.position.x,
    )
    state.grid.objects[0].reverse()


# --------------------------------------------------------------------------
# environments
# --------------------------------------------------------------------------

OBJECT_TYPES = [
    Floor,
    Wall,
    Exit,
    Door,
    Key,
    MovingObstacle,
    Box,
    Telepod,
    Beacon,
]
ALL_COLORS = list(Color)
ALL_ACTIONS = list(Action)

DETERMINISTIC = [
    'move_agent',
    'turn_agent',
    'actuate_door',
    'actuate_box',
    'pickndrop',
]
ORDERINGS = {
    'shipped-keydoor': ['move_agent', 'turn_agent', 'actuate_door', 'pickndrop'],
    'deterministic': DETERMINISTIC,
    'reversed': DETERMINISTIC[::-1],
    'box-first': ['actuate_box', 'actuate_door', 'pickndrop'],
    'pick-first': ['pickndrop', 'actuate_door', 'actuate_box', 'move_agent'],
    'stochastic': DETERMINISTIC + ['move_obstacles', 'teleport'],
    'stochastic-first': ['teleport', 'move_obstacles'] + DETERMINISTIC,
}


def make_env(shape, functions) -> GridWorld:
    shape = Shape(*shape)
    transition_function = transition_functions.factory(
        'chain',
        transition_functions=[
            transition_functions.factory(name) for name in functions
        ],
    )
    reward_function = reward_functions.factory(
        'reduce_sum',
        reward_functions=[
            reward_functions.factory(
                'reach_exit', reward_on=5.0, reward_off=0.0
            ),
            reward_functions.factory(
                'pickndrop', object_type=Key, reward_pick=1.0, reward_drop=-1.0
            ),
            reward_functions.factory(
                'actuate_door', reward_open=1.0, reward_close=-1.0
            ),
            reward_functions.factory('living_reward', reward=-0.05),
        ],
    )
    termination_function = terminating_functions.factory('reach_exit')
    observation_space = ObservationSpace(Shape(3, 3), OBJECT_TYPES, ALL_COLORS)
    observation_function = observation_functions.factory(
        'partially_occluded', area=observation_space.area
    )

    def reset_function(*, rng=None):
        raise AssertionError('not used')

    return GridWorld(
        StateSpace(shape, OBJECT_TYPES, ALL_COLORS),
        ActionSpace(ALL_ACTIONS),
        observation_space,
        reset_function,
        transition_function,
        observation_function,
        reward_function,
        termination_function,
    )


# --------------------------------------------------------------------------
# state generation
# --------------------------------------------------------------------------

PALETTE = (
    [('Floor',), ('Wall',), ('Exit',), ('MovingObstacle',)]
    + [
        ('Door', status, color)
        for status in ('OPEN', 'CLOSED', 'LOCKED')
        for color in ('RED', 'BLUE', 'NONE')
    ]
    + [('Key', color) for color in ('RED', 'BLUE', 'NONE')]
    + [('Telepod', color) for color in ('RED', 'GREEN')]
    + [('Beacon', 'YELLOW')]
)
PALETTE = PALETTE + [
    ('Box', ('Floor',)),
    ('Box', ('Key', 'RED')),
    ('Box', ('Door', 'LOCKED', 'RED')),
    ('Box', ('Box', ('Key', 'BLUE'))),
    ('Box', ('Box', ('Box', ('Exit',)))),
    ('Box', ('MovingObstacle',)),
]
HELD = [('None',), ('Key', 'RED'), ('Key', 'BLUE'), ('Key', 'NONE')]
# items which are not holdable but could nonetheless be given to the agent
WEIRD_HELD = [('Box', ('Key', 'RED')), ('Door', 'CLOSED', 'RED'), ('Floor',)]


def exhaustive_front_states():
    """agent in the middle of a 3x3, every object in front, every held item"""
    for front, held, orientation in itt.product(
        PALETTE, HELD + WEIRD_HELD, ORIENTATIONS
    ):
        cells = [[('Floor',)] * 3 for _ in range(3)]
        dy, dx = DELTA[orientation]
        cells[1 + dy][1 + dx] = front
        yield (
            tuple(tuple(row) for row in cells),
            (1, 1),
            orientation,
            held,
        )


def exhaustive_edge_states():
    """tiny grids, agent everywhere, facing everywhere (including outside)"""
    for shape in [(1, 1), (1, 2), (2, 1), (2, 2)]:
        height, width = shape
        for cell, held in itt.product(PALETTE, HELD):
            for y, x, orientation in itt.product(
                range(height), range(width), ORIENTATIONS
            ):
                cells = [[cell] * width for _ in range(height)]
                # the agent's own cell is made walkable
                cells[y][x] = ('Floor',)
                yield (
                    tuple(tuple(row) for row in cells),
                    (y, x),
                    orientation,
                    held,
                )


def random_states(rnd: random.Random, n):
    shapes = [(1, 3), (2, 3), (3, 3), (3, 4), (4, 4), (5, 3), (6, 6)]
    for _ in range(n):
        height, width = rnd.choice(shapes)
        cells = [
            [
                rnd.choice(PALETTE) if rnd.random() < 0.7 else ('Floor',)
                for _ in range(width)
            ]
            for _ in range(height)
        ]
        y, x = rnd.randrange(height), rnd.randrange(width)
        if rnd.random() < 0.8:
            # usually on a cell which does not block movement
            cells[y][x] = rnd.choice(
                [('Floor',), ('Telepod', 'RED'), ('Door', 'OPEN', 'RED')]
            )
        yield (
            tuple(tuple(row) for row in cells),
            (y, x),
            rnd.choice(ORIENTATIONS),
            rnd.choice(HELD + HELD + WEIRD_HELD),
        )


# --------------------------------------------------------------------------
# checks
# --------------------------------------------------------------------------

ENVS = {}


def get_env(shape, ordering) -> GridWorld:
    key = (shape, ordering)
    if key not in ENVS:
        ENVS[key] = make_env(shape, ORDERINGS[ordering])
    return ENVS[key]


counts = {'steps': 0, 'changed': 0}


def check(m, action, ordering, seed, *, deep):
    rows = m[0]
    shape = (len(rows), len(rows[0]))
    env = get_env(shape, ordering)
    functions = ORDERINGS[ordering]
    context = (m, action, ordering, seed)

    state = build_state(m)
    assert model_state(state) == m, context
    identities = identity_snapshot(state)
    state_hash = hash(state)

    # expected
    m_next = model_step(m, action, np.random.default_rng(seed), functions)
    reward_expected = model_reward(m, action, m_next)
    terminal_expected = model_terminal(m, action, m_next)

    # library
    env.set_seed(seed)
    next_state, reward, terminal = env.functional_step(state, action)
    counts['steps'] += 1
    counts['changed'] += m_next != m

    # the answer is the expected one
    assert model_state(next_state) == m_next, (context, model_state(next_state), m_next)
    assert abs(reward - reward_expected) < 1e-12, (context, reward, reward_expected)
    assert bool(terminal) is terminal_expected, context
    # NOTE: library equality is coarser than the model (box contents are not
    # compared), hence only an implication
    if m_next == m:
        assert next_state == state and hash(next_state) == hash(state), context

    # the input is unmodified, value-wise and identity-wise
    assert model_state(state) == m, context
    assert identity_snapshot(state) == identities, context
    assert hash(state) == state_hash, context

    # no aliasing
    assert_no_alias(state, next_state, context)

    if not deep:
        return

    # copies equal and hash like their originals
    for original in (state, next_state):
        for copied in (fast_copy(original), copy.deepcopy(original)):
            assert copied == original, context
            assert hash(copied) == hash(original), context
            assert model_state(copied) == model_state(original), context
            assert_no_alias(copied, original, context)
    assert fast_copy(next_state) == next_state, context
    assert hash(fast_copy(next_state)) == hash(next_state), context

    # history independence:  other calls on this and other environments, then
    # ask again
    other_env = get_env(shape, 'reversed')
    for other_action in (Action.ACTUATE, Action.PICK_N_DROP, action):
        other_env.functional_step(next_state, other_action)
        env.functional_step(next_state, other_action)
        env.functional_observation(next_state)
    assert model_state(state) == m, context
    assert model_state(next_state) == m_next, context

    env.set_seed(seed)
    next_state_again, reward_again, terminal_again = env.functional_step(
        state, action
    )
    assert next_state_again == next_state, context
    assert hash(next_state_again) == hash(next_state), context
    assert reward_again == reward and terminal_again == terminal, context
    assert_no_alias(next_state_again, next_state, context)
    assert_no_alias(next_state_again, state, context)

    # the same question on a fresh environment and a fresh equal state
    fresh_env = make_env(shape, functions)
    fresh_env.set_seed(seed)
    next_state_fresh, reward_fresh, terminal_fresh = fresh_env.functional_step(
        build_state(m), action
    )
    assert next_state_fresh == next_state, context
    assert reward_fresh == reward and terminal_fresh == terminal, context

    # observation is pure too
    observation = env.functional_observation(state)
    assert model_state(state) == m, context
    assert identity_snapshot(state) == identities, context
    assert env.functional_observation(state) == observation, context

    # changing the output does not affect the input ...
    scramble(next_state)
    assert model_state(state) == m, context
    assert identity_snapshot(state) == identities, context
    assert model_state(next_state_again) == m_next, context

    # ... and changing the input does not affect the output
    scramble(state)
    assert model_state(next_state_again) == m_next, context
    assert model_state(next_state_fresh) == m_next, context


def main():
    rnd = random.Random(20240917)

    # exhaustive: every object in front x every held item x every orientation
    # x every action, through the deterministic compositions
    n = 0
    for m in exhaustive_front_states():
        for action in ALL_ACTIONS:
            for ordering in ('deterministic', 'shipped-keydoor', 'box-first'):
                check(
                    m,
                    action,
                    ordering,
                    seed=n,
                    deep=action in (Action.ACTUATE, Action.PICK_N_DROP)
                    and ordering == 'deterministic',
                )
                n += 1

    # exhaustive: grid edges
    for m in exhaustive_edge_states():
        for action in ALL_ACTIONS:
            for ordering in ('deterministic', 'pick-first'):
                check(m, action, ordering, seed=n, deep=False)
                n += 1

    # random: all orderings, including the stochastic ones
    for i, m in enumerate(random_states(rnd, 1500)):
        for action in ALL_ACTIONS:
            ordering = rnd.choice(sorted(ORDERINGS))
            seed = rnd.randrange(10**6)
            check(m, action, ordering, seed=seed, deep=(i % 5 == 0))
            n += 1

    # random trajectories, feeding back the returned states
    for i in range(150):
        m = next(random_states(rnd, 1))
        ordering = rnd.choice(sorted(ORDERINGS))
        for t in range(25):
            action = rnd.choice(ALL_ACTIONS)
            seed = rnd.randrange(10**6)
            check(m, action, ordering, seed=seed, deep=False)
            m = model_step(
                m, action, np.random.default_rng(seed), ORDERINGS[ordering]
            )
            n += 1

    assert counts['changed'] > 1000, counts
    print(
        f"OK: {counts['steps']} functional steps checked "
        f"({counts['changed']} with a state change)"
    )


if __name__ == '__main__':
    main()
