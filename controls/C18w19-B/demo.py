"""C18 demo (change B): the agent's pose, its front cell and the pose algebra.

Runs on the pristine tree and with the change applied;  exits 0 in both cases.
Everything is compared against reference implementations embedded here
(integer 2x2 rotation matrices and plain tuples), never against the library's
own tables.
"""
import itertools as itt
import os
import sys

sys.path.insert(0, os.getcwd())

from gym_gridverse.action import Action  # noqa: E402
from gym_gridverse.agent import Agent  # noqa: E402
from gym_gridverse.envs.transition_functions import (  # noqa: E402
    actuate_box,
    actuate_door,
    pickndrop,
)
from gym_gridverse.envs.utils import get_next_position  # noqa: E402
from gym_gridverse.geometry import (  # noqa: E402
    Area,
    Orientation,
    Position,
    Transform,
)
from gym_gridverse.grid import Grid  # noqa: E402
from gym_gridverse.grid_object import (  # noqa: E402
    Box,
    Color,
    Door,
    Floor,
    Key,
    NoneGridObject,
    Wall,
)
from gym_gridverse.state import State  # noqa: E402

O = Orientation
ORIENTATIONS = [O.F, O.R, O.B, O.L]
checks = 0


def check(condition, *info):
    global checks
    checks += 1
    if not condition:
        print('FAILED', *info)
        sys.exit(1)


# ---------------------------------------------------------------- reference

# number of clockwise quarter turns
TURNS = {O.F: 0, O.R: 1, O.B: 2, O.L: 3}
FROM_TURNS = {v: k for k, v in TURNS.items()}


def ref_rotate(k, y, x):
    """(y, x) rotated by k clockwise quarter turns (y down, x right)"""
    for _ in range(k % 4):
        y, x = x, -y
    return y, x


# forward is "up": (-1, 0)
REF_UNIT = {o: ref_rotate(TURNS[o], -1, 0) for o in ORIENTATIONS}
check(
    REF_UNIT == {O.F: (-1, 0), O.R: (0, 1), O.B: (1, 0), O.L: (0, -1)},
    REF_UNIT,
)

MOVE_TURNS = {
    Action.MOVE_FORWARD: 0,
    Action.MOVE_RIGHT: 1,
    Action.MOVE_BACKWARD: 2,
    Action.MOVE_LEFT: 3,
}


def ref_next_position(y, x, orientation, action):
    if action not in MOVE_TURNS:
        return y, x
    dy, dx = ref_rotate(TURNS[orientation] + MOVE_TURNS[action], -1, 0)
    return y + dy, x + dx


COORDS = [-(10**12), -7, -2, -1, 0, 1, 2, 5, 13, 10**12 + 3]
POSITIONS = [Position(y, x) for y in COORDS for x in COORDS]
SMALL_POSITIONS = [
    Position(y, x) for y in (-3, -1, 0, 2, 10**9) for x in (-4, 0, 1, 7)
]
TRANSFORMS = [Transform(p, o) for p in SMALL_POSITIONS for o in ORIENTATIONS]

# ------------------------------------------- orientations: cyclic group C4

for a in ORIENTATIONS:
    check(a * O.F == a and O.F * a == a, 'identity', a)
    check(a * -a == O.F and -a * a == O.F, 'inverse', a)
    check(TURNS[-a] == (-TURNS[a]) % 4, 'neg', a)
    for b in ORIENTATIONS:
        check(a * b == FROM_TURNS[(TURNS[a] + TURNS[b]) % 4], 'mul', a, b)
        check(a * b == b * a, 'commutative', a, b)
        for c in ORIENTATIONS:
            check((a * b) * c == a * (b * c), 'associative', a, b, c)
check(O.R * O.R * O.R * O.R == O.F and O.R * O.R == O.B and O.R * O.B == O.L)

# ----------------------- orientations act linearly and isometrically

for a in ORIENTATIONS:
    check(Position.from_orientation(a).yx == REF_UNIT[a], 'unit', a)
    for p in POSITIONS:
        check((a * p).yx == ref_rotate(TURNS[a], p.y, p.x), 'act', a, p)
        check((p * a) == (a * p), 'rmul', a, p)
        check(-a * (a * p) == p, 'undo', a, p)
        check(a * -p == -(a * p), 'odd', a, p)
        q = a * p
        check(q.y**2 + q.x**2 == p.y**2 + p.x**2, 'norm', a, p)
        check(abs(q.y) + abs(q.x) == abs(p.y) + abs(p.x), 'norm1', a, p)
    for p, q in itt.product(SMALL_POSITIONS, repeat=2):
        check(a * (p + q) == a * p + a * q, 'linear', a, p, q)
        check(a * (p - q) == a * p - a * q, 'linear-', a, p, q)
        check(
            Position.manhattan_distance(a * p, a * q)
            == Position.manhattan_distance(p, q),
            'isometry',
        )
    for b in ORIENTATIONS:
        for p in SMALL_POSITIONS:
            check((a * b) * p == a * (b * p), 'action', a, b, p)
        check(
            a * Position.from_orientation(b) == Position.from_orientation(a * b),
            'unit action',
            a,
            b,
        )

# --------------------------------------------------- transforms (poses)

IDENTITY = Transform(Position(0, 0), O.F)
for t in TRANSFORMS:
    check(t * IDENTITY == t and IDENTITY * t == t, 'identity', t)
    check(t * -t == IDENTITY and -t * t == IDENTITY, 'inverse', t)
    check(-(-t) == t, 'double inverse', t)
    for p in SMALL_POSITIONS:
        y, x = ref_rotate(TURNS[t.orientation], p.y, p.x)
        check((t * p).yx == (t.position.y + y, t.position.x + x), 'act', t, p)
        check(-t * (t * p) == p, 'undo', t, p)
    for o in ORIENTATIONS:
        check(t * o == t.orientation * o, 'orientation', t, o)

SOME = TRANSFORMS[::3]
for s, t in itt.product(SOME, repeat=2):
    for p in SMALL_POSITIONS[::2]:
        check((s * t) * p == s * (t * p), 'composed action', s, t, p)
    check(-(s * t) == -t * -s, 'inverse of product', s, t)
    for u in SOME[::2]:
        check((s * t) * u == s * (t * u), 'associative', s, t, u)

# ------------------------------------------------------------------ areas

AREAS = [
    Area((0, 0), (0, 0)),
    Area((-6, 0), (-3, 3)),  # usual view area
    Area((-2, 5), (-1, 4)),  # asymmetric
    Area((-9, -4), (2, 2)),  # degenerate width, negative
    Area((3, 3), (-8, 11)),  # degenerate height
    Area((10**9, 10**9 + 2), (-(10**9) - 1, -(10**9))),
]
for area in AREAS:
    cells = set(area.positions())
    check(len(cells) == area.height * area.width, 'cells', area)
    for o in ORIENTATIONS:
        rotated = o * area
        check(set(rotated.positions()) == {o * p for p in cells}, 'o*area')
        check(-o * rotated == area, 'undo area', o, area)
    for t in TRANSFORMS[::5]:
        moved = t * area
        check(set(moved.positions()) == {t * p for p in cells}, 't*area')
        check(-t * moved == area, 'undo t*area', t, area)
        check(
            {moved.height, moved.width} == {area.height, area.width}
            and moved.height * moved.width == area.height * area.width,
            'extent',
        )
    for p in SMALL_POSITIONS[::3]:
        check(set((p + area).positions()) == {p + q for q in cells}, 'p+area')

# ------------------------------------------------------------------ grids


def labelled_grid(height, width):
    colors = [Color.RED, Color.GREEN, Color.BLUE, Color.YELLOW, Color.NONE]
    objects = []
    for y in range(height):
        row = []
        for x in range(width):
            k = y * width + x
            row.append(
                Key(colors[k % 5])
                if k % 3 == 0
                else Wall()
                if k % 3 == 1
                else Floor()
            )
        objects.append(row)
    return Grid(objects)


for height, width in [(1, 1), (1, 5), (4, 1), (2, 3), (3, 3), (5, 2), (6, 7)]:
    grid = labelled_grid(height, width)
    ids = sorted(id(grid[p]) for p in grid.area.positions())
    for o in ORIENTATIONS:
        rotated = o * grid
        check((grid * o) == rotated, 'rmul grid')
        swapped = TURNS[o] % 2 == 1
        check(
            rotated.shape.as_tuple
            == ((width, height) if swapped else (height, width)),
            'rotated shape',
        )
        check(
            sorted(id(rotated[p]) for p in rotated.area.positions()) == ids,
            'same objects',
        )
        check(-o * rotated == grid, 'undo grid rotation', o, height, width)
        # `o * grid` is the grid as seen by an agent facing `o`:  cell p of
        # the rotated grid is the cell o * p of the original, up to the
        # translation which makes indices non-negative
        area = o * rotated.area
        offset = Position(area.ymin, area.xmin)
        for p in rotated.area.positions():
            check(rotated[p] is grid[(o * p) - offset], 'cell', o, p)
        for o2 in ORIENTATIONS:
            check(o2 * (o * grid) == (o2 * o) * grid, 'grid action', o, o2)
    check(grid == labelled_grid(height, width), 'grid not mutated')

# ------------------------------------------------ the agent and its pose

MOVE_TURNS = {
    Action.MOVE_FORWARD: 0,
    Action.MOVE_RIGHT: 1,
    Action.MOVE_BACKWARD: 2,
    Action.MOVE_LEFT: 3,
}

for p in POSITIONS:
    for o in ORIENTATIONS:
        agent = Agent(p, o)
        dy, dx = REF_UNIT[o]
        front = agent.front()
        check(
            type(front) is Position and front.yx == (p.y + dy, p.x + dx),
            'front',
            p,
            o,
            front,
        )
        check(agent.front() == front, 'repeatable', p, o)
        # agreement with the pose algebra
        unit = Position.from_orientation(O.F)
        check(front == agent.transform * unit, 'pose algebra', p, o)
        check(front == p + o * unit, 'pose algebra 2', p, o)
        check(-agent.transform * front == unit, 'local frame', p, o)
        check(Position.manhattan_distance(front, p) == 1, 'unit step', p, o)
        check(
            front == get_next_position(p, o, Action.MOVE_FORWARD),
            'next position',
            p,
            o,
        )
        # front() leaves the agent alone
        check(
            agent.position is p
            and agent.orientation is o
            and agent.transform == Transform(p, o)
            and isinstance(agent.grid_object, NoneGridObject)
            and agent == Agent(p, o)
            and hash(agent) == hash(Agent(p, o)),
            'agent untouched',
            p,
            o,
        )
        # cells around the agent, when the helper is available
        neighbor = getattr(agent, 'neighbor', None)
        if neighbor is not None:
            for action, k in MOVE_TURNS.items():
                relative = FROM_TURNS[k]
                y, x = ref_rotate(TURNS[o] + k, -1, 0)
                check(
                    neighbor(relative).yx == (p.y + y, p.x + x),
                    'neighbor',
                    p,
                    o,
                    relative,
                )
                check(
                    neighbor(relative) == get_next_position(p, o, action),
                    'neighbor vs next position',
                    p,
                    o,
                    action,
                )
                check(
                    neighbor(relative)
                    == agent.transform * Position.from_orientation(relative),
                    'neighbor vs pose',
                )
            check(agent == Agent(p, o), 'agent untouched by neighbor')

# the front cell follows the pose setters, and the transform attribute
agent = Agent(Position(2, 3), O.F, Key(Color.NONE))
check(agent.front() == Position(1, 3))
agent.orientation = O.L
check(agent.front() == Position(2, 2))
agent.position = Position(-5, 0)
check(agent.front() == Position(-5, -1))
agent.transform = Transform(Position(0, 0), O.B)
check(agent.front() == Position(1, 0) and agent.position == Position(0, 0))
agent.transform.orientation = O.R
check(agent.front() == Position(0, 1) and agent.orientation is O.R)
agent.transform = agent.transform * Transform(Position(-2, 1), O.R)
check(agent.position == Position(1, 2) and agent.orientation is O.B)
check(agent.front() == Position(2, 2))
check(agent.grid_object == Key(Color.NONE))
check(
    repr(Agent(Position(1, 2), O.R)) == 'Agent(Position(y=1, x=2), Orientation.RIGHT)',
    repr(Agent(Position(1, 2), O.R)),
)

# the front cell under a change of frame:  front commutes with transforms
for t in TRANSFORMS[::2]:
    for p in SMALL_POSITIONS[::3]:
        for o in ORIENTATIONS:
            agent = Agent(p, o)
            moved = Agent(t * p, t * o)
            check(moved.front() == t * agent.front(), 'equivariance', t, p, o)
            pose = t * agent.transform
            check(
                moved.transform == pose
                and moved.front() == pose * Position.from_orientation(O.F),
                'composed pose',
            )

# turning on the spot four times visits the four neighbours, clockwise
for p in SMALL_POSITIONS:
    agent = Agent(p, O.F)
    seen = []
    for _ in range(4):
        seen.append((agent.front() - p).yx)
        agent.orientation = agent.orientation * O.R
    check(seen == [(-1, 0), (0, 1), (1, 0), (0, -1)], seen)
    check(agent.orientation is O.F)

# ----------------- users of front(), on non-square grids, borders, corners


def plain_state(height, width, position, orientation, held=None):
    return State(
        Grid.from_shape((height, width)), Agent(position, orientation, held)
    )


for height, width in [(1, 1), (1, 4), (3, 5), (6, 4), (2, 2)]:
    for p in Area((0, height - 1), (0, width - 1)).positions():
        for o in ORIENTATIONS:
            dy, dx = REF_UNIT[o]
            y, x = p.y + dy, p.x + dx
            in_grid = 0 <= y < height and 0 <= x < width

            # doors:  only the one in front opens
            state = plain_state(height, width, p, o)
            for q in state.grid.area.positions():
                state.grid[q] = Door(Door.Status.CLOSED, Color.NONE)
            actuate_door(state, Action.ACTUATE)
            for q in state.grid.area.positions():
                check(
                    state.grid[q].is_open == (in_grid and q.yx == (y, x)),
                    'door',
                    (height, width),
                    p,
                    o,
                    q,
                )
            check(state.agent == Agent(p, o), 'agent after actuate')

            # boxes:  only the one in front opens
            state = plain_state(height, width, p, o)
            for q in state.grid.area.positions():
                state.grid[q] = Box(Key(Color.BLUE))
            actuate_box(state, Action.ACTUATE)
            for q in state.grid.area.positions():
                check(
                    isinstance(state.grid[q], Key)
                    == (in_grid and q.yx == (y, x)),
                    'box',
                    (height, width),
                    p,
                    o,
                    q,
                )

            # dropping:  the key lands in front, or stays in hand
            state = plain_state(height, width, p, o, Key(Color.NONE))
            pickndrop(state, Action.PICK_N_DROP)
            keys = [
                q.yx
                for q in state.grid.area.positions()
                if isinstance(state.grid[q], Key)
            ]
            check(keys == ([(y, x)] if in_grid else []), 'drop', p, o, keys)
            check(
                isinstance(state.agent.grid_object, NoneGridObject) == in_grid,
                'hand',
                p,
                o,
            )
            # and is picked up again from the same place
            pickndrop(state, Action.PICK_N_DROP)
            check(
                state.agent.grid_object == Key(Color.NONE)
                and state.grid == Grid.from_shape((height, width)),
                'pick',
                p,
                o,
            )

            # other actions do nothing
            state = plain_state(height, width, p, o, Key(Color.RED))
            for action in Action:
                if action is not Action.ACTUATE:
                    actuate_door(state, action)
                    actuate_box(state, action)
                if action is not Action.PICK_N_DROP:
                    pickndrop(state, action)
            check(
                state.grid == Grid.from_shape((height, width))
                and state.agent == Agent(p, o, Key(Color.RED)),
                'no-op',
            )

print(f'OK ({checks} checks)')
