"""Check program for property C20 (gym adapter is a faithful view of the wrapped env).

Run as:  cd /tmp/wt5-C20 && /venv/bin/python -W ignore _seed/B/demo.py

The program drives every shipped configuration both wrapped directly
(GymEnvironment(OuterEnv(...))) and through the registered gym ids, next to an
independently constructed and identically seeded *reference* inner environment
that is only ever touched through the InnerEnv API (reset / step / state /
observation).  Array representations and advertised spaces are recomputed by
an independent re-implementation contained in this file (functions `ref_*`),
never by the library's representation classes.

Focus of variant B: `make_state_representation`,
`make_observation_representation` (structure, aliasing and error behaviour of
the objects they build) and the `OuterEnv.state` / `OuterEnv.observation`
properties, next to the end-to-end lockstep runs through the gym adapter.
"""
import os
import sys
import types
import random
import zlib

sys.path.insert(0, os.getcwd())

# --------------------------------------------------------------------------
# minimal YAML reader (PyYAML is not installed): enough for registered_envs/*
# --------------------------------------------------------------------------


def _scalar(tok):
    tok = tok.strip()
    if tok in ('True', 'true'):
        return True
    if tok in ('False', 'false'):
        return False
    try:
        return int(tok)
    except ValueError:
        pass
    try:
        return float(tok)
    except ValueError:
        pass
    return tok


def _flow(text):
    pos = 0

    def parse():
        nonlocal pos
        assert text[pos] == '['
        pos += 1
        out, cur = [], ''
        while True:
            ch = text[pos]
            if ch == '[':
                out.append(parse())
                cur = None
            elif ch in ',]':
                if cur is not None and cur.strip():
                    out.append(_scalar(cur))
                cur = ''
                pos += 1
                if ch == ']':
                    return out
            else:
                if cur is None:
                    assert ch == ' '
                else:
                    cur += ch
                pos += 1

    res = parse()
    assert text[pos:].strip() == ''
    return res


def _value(text):
    text = text.strip()
    return _flow(text) if text.startswith('[') else _scalar(text)


def mini_yaml_load(stream):
    text = stream if isinstance(stream, str) else stream.read()
    lines = []
    for raw in text.splitlines():
        if not raw.strip() or raw.strip().startswith('#'):
            continue
        lines.append((len(raw) - len(raw.lstrip(' ')), raw.strip()))
    idx = 0

    def block(indent):
        nonlocal idx
        if lines[idx][1].startswith('- '):
            out = []
            while (
                idx < len(lines)
                and lines[idx][0] == indent
                and lines[idx][1].startswith('- ')
            ):
                body = lines[idx][1][2:].strip()
                if ':' in body and not body.startswith('['):
                    lines[idx] = (indent + 2, body)
                    out.append(block(indent + 2))
                else:
                    out.append(_value(body))
                    idx += 1
            return out
        out = {}
        while (
            idx < len(lines)
            and lines[idx][0] == indent
            and not lines[idx][1].startswith('- ')
        ):
            key, _, rest = lines[idx][1].partition(':')
            idx += 1
            if rest.strip():
                out[key.strip()] = _value(rest)
            else:
                out[key.strip()] = block(lines[idx][0])
        return out

    res = block(0)
    assert idx == len(lines)
    return res


# make `import yaml; yaml.safe_load` work for the registered-id code path
_ymod = types.ModuleType('yaml')
_ymod.safe_load = mini_yaml_load
sys.modules['yaml'] = _ymod

import numpy as np  # noqa: E402
import gym  # noqa: E402

import gym_gridverse.gym as gg  # noqa: E402
from gym_gridverse.action import Action  # noqa: E402
from gym_gridverse.envs.yaml.factory import factory_env_from_data  # noqa: E402
from gym_gridverse.grid_object import Hidden, NoneGridObject  # noqa: E402
from gym_gridverse.outer_env import OuterEnv  # noqa: E402
from gym_gridverse.representations.observation_representations import (  # noqa: E402
    make_observation_representation,
)
from gym_gridverse.representations.spaces import Space, SpaceType  # noqa: E402
from gym_gridverse.representations.state_representations import (  # noqa: E402
    make_state_representation,
)

NAMES = ['default', 'no-overlap', 'compact']
CHECKS = 0


def ok(cond, *msg):
    global CHECKS
    CHECKS += 1
    if not cond:
        raise AssertionError(' '.join(str(m) for m in msg))


# --------------------------------------------------------------------------
# independent re-implementation of the array representations and their spaces
# --------------------------------------------------------------------------


class RefGridObjectCode:
    """independent grid-object -> 3 channel code, plus upper bound"""

    def __init__(self, name, object_types, colors, extra_types):
        self.name = name
        types_ = sorted(
            set(object_types) | set(extra_types), key=lambda t: t.type_index()
        )
        colors_ = sorted(set(colors), key=lambda c: c.value)
        self.max_t = max(t.type_index() for t in types_)
        self.max_s = max(t.num_states() for t in types_)
        self.max_c = max(c.value for c in colors_)
        if name == 'compact':
            n = 0
            self.tmap, self.smap, self.cmap = {}, {}, {}
            for t in types_:
                self.tmap[t.type_index()] = n
                n += 1
            for t in types_:
                for j in range(t.num_states()):
                    self.smap[t.type_index(), j] = n
                    n += 1
            for c in colors_:
                self.cmap[c.value] = n
                n += 1

    def code(self, obj):
        t, s, c = obj.type_index(), obj.state_index, obj.color.value
        if self.name == 'default':
            return [t, s, c]
        if self.name == 'no-overlap':
            return [t, self.max_t + s + 1, self.max_t + self.max_s + c + 2]
        return [self.tmap[t], self.smap[t, s], self.cmap[c]]

    def upper(self):
        if self.name == 'default':
            return [self.max_t, self.max_s, self.max_c]
        if self.name == 'no-overlap':
            return [
                self.max_t,
                self.max_t + self.max_s + 1,
                self.max_t + self.max_s + self.max_c + 2,
            ]
        return [
            max(self.tmap.values()),
            max(self.smap.values()),
            max(self.cmap.values()),
        ]


def ref_grid_array(grid, coder):
    h, w = grid.shape.height, grid.shape.width
    out = np.zeros((h, w, 3), dtype=np.int64)
    for y in range(h):
        for x in range(w):
            out[y, x, :] = coder.code(grid[y, x])
    return out


def ref_agent_id_grid(grid, position):
    out = np.zeros((grid.shape.height, grid.shape.width), dtype=np.int64)
    out[position.y, position.x] = 1
    return out


def ref_observation_repr(observation, observation_space, name):
    coder = RefGridObjectCode(
        name,
        observation_space.object_types,
        observation_space.colors,
        [Hidden, NoneGridObject],
    )
    return {
        'grid': ref_grid_array(observation.grid, coder),
        'agent_id_grid': ref_agent_id_grid(
            observation.grid, observation.agent.position
        ),
        'item': np.array(
            coder.code(observation.agent.grid_object), dtype=np.int64
        ),
    }


def ref_state_repr(state, state_space, name):
    coder = RefGridObjectCode(
        name, state_space.object_types, state_space.colors, [NoneGridObject]
    )
    h, w = state.grid.shape.height, state.grid.shape.width
    agent = np.zeros(6, dtype=np.float64)
    agent[0] = (2 * state.agent.position.y - h + 1) / (h - 1)
    agent[1] = (2 * state.agent.position.x - w + 1) / (w - 1)
    agent[2 + state.agent.orientation.value] = 1.0
    return {
        'grid': ref_grid_array(state.grid, coder),
        'agent_id_grid': ref_agent_id_grid(state.grid, state.agent.position),
        'agent': agent,
        'item': np.array(coder.code(state.agent.grid_object), dtype=np.int64),
    }


def ref_observation_bounds(observation_space, name):
    """key -> (low, high, numpy dtype) in the insertion order of the library"""
    coder = RefGridObjectCode(
        name,
        observation_space.object_types,
        observation_space.colors,
        [Hidden, NoneGridObject],
    )
    h, w = observation_space.grid_shape.height, observation_space.grid_shape.width
    up = np.array(coder.upper(), dtype=np.int64)
    return {
        'grid': (
            np.zeros((h, w, 3), np.int64),
            np.broadcast_to(up, (h, w, 3)).copy(),
            np.int64,
        ),
        'agent_id_grid': (
            np.zeros((h, w), np.int64),
            np.ones((h, w), np.int64),
            np.int64,
        ),
        'item': (np.zeros(3, np.int64), up.copy(), np.int64),
    }


def ref_state_bounds(state_space, name):
    coder = RefGridObjectCode(
        name, state_space.object_types, state_space.colors, [NoneGridObject]
    )
    h, w = state_space.grid_shape.height, state_space.grid_shape.width
    up = np.array(coder.upper(), dtype=np.int64)
    return {
        'grid': (
            np.zeros((h, w, 3), np.int64),
            np.broadcast_to(up, (h, w, 3)).copy(),
            np.int64,
        ),
        'agent_id_grid': (
            np.zeros((h, w), np.int64),
            np.ones((h, w), np.int64),
            np.int64,
        ),
        'agent': (
            np.array([-1.0, -1.0, 0.0, 0.0, 0.0, 0.0]),
            np.array([1.0, 1.0, 1.0, 1.0, 1.0, 1.0]),
            np.float64,
        ),
        'item': (np.zeros(3, np.int64), up.copy(), np.int64),
    }


def gym_key_order(keys):
    """key order produced by this gym version for a plain dict with these keys"""
    neutral = gym.spaces.Dict({k: gym.spaces.Discrete(2) for k in keys})
    return list(neutral.spaces.keys())


def check_gym_space(space, bounds, what):
    """`space` must be a gym Dict of Boxes with exactly the given bounds"""
    ok(type(space) is gym.spaces.Dict, what, 'not a gym Dict', type(space))
    ok(
        list(space.spaces.keys()) == gym_key_order(list(bounds.keys())),
        what,
        'keys',
        list(space.spaces.keys()),
    )
    for key, (low, high, dtype) in bounds.items():
        box = space.spaces[key]
        ok(type(box) is gym.spaces.Box, what, key, 'not a Box')
        ok(box.dtype == np.dtype(dtype), what, key, 'dtype', box.dtype)
        ok(box.shape == low.shape, what, key, 'shape', box.shape)
        ok(box.low.dtype == np.dtype(dtype), what, key, 'low dtype')
        ok(box.high.dtype == np.dtype(dtype), what, key, 'high dtype')
        ok(np.array_equal(box.low, low), what, key, 'low')
        ok(np.array_equal(box.high, high), what, key, 'high')


def check_repr_equal(got, want, what):
    ok(type(got) is dict, what, 'not a dict')
    ok(list(got.keys()) == list(want.keys()), what, 'keys', list(got.keys()))
    for key in want:
        ok(isinstance(got[key], np.ndarray), what, key, 'not an array')
        ok(got[key].shape == want[key].shape, what, key, 'shape')
        ok(
            got[key].dtype.kind == want[key].dtype.kind,
            what,
            key,
            'dtype',
            got[key].dtype,
        )
        ok(np.array_equal(got[key], want[key]), what, key, 'values')


# --------------------------------------------------------------------------
# configurations
# --------------------------------------------------------------------------

YAML_DIR = os.path.join(os.getcwd(), 'gym_gridverse', 'registered_envs')


def load_data(env_id):
    with open(os.path.join(YAML_DIR, gg.STRING_TO_YAML_FILE[env_id])) as f:
        return mini_yaml_load(f)


def expected_actions(env_id):
    """action list the configuration asks for, resolved without the factory"""
    data = load_data(env_id)
    if 'action_space' in data:
        return [Action[name] for name in data['action_space']]
    return list(Action)


def make_reference(env_id):
    return factory_env_from_data(load_data(env_id))


def make_direct(env_id, with_state=True, with_observation=True):
    inner = factory_env_from_data(load_data(env_id))
    kwargs = {}
    if with_state:
        kwargs['state_representation'] = make_state_representation(
            'default', inner.state_space
        )
    if with_observation:
        kwargs['observation_representation'] = (
            make_observation_representation('default', inner.observation_space)
        )
    outer = OuterEnv(inner, **kwargs)
    env = gg.GymEnvironment(outer)
    ok(env.outer_env is outer, env_id, 'outer env identity')
    return env


def make_registered(env_id):
    env = gym.make(env_id, disable_env_checker=True)
    ok(type(env.unwrapped) is gg.GymEnvironment, env_id, 'unwrapped type')
    return env


# --------------------------------------------------------------------------
# the lockstep run
# --------------------------------------------------------------------------


def run_lockstep(env_id, mode, seed, steps, switch_every):
    """drive env (under test) and ref (reference inner env) with one seed"""
    rnd = random.Random(zlib.crc32(repr((env_id, mode, seed)).encode()))
    ref = make_reference(env_id)
    env = make_direct(env_id) if mode == 'direct' else make_registered(env_id)
    core = env.unwrapped
    has_state = mode == 'direct'

    actions = expected_actions(env_id)
    ok(core.outer_env.action_space.actions == actions, env_id, 'action list')
    ok(type(core.action_space) is gym.spaces.Discrete, env_id, 'action space')
    ok(core.action_space.n == len(actions), env_id, 'num actions')
    ok(env.action_space.n == len(actions), env_id, 'num actions (made env)')

    obs_space = ref.observation_space
    state_space = ref.state_space
    obs_name = 'default'
    state_name = 'default'

    check_gym_space(
        core.observation_space,
        ref_observation_bounds(obs_space, obs_name),
        (env_id, mode, 'initial observation space'),
    )
    if has_state:
        check_gym_space(
            core.state_space,
            ref_state_bounds(state_space, state_name),
            (env_id, mode, 'initial state space'),
        )
    else:
        ok(core.state_space is None, env_id, 'registered id has no state space')
        try:
            core.state
        except RuntimeError:
            pass
        else:
            ok(False, env_id, 'state available without representation')

    core.outer_env.inner_env.set_seed(seed)
    ref.set_seed(seed)

    def do_reset():
        obs = env.reset()
        ref.reset()
        ref_obs = ref.observation
        what = (env_id, mode, seed, 'reset', obs_name)
        check_repr_equal(
            obs, ref_observation_repr(ref_obs, obs_space, obs_name), what
        )
        ok(core.observation_space.contains(obs), what, 'obs outside space')
        ok(env.observation_space.contains(obs), what, 'obs outside space (made)')
        check_state(what)

    def check_state(what):
        # the inner state of the adapter is the reference state (same rng use)
        inner_state = core.outer_env.inner_env.state
        for name in NAMES:
            a = ref_state_repr(inner_state, state_space, name)
            b = ref_state_repr(ref.state, state_space, name)
            for key in b:
                ok(np.array_equal(a[key], b[key]), what, 'inner state', key)
        if has_state:
            got = core.state
            check_repr_equal(
                got, ref_state_repr(ref.state, state_space, state_name), what
            )
            ok(core.state_space.contains(got), what, 'state outside space')
        # the property view agrees with what reset/step returned
        check_repr_equal(
            core.observation,
            ref_observation_repr(ref.observation, obs_space, obs_name),
            what,
        )

    do_reset()
    for t in range(steps):
        if switch_every and t % switch_every == switch_every - 1:
            # switch representations mid-episode; the reference is untouched,
            # so any rng use or state disturbance here would show up later
            obs_name = rnd.choice(NAMES)
            core.set_observation_representation(obs_name)
            what = (env_id, mode, seed, t, 'switch', obs_name)
            check_gym_space(
                core.observation_space,
                ref_observation_bounds(obs_space, obs_name),
                what,
            )
            ok(
                env.observation_space is core.observation_space,
                what,
                'made env advertises another space',
            )
            if has_state:
                state_name = rnd.choice(NAMES)
                core.set_state_representation(state_name)
                check_gym_space(
                    core.state_space,
                    ref_state_bounds(state_space, state_name),
                    what + (state_name,),
                )
            check_state(what)

        i = rnd.randrange(len(actions))
        obs, reward, done, info = env.step(i)
        ref_reward, ref_done = ref.step(actions[i])
        what = (env_id, mode, seed, t, 'step', i, obs_name)
        ok(type(reward) is type(ref_reward), what, 'reward type')
        ok(reward == ref_reward, what, 'reward', reward, ref_reward)
        ok(type(done) is type(ref_done), what, 'done type')
        ok(done == ref_done, what, 'done')
        ok(type(info) is dict and info == {}, what, 'info', info)
        check_repr_equal(
            obs, ref_observation_repr(ref.observation, obs_space, obs_name), what
        )
        ok(core.observation_space.contains(obs), what, 'obs outside space')
        check_state(what)
        if done:
            do_reset()

    # out-of-range action indices behave like list indexing
    for bad in (len(actions), len(actions) + 3, -len(actions) - 1):
        try:
            core.step(bad)
        except IndexError:
            pass
        else:
            ok(False, env_id, 'out of range action accepted', bad)
    env.close()


# --------------------------------------------------------------------------
# focus of variant A: space conversion, constructor, representation switching
# --------------------------------------------------------------------------


def check_outer_space_to_gym_space():
    rng = np.random.default_rng(20)
    shapes = [(1,), (3,), (2, 2), (4, 3, 3), (1, 1, 1, 2), (7, 7, 3)]
    cases = 0
    for shape in shapes:
        for _ in range(6):
            lo_i = rng.integers(-5, 3, size=shape)
            hi_i = lo_i + rng.integers(0, 9, size=shape)
            lo_f = rng.uniform(-2, 1, size=shape)
            hi_f = lo_f + rng.uniform(0, 3, size=shape)
            cat_up = rng.integers(0, 12, size=shape)
            spaces = {
                'zeta': Space.make_discrete_space(lo_i, hi_i),
                'alpha': Space.make_continuous_space(lo_f, hi_f),
                'mid': Space.make_categorical_space(cat_up),
                'Beta': Space(SpaceType.DISCRETE, lo_i.copy(), hi_i.copy()),
            }
            bounds = {
                'zeta': (lo_i, hi_i, np.int64),
                'alpha': (lo_f, hi_f, np.float64),
                'mid': (np.zeros(shape, np.int64), cat_up, np.int64),
                'Beta': (lo_i, hi_i, np.int64),
            }
            # every subset / ordering of the keys, including the empty dict
            keys = list(spaces)
            for r in range(len(keys) + 1):
                perm = list(keys)
                rng.shuffle(perm)
                sub = {k: spaces[k] for k in perm[:r]}
                snapshot = {
                    k: (v.lower_bound.copy(), v.upper_bound.copy())
                    for k, v in sub.items()
                }
                got = gg.outer_space_to_gym_space(sub)
                check_gym_space(
                    got, {k: bounds[k] for k in perm[:r]}, ('conversion', shape, r)
                )
                # the inputs are not modified and keep their order
                ok(list(sub.keys()) == perm[:r], 'input dict reordered')
                for k, (lo, hi) in snapshot.items():
                    ok(np.array_equal(sub[k].lower_bound, lo), 'input modified')
                    ok(np.array_equal(sub[k].upper_bound, hi), 'input modified')
                # a fresh gym space object every time
                ok(gg.outer_space_to_gym_space(sub) is not got, 'space reused')
                cases += 1
    return cases


def check_constructor_combinations():
    for env_id in ['GV-Empty-4x4-v0', 'GV-Keydoor-5x5-v0', 'GV-Teleport-7x7-v0']:
        for with_state in (False, True):
            for with_observation in (False, True):
                env = make_direct(env_id, with_state, with_observation)
                ref = make_reference(env_id)
                what = (env_id, with_state, with_observation)
                ok(env.action_space.n == len(expected_actions(env_id)), what)
                if with_state:
                    check_gym_space(
                        env.state_space,
                        ref_state_bounds(ref.state_space, 'default'),
                        what,
                    )
                else:
                    ok(env.state_space is None, what, 'state space')
                if with_observation:
                    check_gym_space(
                        env.observation_space,
                        ref_observation_bounds(ref.observation_space, 'default'),
                        what,
                    )
                else:
                    ok(env.observation_space is None, what, 'observation space')
                ok(env._state_viewer is None, what)
                ok(env._observation_viewer is None, what)

                # representations can be installed later, whatever was there
                env.outer_env.inner_env.set_seed(5)
                ref.set_seed(5)
                if not with_observation:
                    try:
                        env.reset()
                    except RuntimeError:
                        pass
                    else:
                        ok(False, what, 'reset without observation repr')
                    ref.reset()
                for name in NAMES:
                    env.set_observation_representation(name)
                    env.set_state_representation(name)
                    check_gym_space(
                        env.observation_space,
                        ref_observation_bounds(ref.observation_space, name),
                        what + (name,),
                    )
                    check_gym_space(
                        env.state_space,
                        ref_state_bounds(ref.state_space, name),
                        what + (name,),
                    )
                    # the advertised space is the space of the installed
                    # representation object
                    rep = env.outer_env.observation_representation
                    ok(
                        env.observation_space
                        == gg.outer_space_to_gym_space(rep.space),
                        what,
                    )
                    rep = env.outer_env.state_representation
                    ok(
                        env.state_space == gg.outer_space_to_gym_space(rep.space),
                        what,
                    )
                    obs = env.reset()
                    ref.reset()
                    check_repr_equal(
                        obs,
                        ref_observation_repr(
                            ref.observation, ref.observation_space, name
                        ),
                        what + (name,),
                    )
                    check_repr_equal(
                        env.state,
                        ref_state_repr(ref.state, ref.state_space, name),
                        what + (name,),
                    )

                # invalid names leave everything as it was
                before = (
                    env.outer_env.state_representation,
                    env.outer_env.observation_representation,
                    env.state_space,
                    env.observation_space,
                )
                for bad in ['', 'Default', 'compact ', 'no_overlap', None, 3]:
                    for setter in (
                        env.set_state_representation,
                        env.set_observation_representation,
                    ):
                        try:
                            setter(bad)
                        except ValueError as e:
                            ok(str(e) == f'invalid name {bad}', what, str(e))
                        else:
                            ok(False, what, 'invalid name accepted', bad)
                after = (
                    env.outer_env.state_representation,
                    env.outer_env.observation_representation,
                    env.state_space,
                    env.observation_space,
                )
                ok(all(a is b for a, b in zip(before, after)), what, 'changed')


def check_state_wrapper():
    for env_id in gg.env_ids:
        for seed in (0, 11):
            rnd = random.Random(seed * 977 + len(env_id))
            env = make_direct(env_id)
            wrapped = gg.GymStateWrapper(env)
            ref = make_reference(env_id)
            actions = expected_actions(env_id)
            ok(wrapped.observation_space is env.state_space, env_id, 'wrapper space')
            ok(wrapped.action_space is env.action_space, env_id)
            env.outer_env.inner_env.set_seed(seed)
            ref.set_seed(seed)
            name = 'default'

            def do_reset():
                got = wrapped.reset()
                ref.reset()
                ref.observation  # same evaluation order as the adapter
                check_repr_equal(
                    got,
                    ref_state_repr(ref.state, ref.state_space, name),
                    (env_id, seed, 'wrapper reset'),
                )
                ok(wrapped.observation_space.contains(got), env_id, 'wrapper reset')

            do_reset()
            for t in range(20):
                i = rnd.randrange(len(actions))
                got, reward, done, info = wrapped.step(i)
                ref_reward, ref_done = ref.step(actions[i])
                what = (env_id, seed, t, 'wrapper step')
                ok(reward == ref_reward and done == ref_done, what)
                ok(list(info.keys()) == ['observation'], what, 'info keys')
                check_repr_equal(
                    info['observation'],
                    ref_observation_repr(
                        ref.observation, ref.observation_space, 'default'
                    ),
                    what,
                )
                check_repr_equal(
                    got, ref_state_repr(ref.state, ref.state_space, name), what
                )
                ok(wrapped.observation_space.contains(got), what, 'outside space')
                ok(env.observation_space.contains(info['observation']), what)
                if done:
                    do_reset()


# --------------------------------------------------------------------------
# focus of variant B: representation factories and OuterEnv views
# --------------------------------------------------------------------------

STATE_GO_CLASS = {
    'default': 'DefaultGridObjectStateRepresentation',
    'no-overlap': 'NoOverlapGridObjectStateRepresentation',
    'compact': 'CompactGridObjectStateRepresentation',
}
OBS_GO_CLASS = {
    'default': 'DefaultGridObjectObservationRepresentation',
    'no-overlap': 'NoOverlapGridObjectObservationRepresentation',
    'compact': 'CompactGridObjectObservationRepresentation',
}


class SpyName:
    """compares equal to exactly one string and records every comparison"""

    def __init__(self, target):
        self.target = target
        self.seen = []

    def __eq__(self, other):
        self.seen.append(other)
        return other == self.target

    def __hash__(self):  # pragma: no cover
        raise TypeError('unhashable on purpose')

    def __str__(self):
        return f'<spy {self.target}>'

    __repr__ = __str__


class StrSub(str):
    pass


SPACE_TYPE_OF_KEY = {
    'grid': SpaceType.CATEGORICAL,
    'item': SpaceType.CATEGORICAL,
    'agent_id_grid': SpaceType.DISCRETE,
    'agent': SpaceType.CONTINUOUS,
}


def check_space_object(space, low, high, dtype, what):
    ok(type(space) is Space, what, 'not a Space')
    want_type = SPACE_TYPE_OF_KEY[what[-1]]
    ok(space.space_type is want_type, what, 'space type', space.space_type)
    ok(space.lower_bound.dtype.kind == np.dtype(dtype).kind, what, 'low kind')
    ok(space.upper_bound.dtype.kind == np.dtype(dtype).kind, what, 'high kind')
    ok(np.array_equal(space.lower_bound, low), what, 'low')
    ok(np.array_equal(space.upper_bound, high), what, 'high')


def check_factories():
    order = ['default', 'no-overlap', 'compact']
    for env_id in gg.env_ids:
        ref = make_reference(env_id)
        other = make_reference(env_id)
        ref.set_seed(99)
        states, observations = [], []
        rnd = random.Random(len(env_id))
        actions = expected_actions(env_id)
        ref.reset()
        for _ in range(6):
            states.append(ref.state)
            observations.append(ref.observation)
            _, done = ref.step(actions[rnd.randrange(len(actions))])
            if done:
                ref.reset()

        state_space, obs_space = ref.state_space, ref.observation_space

        for name in order + [StrSub('compact'), SpyName('no-overlap')]:
            if isinstance(name, SpyName):
                plain = name.target
            else:
                plain = str(name)
            what = (env_id, 'state factory', plain)

            # ---- state
            if isinstance(name, SpyName):
                name.seen.clear()
            rep = make_state_representation(name, state_space)
            if isinstance(name, SpyName):
                ok(
                    name.seen == order[: order.index(plain) + 1],
                    what,
                    'comparison sequence',
                    name.seen,
                )
            ok(type(rep).__name__ == 'DictStateRepresentation', what, type(rep))
            ok(rep.state_space is state_space, what, 'state space identity')
            ok(
                list(rep.representations.keys())
                == ['grid', 'agent_id_grid', 'agent', 'item'],
                what,
                'keys',
            )
            parts = rep.representations
            ok(type(parts['grid']).__name__ == 'GridStateRepresentation', what)
            ok(
                type(parts['agent_id_grid']).__name__
                == 'AgentIDGridStateRepresentation',
                what,
            )
            ok(type(parts['agent']).__name__ == 'AgentStateRepresentation', what)
            ok(type(parts['item']).__name__ == 'ItemStateRepresentation', what)
            for part in parts.values():
                ok(part.state_space is state_space, what, 'part space identity')
            go = parts['grid'].grid_object_representation
            ok(go is parts['item'].grid_object_representation, what, 'aliasing')
            ok(type(go).__name__ == STATE_GO_CLASS[plain], what, type(go))
            ok(go.state_space is state_space, what)
            ok(len({id(p) for p in parts.values()} | {id(go), id(rep)}) == 6, what)
            again = make_state_representation(name, state_space)
            ok(again is not rep, what, 'factory returned a cached object')
            ok(
                again.representations['grid'].grid_object_representation
                is not go,
                what,
                'grid-object representation shared between calls',
            )
            bounds = ref_state_bounds(state_space, plain)
            space = rep.space
            ok(list(space.keys()) == list(bounds.keys()), what, 'space keys')
            for key, (low, high, dtype) in bounds.items():
                check_space_object(space[key], low, high, dtype, what + (key,))
            for state in states:
                check_repr_equal(
                    rep.convert(state),
                    ref_state_repr(state, state_space, plain),
                    what,
                )
                for key, sub in space.items():
                    ok(sub.contains(rep.convert(state)[key]), what, key)
            # a representation built for another (equal) space object keeps
            # pointing at *that* object
            rep2 = make_state_representation(name, other.state_space)
            ok(rep2.state_space is other.state_space, what)

            # ---- observation
            what = (env_id, 'observation factory', plain)
            if isinstance(name, SpyName):
                name.seen.clear()
            rep = make_observation_representation(name, obs_space)
            if isinstance(name, SpyName):
                ok(
                    name.seen == order[: order.index(plain) + 1],
                    what,
                    'comparison sequence',
                    name.seen,
                )
            ok(
                type(rep).__name__ == 'DictObservationRepresentation',
                what,
                type(rep),
            )
            ok(rep.observation_space is obs_space, what, 'space identity')
            ok(
                list(rep.representations.keys())
                == ['grid', 'agent_id_grid', 'item'],
                what,
                'keys',
            )
            parts = rep.representations
            ok(
                type(parts['grid']).__name__ == 'GridObservationRepresentation',
                what,
            )
            ok(
                type(parts['agent_id_grid']).__name__
                == 'AgentIDGridObservationRepresentation',
                what,
            )
            ok(
                type(parts['item']).__name__ == 'ItemObservationRepresentation',
                what,
            )
            for part in parts.values():
                ok(part.observation_space is obs_space, what, 'part identity')
            go = parts['grid'].grid_object_representation
            ok(go is parts['item'].grid_object_representation, what, 'aliasing')
            ok(type(go).__name__ == OBS_GO_CLASS[plain], what, type(go))
            ok(go.observation_space is obs_space, what)
            ok(len({id(p) for p in parts.values()} | {id(go), id(rep)}) == 5, what)
            again = make_observation_representation(name, obs_space)
            ok(again is not rep, what, 'factory returned a cached object')
            ok(
                again.representations['grid'].grid_object_representation
                is not go,
                what,
            )
            bounds = ref_observation_bounds(obs_space, plain)
            space = rep.space
            ok(list(space.keys()) == list(bounds.keys()), what, 'space keys')
            for key, (low, high, dtype) in bounds.items():
                check_space_object(space[key], low, high, dtype, what + (key,))
            for observation in observations:
                check_repr_equal(
                    rep.convert(observation),
                    ref_observation_repr(observation, obs_space, plain),
                    what,
                )
                for key, sub in space.items():
                    ok(sub.contains(rep.convert(observation)[key]), what, key)

        # ---- invalid names (including unhashable and non-string ones)
        bad_names = [
            '',
            'Default',
            'DEFAULT',
            ' default',
            'compact ',
            'no_overlap',
            'nooverlap',
            None,
            0,
            3.5,
            b'default',
            ['default'],
            ('compact',),
            {'default'},
            {'no-overlap': 1},
            SpyName('something else'),
        ]
        for bad in bad_names:
            for maker, space in (
                (make_state_representation, state_space),
                (make_observation_representation, obs_space),
            ):
                if isinstance(bad, SpyName):
                    bad.seen.clear()
                try:
                    maker(bad, space)
                except ValueError as e:
                    ok(str(e) == f'invalid name {bad}', env_id, 'message', str(e))
                    ok(e.__cause__ is None, env_id, 'chained cause')
                    ok(e.__context__ is None, env_id, 'chained context')
                else:
                    ok(False, env_id, 'invalid name accepted', bad)
                if isinstance(bad, SpyName):
                    ok(bad.seen == order, env_id, 'comparisons', bad.seen)


def check_outer_env_views():
    for env_id in gg.env_ids:
        ref = make_reference(env_id)
        inner = make_reference(env_id)
        calls = {'n': 0}
        original = inner.functional_observation

        def counting(state, _original=original):
            calls['n'] += 1
            return _original(state)

        inner.functional_observation = counting

        state_rep = make_state_representation('compact', inner.state_space)
        obs_rep = make_observation_representation(
            'no-overlap', inner.observation_space
        )
        variants = {
            'none': OuterEnv(inner),
            'state': OuterEnv(inner, state_representation=state_rep),
            'obs': OuterEnv(inner, observation_representation=obs_rep),
            'both': OuterEnv(
                inner,
                state_representation=state_rep,
                observation_representation=obs_rep,
            ),
        }

        def expect_error(fn, message, what):
            try:
                fn()
            except RuntimeError as e:
                ok(str(e) == message, env_id, what, str(e))
                ok(type(e) is RuntimeError, env_id, what)
            else:
                ok(False, env_id, what, 'no error')

        no_state = 'State representation not available'
        no_obs = 'Observation representation not available'
        not_reset = 'The state was not set properly;  was the environment reset?'

        # before any reset: missing representation wins over missing state
        for key, outer in variants.items():
            ok(outer.inner_env is inner, env_id)
            ok(outer.action_space is inner.action_space, env_id)
            expect_error(
                lambda: outer.state,
                not_reset if key in ('state', 'both') else no_state,
                (key, 'state before reset'),
            )
            expect_error(
                lambda: outer.observation,
                not_reset if key in ('obs', 'both') else no_obs,
                (key, 'observation before reset'),
            )
        ok(calls['n'] == 0, env_id, 'observation generated before reset')

        inner.set_seed(4)
        ref.set_seed(4)
        actions = expected_actions(env_id)
        rnd = random.Random(4 + len(env_id))
        variants['both'].reset()
        ref.reset()
        for t in range(12):
            before = calls['n']
            # views without the representation fail and generate nothing
            expect_error(lambda: variants['none'].state, no_state, t)
            expect_error(lambda: variants['none'].observation, no_obs, t)
            expect_error(lambda: variants['obs'].state, no_state, t)
            expect_error(lambda: variants['state'].observation, no_obs, t)
            ok(calls['n'] == before, env_id, t, 'observation generated on error')

            want_state = ref_state_repr(ref.state, ref.state_space, 'compact')
            check_repr_equal(variants['state'].state, want_state, (env_id, t))
            check_repr_equal(variants['both'].state, want_state, (env_id, t))
            ok(calls['n'] == before, env_id, t, 'state view generated observation')

            want_obs = ref_observation_repr(
                ref.observation, ref.observation_space, 'no-overlap'
            )
            check_repr_equal(variants['obs'].observation, want_obs, (env_id, t))
            ok(calls['n'] == before + 1, env_id, t, 'observations generated')
            check_repr_equal(variants['both'].observation, want_obs, (env_id, t))
            check_repr_equal(variants['obs'].observation, want_obs, (env_id, t))
            ok(calls['n'] == before + 1, env_id, t, 'observation not memoized')
            # fresh arrays on every access
            a = variants['both'].observation
            b = variants['both'].observation
            ok(all(a[k] is not b[k] for k in a), env_id, t, 'arrays reused')

            # representations can be swapped by plain attribute assignment
            variants['none'].state_representation = state_rep
            check_repr_equal(variants['none'].state, want_state, (env_id, t))
            variants['none'].state_representation = None
            variants['none'].observation_representation = obs_rep
            check_repr_equal(variants['none'].observation, want_obs, (env_id, t))
            variants['none'].observation_representation = None

            i = rnd.randrange(len(actions))
            got = variants[rnd.choice(sorted(variants))].step(actions[i])
            want = ref.step(actions[i])
            ok(got == want, env_id, t, 'step result', got, want)
            if want[1]:
                variants['none'].reset()
                ref.reset()


def main():
    ok(gg.env_ids == list(gg.STRING_TO_YAML_FILE.keys()), 'env ids')
    ok(len(gg.env_ids) == 21, 'number of shipped configurations')

    n = check_outer_space_to_gym_space()
    print('space conversion cases:', n)

    check_constructor_combinations()
    print('constructor / switching combinations done')

    check_factories()
    print('representation factories done')

    check_outer_env_views()
    print('outer env views done')

    for env_id in gg.env_ids:
        for mode in ('direct', 'registered'):
            for seed in (0, 1, 7, 12345):
                run_lockstep(env_id, mode, seed, steps=24, switch_every=5)
            run_lockstep(env_id, mode, 3, steps=30, switch_every=0)
    print('lockstep runs done')

    check_state_wrapper()
    print('state wrapper done')

    print('checks:', CHECKS)
    print('OK')


if __name__ == '__main__':
    main()
