"""Demo for C06 (hidden cells carry no information).

Self-contained: it embeds reference implementations of the three occluding
visibility functions (the recursive two-sided flood of `partially_occluded`,
the ray counting of `raytracing` and `stochastic_raytracing`) and checks that

1. the library functions return exactly the reference arrays (values, shape,
   dtype; exceptions too) on a broad set of grids, positions and parameters,
   including exhaustive opacity patterns of small views;
2. the structural part of the property holds (agent cell visible, chain of
   adjacent transparent visible cells, monotonicity, stochastic bounds);
3. observations are unchanged when the content of a hidden / out-of-view world
   cell is replaced (all headings, borders and corners, asymmetric areas).

Run from the worktree root:  /venv/bin/python _seed/B/demo.py
Exits 0 when everything holds.
"""
import copy
import itertools
import sys
import warnings

import numpy as np

sys.path.insert(0, '.')

from gym_gridverse import rng as gv_rng  # noqa: E402
from gym_gridverse.agent import Agent  # noqa: E402
from gym_gridverse.envs import observation_functions as of  # noqa: E402
from gym_gridverse.envs import visibility_functions as vf  # noqa: E402
from gym_gridverse.geometry import Area, Orientation, Position  # noqa: E402
from gym_gridverse.grid import Grid  # noqa: E402
from gym_gridverse.grid_object import (  # noqa: E402
    Beacon,
    Color,
    Door,
    Exit,
    Floor,
    Hidden,
    Key,
    Wall,
)
from gym_gridverse.state import State  # noqa: E402
from gym_gridverse.utils.raytracing import compute_rays_fancy  # noqa: E402

CHECKS = 0


def check(condition, message):
    global CHECKS
    CHECKS += 1
    if not condition:
        print('FAILED:', message)
        sys.exit(1)


# --------------------------------------------------------------------------
# reference implementations (verbatim semantics of the pristine tree)
# --------------------------------------------------------------------------


def _ref_make_visible(visibility, grid, position, next_positions):
    if grid.area.contains(position) and not visibility[position.y, position.x]:
        visibility[position.y, position.x] = True
        if not grid[position].blocks_vision:
            for next_position in next_positions(position):
                _ref_make_visible(visibility, grid, next_position, next_positions)


def _ref_front_left(position):
    return [
        Position(position.y - 1, position.x),
        Position(position.y, position.x - 1),
        Position(position.y - 1, position.x - 1),
    ]


def _ref_front_right(position):
    return [
        Position(position.y - 1, position.x),
        Position(position.y, position.x + 1),
        Position(position.y - 1, position.x + 1),
    ]


def ref_partially_occluded(grid, position, *, rng=None):
    if position.y != grid.shape.height - 1:
        raise NotImplementedError
    left = np.zeros((grid.shape.height, grid.shape.width), dtype=bool)
    _ref_make_visible(left, grid, position, _ref_front_left)
    right = np.zeros((grid.shape.height, grid.shape.width), dtype=bool)
    _ref_make_visible(right, grid, position, _ref_front_right)
    return left | right


_RAYS = {}


def _ref_rays(position, area):
    key = (position, area)
    if key not in _RAYS:
        _RAYS[key] = compute_rays_fancy(position, area)
    return _RAYS[key]


def ref_counts(grid, position):
    rays = _ref_rays(position, grid.area)
    counts_num = np.zeros((grid.shape.height, grid.shape.width), dtype=int)
    counts_den = np.zeros((grid.shape.height, grid.shape.width), dtype=int)
    for ray in rays:
        light = True
        for pos in ray:
            counts_num[pos.y, pos.x] += int(light)
            counts_den[pos.y, pos.x] += 1
            light = light and not grid[pos].blocks_vision
    return counts_num, counts_den


def ref_raytracing(
    grid, position, *, absolute_counts=True, threshold=1, rng=None
):
    counts_num, counts_den = ref_counts(grid, position)
    return (
        counts_num >= threshold
        if absolute_counts
        else (counts_num / counts_den) >= threshold
    )


def ref_stochastic_raytracing(grid, position, *, rng=None):
    rng = gv_rng.get_gv_rng_if_none(rng)
    counts_num, counts_den = ref_counts(grid, position)
    probs = np.nan_to_num(counts_num / counts_den)
    return rng.random(probs.shape) < probs


# --------------------------------------------------------------------------
# helpers
# --------------------------------------------------------------------------

OPAQUE = [
    Wall,
    lambda: Door(Door.Status.CLOSED, Color.NONE),
    lambda: Door(Door.Status.LOCKED, Color.RED),
]
TRANSPARENT = [
    Floor,
    Floor,
    Floor,
    lambda: Door(Door.Status.OPEN, Color.NONE),
    lambda: Key(Color.NONE),
    lambda: Key(Color.BLUE),
    Exit,
    lambda: Beacon(Color.GREEN),
]


def random_grid(rng, height, width, density, *, with_hidden=False):
    opaque = OPAQUE + ([Hidden] if with_hidden else [])
    objects = []
    for _ in range(height):
        row = []
        for _ in range(width):
            palette = opaque if rng.random() < density else TRANSPARENT
            row.append(palette[rng.integers(len(palette))]())
        objects.append(row)
    return Grid(objects)


def pattern_grid(height, width, bits):
    return Grid(
        [
            [Wall() if bits[y * width + x] else Floor() for x in range(width)]
            for y in range(height)
        ]
    )


def same_array(a, b):
    return (
        isinstance(a, np.ndarray)
        and a.shape == b.shape
        and a.dtype == b.dtype
        and bool(np.array_equal(a, b))
    )


def outcome(function, *args, **kwargs):
    """result or exception type, with numpy warnings silenced"""
    with warnings.catch_warnings():
        warnings.simplefilter('ignore')
        try:
            return 'ok', function(*args, **kwargs)
        except Exception as error:  # pylint: disable=broad-except
            return 'raise', type(error)


def same_outcome(a, b):
    if a[0] != b[0]:
        return False
    if a[0] == 'raise':
        return a[1] is b[1]
    if isinstance(b[1], np.ndarray):
        return same_array(a[1], b[1])
    return a[1] == b[1]


def linked(grid, position, visibility):
    """cells linked to the agent by a chain of adjacent transparent visible cells"""
    height, width = visibility.shape
    reached = np.zeros_like(visibility)
    reached[position.y, position.x] = True
    frontier = [(position.y, position.x)]
    while frontier:
        y, x = frontier.pop()
        if grid[y, x].blocks_vision:
            continue
        for dy, dx in itertools.product((-1, 0, 1), repeat=2):
            ny, nx = y + dy, x + dx
            if (
                0 <= ny < height
                and 0 <= nx < width
                and visibility[ny, nx]
                and not reached[ny, nx]
            ):
                reached[ny, nx] = True
                frontier.append((ny, nx))
    return reached


def check_structure(name, function, grid, position, visibility):
    """agent visible, chain condition, monotonicity"""
    check(visibility[position.y, position.x], f'{name}: agent cell hidden')
    reached = linked(grid, position, visibility)
    check(
        not (visibility & ~reached).any(),
        f'{name}: visible cell without chain\n{grid}\n{position}',
    )
    for y, x in zip(*np.nonzero(visibility)):
        y, x = int(y), int(x)
        if not grid[y, x].blocks_vision:
            continue
        objects = [list(row) for row in grid.objects]
        objects[y][x] = Floor()
        opened = function(Grid(objects), position)
        check(
            not (visibility & ~opened).any(),
            f'{name}: opening {(y, x)} hid a cell\n{grid}\n{position}',
        )


# --------------------------------------------------------------------------
# part 1: visibility functions against the references
# --------------------------------------------------------------------------

SHAPES = [
    (1, 1),
    (1, 4),
    (4, 1),
    (2, 3),
    (3, 2),
    (3, 3),
    (5, 7),
    (7, 5),
    (7, 7),
    (4, 9),
]
RAYTRACING_PARAMETERS = [
    {},
    {'absolute_counts': True, 'threshold': 1},
    {'absolute_counts': True, 'threshold': 2},
    {'absolute_counts': True, 'threshold': 5},
    {'absolute_counts': True, 'threshold': 0},
    {'absolute_counts': False, 'threshold': 0.5},
    {'absolute_counts': False, 'threshold': 1.0},
    {'absolute_counts': False, 'threshold': 1},
]


def part_visibility_functions():
    rng = np.random.default_rng(606)
    for (height, width), density in itertools.product(
        SHAPES, [0.0, 0.15, 0.4, 0.7, 1.0]
    ):
        for _ in range(2):
            grid = random_grid(rng, height, width, density, with_hidden=True)
            pristine_objects = [list(row) for row in grid.objects]

            # partially occluded: every column of the bottom row, plus the
            # positions which are refused or lie outside the grid
            positions = [Position(height - 1, x) for x in range(-1, width + 1)]
            positions += [Position(0, 0), Position(height, 0), Position(-1, 0)]
            for position in positions:
                got = outcome(vf.partially_occluded, grid, position)
                expected = outcome(ref_partially_occluded, grid, position)
                check(
                    same_outcome(got, expected),
                    f'partially_occluded differs {grid} {position}',
                )
                if got[0] == 'ok' and grid.area.contains(position):
                    check_structure(
                        'partially_occluded',
                        vf.partially_occluded,
                        grid,
                        position,
                        got[1],
                    )

            # raytracing: every position of the grid, all parameters
            for position in grid.area.positions():
                for parameters in RAYTRACING_PARAMETERS:
                    got = outcome(vf.raytracing, grid, position, **parameters)
                    expected = outcome(
                        ref_raytracing, grid, position, **parameters
                    )
                    check(
                        same_outcome(got, expected),
                        f'raytracing differs {grid} {position} {parameters}',
                    )
                if height * width <= 35:
                    check_structure(
                        'raytracing',
                        vf.raytracing,
                        grid,
                        position,
                        vf.raytracing(grid, position),
                    )

            # positions outside of the grid are refused by the ray helper
            for position in [Position(-1, 0), Position(0, width)]:
                got = outcome(vf.raytracing, grid, position)
                check(got == ('raise', ValueError), 'raytracing outside')
                got = outcome(vf.stochastic_raytracing, grid, position)
                check(got == ('raise', ValueError), 'stochastic outside')

            # the functions never touch the grid
            check(
                all(
                    a is b
                    for row_a, row_b in zip(grid.objects, pristine_objects)
                    for a, b in zip(row_a, row_b)
                ),
                'grid modified',
            )


# --------------------------------------------------------------------------
# part 2: all opacity patterns of small views
# --------------------------------------------------------------------------


def part_exhaustive_patterns():
    for height, width in [(1, 3), (3, 1), (2, 2), (3, 3), (2, 4), (4, 3)]:
        ncells = height * width
        for bits in itertools.product((0, 1), repeat=ncells):
            grid = pattern_grid(height, width, bits)
            for x in range(width):
                position = Position(height - 1, x)
                got = vf.partially_occluded(grid, position)
                check(
                    same_array(got, ref_partially_occluded(grid, position)),
                    f'partially_occluded pattern {bits} {position}',
                )
                check_structure(
                    'partially_occluded',
                    vf.partially_occluded,
                    grid,
                    position,
                    got,
                )

            if ncells > 9:
                positions = [Position(height - 1, x) for x in range(width)]
            else:
                positions = list(grid.area.positions())
            for position in positions:
                got = vf.raytracing(grid, position)
                check(
                    same_array(got, ref_raytracing(grid, position)),
                    f'raytracing pattern {bits} {position}',
                )
                if ncells <= 9:
                    check_structure(
                        'raytracing', vf.raytracing, grid, position, got
                    )


# --------------------------------------------------------------------------
# part 3: stochastic variant (equality with the reference stream and bounds)
# --------------------------------------------------------------------------


def part_stochastic():
    rng = np.random.default_rng(66)
    for (height, width), density in itertools.product(
        [(1, 1), (1, 5), (3, 3), (5, 7), (6, 4)], [0.0, 0.3, 0.8]
    ):
        grid = random_grid(rng, height, width, density, with_hidden=True)
        for position in grid.area.positions():
            counts_num, counts_den = ref_counts(grid, position)
            can_show = counts_num >= 1
            must_show = (counts_num == counts_den) & (counts_den > 0)
            check(
                same_array(can_show, vf.raytracing(grid, position)),
                'raytracing is the upper bound',
            )
            for seed in range(6):
                with warnings.catch_warnings():
                    warnings.simplefilter('ignore')
                    got = vf.stochastic_raytracing(
                        grid, position, rng=np.random.default_rng(seed)
                    )
                    expected = ref_stochastic_raytracing(
                        grid, position, rng=np.random.default_rng(seed)
                    )
                check(same_array(got, expected), 'stochastic stream differs')
                check(not (got & ~can_show).any(), 'stochastic upper bound')
                check(not (must_show & ~got).any(), 'stochastic lower bound')

            # library generator, re-seeded: same draws, generator advanced by
            # exactly one block of samples per call
            with warnings.catch_warnings():
                warnings.simplefilter('ignore')
                gv_rng.reset_gv_rng(17)
                first = vf.stochastic_raytracing(grid, position)
                second = vf.stochastic_raytracing(grid, position)
                gv_rng.reset_gv_rng(17)
                ref_first = ref_stochastic_raytracing(grid, position)
                ref_second = ref_stochastic_raytracing(grid, position)
            check(same_array(first, ref_first), 'library rng, first call')
            check(same_array(second, ref_second), 'library rng, second call')


# --------------------------------------------------------------------------
# part 4: observations; hidden / out-of-view cells are non-interfering
# --------------------------------------------------------------------------

AREAS_BOTTOM = [
    Area((-6, 0), (-3, 3)),
    Area((-2, 0), (-1, 3)),
    Area((-3, 0), (-4, 0)),
    Area((-3, 0), (0, 0)),
    Area((0, 0), (-2, 2)),
    Area((0, 0), (0, 0)),
    Area((-1, 0), (1, 3)),  # the agent's column is not in the view
]
AREAS_OTHER = [
    Area((-2, 2), (-2, 2)),
    Area((-1, 3), (-4, 1)),
    Area((0, 2), (0, 2)),
    Area((-3, -1), (-1, 1)),  # the agent's row is not in the view
]
REPLACEMENTS = [
    Wall,
    Floor,
    lambda: Key(Color.NONE),
    lambda: Door(Door.Status.OPEN, Color.NONE),
    lambda: Door(Door.Status.CLOSED, Color.YELLOW),
]
OBSERVATION_FUNCTIONS = {
    'partially_occluded': (of.partially_occluded, ref_partially_occluded),
    'raytracing': (of.raytracing, ref_raytracing),
}


def visible_world_cells(state, area, observation):
    """world positions shown by the observation (through object identity)"""
    where = {
        id(state.grid[position]): position
        for position in state.grid.area.positions()
    }
    pov_area = state.agent.transform * area
    pov_grid = state.grid.subgrid(pov_area) * state.agent.orientation
    visible = set()
    for position in pov_grid.area.positions():
        if not isinstance(observation.grid[position], Hidden):
            check(
                observation.grid[position] is pov_grid[position],
                'visible cell is not the world object',
            )
            visible.add(where[id(pov_grid[position])])
    return visible


def part_observations():
    rng = np.random.default_rng(6)
    scenarios = 0
    for height, width in [(5, 7), (6, 4), (1, 1), (1, 6), (3, 3)]:
        grid = random_grid(rng, height, width, 0.3)
        agent_positions = {
            Position(0, 0),
            Position(0, width - 1),
            Position(height - 1, 0),
            Position(height - 1, width - 1),
            Position(height // 2, width // 2),
            Position(0, width // 2),
            Position(height // 2, 0),
        }
        for agent_position, orientation in itertools.product(
            sorted(agent_positions, key=lambda p: p.yx), Orientation
        ):
            held = Key(Color.NONE) if scenarios % 2 else None
            state = State(grid, Agent(agent_position, orientation, held))
            for area, (name, (function, reference)) in itertools.product(
                AREAS_BOTTOM + AREAS_OTHER, OBSERVATION_FUNCTIONS.items()
            ):
                scenarios += 1
                got = outcome(function, state, area=area)
                expected = outcome(
                    of.from_visibility,
                    state,
                    area=area,
                    visibility_function=reference,
                )
                check(
                    same_outcome(got, expected),
                    f'{name} observation differs {state} {area}',
                )
                # repeated call: same result (cached rays, no hidden state)
                check(
                    same_outcome(outcome(function, state, area=area), got),
                    f'{name} not repeatable',
                )
                if got[0] != 'ok':
                    continue
                observation = got[1]
                check(
                    observation.agent.position
                    == Position(-area.ymin, -area.xmin),
                    'agent position in the observation',
                )
                if observation.grid.area.contains(observation.agent.position):
                    check(
                        not isinstance(
                            observation.grid[observation.agent.position],
                            Hidden,
                        ),
                        f'{name}: own cell hidden',
                    )

                # non-interference, on a sample of the scenarios
                if scenarios % 7:
                    continue
                visible = visible_world_cells(state, area, observation)
                for position in grid.area.positions():
                    if position in visible:
                        continue
                    for replacement in REPLACEMENTS:
                        objects = [list(row) for row in grid.objects]
                        objects[position.y][position.x] = replacement()
                        other = State(Grid(objects), copy.deepcopy(state.agent))
                        check(
                            function(other, area=area) == observation,
                            f'{name}: hidden cell {position} leaks '
                            f'{state} {area}',
                        )
    return scenarios


def main():
    part_visibility_functions()
    part_exhaustive_patterns()
    part_stochastic()
    scenarios = part_observations()
    print(f'OK ({CHECKS} checks, {scenarios} observation scenarios)')


if __name__ == '__main__':
    main()
