"""Agent kinematics demo (C08): moves and turns do exactly what the action says,
and only teleportation otherwise changes the pose (drawn exactly as before).

Runs on the pristine tree and with the patch; everything is compared against a
reference implementation and hard-coded tables embedded here.
"""
import sys
import warnings

warnings.filterwarnings('ignore')
sys.path.insert(0, '.')

import copy  # noqa: E402

import numpy.random as rnd  # noqa: E402

from gym_gridverse.action import Action  # noqa: E402
from gym_gridverse.agent import Agent  # noqa: E402
from gym_gridverse.envs import reset_functions as rf  # noqa: E402
from gym_gridverse.envs import transition_functions as tf  # noqa: E402
from gym_gridverse.geometry import Orientation, Position, Shape  # noqa: E402
from gym_gridverse.grid import Grid  # noqa: E402
from gym_gridverse.grid_object import (  # noqa: E402
    Beacon,
    Box,
    Color,
    Door,
    Exit,
    Floor,
    Hidden,
    Key,
    MovingObstacle,
    NoneGridObject,
    Telepod,
    Wall,
)
from gym_gridverse.state import State  # noqa: E402

N, S, W, E = (
    Orientation.FORWARD,
    Orientation.BACKWARD,
    Orientation.LEFT,
    Orientation.RIGHT,
)

# hard-coded: absolute heading (dy, dx)
HEADING = {N: (-1, 0), S: (1, 0), W: (0, -1), E: (0, 1)}
# hard-coded: quarter turns
LEFT_OF = {N: W, W: S, S: E, E: N}
RIGHT_OF = {N: E, E: S, S: W, W: N}
BACK_OF = {N: S, S: N, W: E, E: W}


def ref_move_heading(orientation, action):
    return {
        Action.MOVE_FORWARD: orientation,
        Action.MOVE_BACKWARD: BACK_OF[orientation],
        Action.MOVE_LEFT: LEFT_OF[orientation],
        Action.MOVE_RIGHT: RIGHT_OF[orientation],
    }[action]


# hard-coded: which objects block movement
def object_table():
    table = [
        (NoneGridObject(), False),
        (Hidden(), False),
        (Floor(), False),
        (Wall(), True),
        (MovingObstacle(), False),
        (Box(Floor()), True),
        (Box(Key(Color.RED)), True),
        (Box(Box(Floor())), True),
    ]
    for color in Color:
        table += [
            (Exit(color), False),
            (Key(color), False),
            (Telepod(color), False),
            (Beacon(color), False),
            (Door(Door.Status.OPEN, color), False),
            (Door(Door.Status.CLOSED, color), True),
            (Door(Door.Status.LOCKED, color), True),
        ]
    return table


def ref_step(grid_blocks, height, width, y, x, orientation, action):
    """reference kinematics;  grid_blocks[y][x] -> bool"""
    if action in (Action.TURN_LEFT,):
        return y, x, LEFT_OF[orientation]
    if action in (Action.TURN_RIGHT,):
        return y, x, RIGHT_OF[orientation]
    if action in (
        Action.MOVE_FORWARD,
        Action.MOVE_BACKWARD,
        Action.MOVE_LEFT,
        Action.MOVE_RIGHT,
    ):
        dy, dx = HEADING[ref_move_heading(orientation, action)]
        ny, nx = y + dy, x + dx
        if 0 <= ny < height and 0 <= nx < width and not grid_blocks[ny][nx]:
            return ny, nx, orientation
    return y, x, orientation


def snapshot(grid):
    return [
        [grid[y, x] for x in range(grid.shape.width)]
        for y in range(grid.shape.height)
    ]


def same_objects(snap, grid):
    return all(
        snap[y][x] is grid[y, x]
        for y in range(grid.shape.height)
        for x in range(grid.shape.width)
    )


SHAPES = [(1, 1), (1, 4), (3, 1), (2, 3), (4, 5)]

checked = 0


def check_exhaustive():
    global checked
    for height, width in SHAPES:
        for obj, blocks in object_table():
            assert obj.blocks_movement is blocks, obj
            for y in range(height):
                for x in range(width):
                    # every cell but the agent's holds `obj`;  also a variant
                    # where only the 4-neighbours hold it and the rest is Floor
                    # (so that a wrapped-around negative index would find Floor)
                    for only_neighbours in (False, True):
                        objects = [
                            [
                                copy.deepcopy(obj)
                                if (yy, xx) != (y, x)
                                and (
                                    not only_neighbours
                                    or abs(yy - y) + abs(xx - x) == 1
                                )
                                else Floor()
                                for xx in range(width)
                            ]
                            for yy in range(height)
                        ]
                        grid_blocks = [
                            [o.blocks_movement for o in row] for row in objects
                        ]
                        for orientation in Orientation:
                            for action in Action:
                                grid = Grid(
                                    [list(row) for row in objects]
                                )
                                assert grid.shape == Shape(height, width)
                                held = Key(Color.BLUE)
                                state = State(
                                    grid,
                                    Agent(Position(y, x), orientation, held),
                                )
                                snap = snapshot(grid)
                                expected = ref_step(
                                    grid_blocks,
                                    height,
                                    width,
                                    y,
                                    x,
                                    orientation,
                                    action,
                                )

                                # move_agent alone: turns / others do nothing
                                r = tf.move_agent(state, action)
                                assert r is None
                                if action.is_move():
                                    got = (
                                        state.agent.position.y,
                                        state.agent.position.x,
                                        state.agent.orientation,
                                    )
                                    assert got == expected, (
                                        (height, width),
                                        obj,
                                        (y, x),
                                        orientation,
                                        action,
                                        got,
                                        expected,
                                    )
                                    # exactly one cell or nothing
                                    d = abs(got[0] - y) + abs(got[1] - x)
                                    assert d in (0, 1)
                                    moved = d == 1
                                    dy, dx = HEADING[
                                        ref_move_heading(orientation, action)
                                    ]
                                    inside = (
                                        0 <= y + dy < height
                                        and 0 <= x + dx < width
                                    )
                                    assert moved == (
                                        inside
                                        and not grid_blocks[y + dy][x + dx]
                                    )
                                else:
                                    assert state.agent.position == Position(
                                        y, x
                                    )
                                    assert (
                                        state.agent.orientation is orientation
                                    )
                                # then turn_agent: moves do nothing
                                r = tf.turn_agent(state, action)
                                assert r is None
                                got = (
                                    state.agent.position.y,
                                    state.agent.position.x,
                                    state.agent.orientation,
                                )
                                assert got == expected, (action, got, expected)

                                # never off-grid, never on a blocking cell
                                assert grid.area.contains(state.agent.position)
                                assert not grid[
                                    state.agent.position
                                ].blocks_movement
                                # grid and held object untouched
                                assert same_objects(snap, grid)
                                assert state.agent.grid_object is held
                                checked += 1


def check_turn_algebra():
    grid = Grid.from_shape((3, 5))
    for y in range(3):
        for x in range(5):
            for orientation in Orientation:
                state = State(grid, Agent(Position(y, x), orientation))
                tf.turn_agent(state, Action.TURN_LEFT)
                assert state.agent.orientation is LEFT_OF[orientation]
                tf.turn_agent(state, Action.TURN_RIGHT)
                assert state.agent.orientation is orientation
                for action in (Action.TURN_LEFT, Action.TURN_RIGHT):
                    seen = []
                    for _ in range(4):
                        tf.turn_agent(state, action)
                        seen.append(state.agent.orientation)
                    assert state.agent.orientation is orientation
                    assert len(set(seen)) == 4
                assert state.agent.position == Position(y, x)


def check_helper_if_present():
    """If the tree offers `is_walkable`, it must answer like the reference."""
    from gym_gridverse.envs import utils

    is_walkable = getattr(utils, 'is_walkable', None)
    if is_walkable is None:
        return
    for height, width in SHAPES:
        for obj, blocks in object_table():
            grid = Grid(
                [
                    [copy.deepcopy(obj) for _ in range(width)]
                    for _ in range(height)
                ]
            )
            for y in range(-3, height + 3):
                for x in range(-3, width + 3):
                    inside = 0 <= y < height and 0 <= x < width
                    answer = is_walkable(grid, Position(y, x))
                    assert answer is (inside and not blocks), (obj, y, x)


def make_resets():
    return {
        'empty': lambda rng: rf.empty(Shape(4, 7), True, True, rng=rng),
        'rooms': lambda rng: rf.rooms(Shape(9, 13), (2, 3), rng=rng),
        'dynamic_obstacles': lambda rng: rf.dynamic_obstacles(
            Shape(6, 9), 5, True, rng=rng
        ),
        'keydoor': lambda rng: rf.keydoor(Shape(5, 8), rng=rng),
        'crossing_wall': lambda rng: rf.crossing(Shape(7, 9), 2, Wall, rng=rng),
        'teleport': lambda rng: rf.teleport(Shape(6, 9), rng=rng),
        'memory': lambda rng: rf.memory(
            Shape(6, 7), {Color.RED, Color.GREEN}, rng=rng
        ),
        'memory_rooms': lambda rng: rf.memory_rooms(
            Shape(9, 13),
            (2, 3),
            {Color.RED, Color.GREEN, Color.BLUE},
            2,
            2,
            rng=rng,
        ),
    }


FUNCTIONS = [
    tf.move_agent,
    tf.turn_agent,
    tf.pickndrop,
    tf.actuate_door,
    tf.actuate_box,
]


def rollout(name, reset, seed, steps=150):
    rng = rnd.default_rng(seed)
    state = reset(rng)
    actions = list(Action)
    trace = []
    for _ in range(steps):
        action = actions[rng.integers(len(actions))]
        grid = state.grid
        height, width = grid.shape.height, grid.shape.width
        blocks = [
            [grid[y, x].blocks_movement for x in range(width)]
            for y in range(height)
        ]
        expected = ref_step(
            blocks,
            height,
            width,
            state.agent.position.y,
            state.agent.position.x,
            state.agent.orientation,
            action,
        )
        for function in FUNCTIONS:
            function(state, action, rng=rng)
        got = (
            state.agent.position.y,
            state.agent.position.x,
            state.agent.orientation,
        )
        assert got == expected, (name, seed, action, got, expected)
        # only then the functions which may legitimately change the pose/grid
        before = state.agent.position
        tf.teleport(state, action, rng=rng)
        if state.agent.position != before:
            assert isinstance(grid[before], Telepod)
            assert isinstance(grid[state.agent.position], Telepod)
            assert grid[before].color == grid[state.agent.position].color
        pose = (state.agent.position, state.agent.orientation)
        tf.move_obstacles(state, action, rng=rng)
        assert pose == (state.agent.position, state.agent.orientation)

        assert grid.area.contains(state.agent.position), (name, seed)
        assert not grid[state.agent.position].blocks_movement, (name, seed)
        trace.append(
            (
                state.agent.position.y,
                state.agent.position.x,
                state.agent.orientation,
            )
        )
    return trace, state


def check_rollouts():
    resets = make_resets()
    for name, reset in resets.items():
        for seed in range(6):
            trace1, state1 = rollout(name, reset, seed)
            # re-seeding reproduces the very same history
            trace2, state2 = rollout(name, reset, seed)
            assert trace1 == trace2, (name, seed)
            assert state1 == state2, (name, seed)



# ---- reference implementations of the drawing transition functions ----


def ref_teleport(state, rng):
    here = state.agent.position
    telepod = state.grid[here]
    if not isinstance(telepod, Telepod):
        return
    height, width = state.grid.shape.height, state.grid.shape.width
    positions = [
        Position(y, x)
        for y in range(height)
        for x in range(width)
        if (y, x) != (here.y, here.x)
        and isinstance(state.grid[y, x], Telepod)
        and state.grid[y, x].color == telepod.color
    ]
    if len(positions) == 0:
        return  # nothing drawn
    i = rng.choice(len(positions))
    state.agent.position = positions[i]


def ref_move_obstacles(state, rng):
    grid = state.grid
    height, width = grid.shape.height, grid.shape.width
    positions = [
        Position(y, x)
        for y in range(height)
        for x in range(width)
        if isinstance(grid[y, x], MovingObstacle)
    ]
    for position in positions:
        from gym_gridverse.geometry import get_manhattan_boundary

        candidates = [
            p
            for p in get_manhattan_boundary(position, distance=1)
            if 0 <= p.y < height
            and 0 <= p.x < width
            and isinstance(grid[p], Floor)
        ]
        if len(candidates) == 0:
            continue  # nothing drawn
        i = rng.choice(len(candidates))
        a, b = grid[position], grid[candidates[i]]
        grid[position], grid[candidates[i]] = b, a


def rng_state(rng):
    return repr(rng.bit_generator.state)


def telepod_grids():
    R, G, NONE = Color.RED, Color.GREEN, Color.NONE
    layouts = []
    # (height, width, {(y, x): color})
    layouts.append((1, 1, {(0, 0): R}))  # lonely telepod, nothing to draw
    layouts.append((1, 4, {(0, 0): R, (0, 3): R}))
    layouts.append((3, 1, {(0, 0): NONE, (2, 0): NONE}))
    layouts.append((2, 3, {(0, 0): R, (1, 2): G}))  # no same-colour partner
    layouts.append((4, 7, {(0, 0): R, (3, 6): R, (0, 6): R, (3, 0): G, (2, 3): G}))
    layouts.append((5, 3, {(0, 0): NONE, (4, 2): NONE, (2, 1): R, (4, 0): NONE, (0, 2): NONE}))
    layouts.append((3, 4, {}))  # no telepods at all
    return layouts


def check_teleport():
    n_moved = n_stay = 0
    for height, width, telepods in telepod_grids():
        for y in range(height):
            for x in range(width):
                for orientation in Orientation:
                    for seed in range(8):
                        def build():
                            grid = Grid.from_shape((height, width))
                            for (ty, tx), color in telepods.items():
                                grid[ty, tx] = Telepod(color)
                            return State(
                                grid, Agent(Position(y, x), orientation)
                            )

                        s1, s2 = build(), build()
                        r1, r2 = rnd.default_rng(seed), rnd.default_rng(seed)
                        # repeated calls on the same state / generator
                        for _ in range(3):
                            action = list(Action)[seed % len(Action)]
                            before = s1.agent.position
                            assert tf.teleport(s1, action, rng=r1) is None
                            ref_teleport(s2, r2)
                            assert s1 == s2
                            assert s1.agent.position == s2.agent.position
                            assert s1.agent.orientation is orientation
                            assert rng_state(r1) == rng_state(r2)
                            after = s1.agent.position
                            assert s1.grid.area.contains(after)
                            assert not s1.grid[after].blocks_movement
                            if after != before:
                                n_moved += 1
                                assert (before.y, before.x) in telepods
                                assert (after.y, after.x) in telepods
                                assert (
                                    telepods[before.y, before.x]
                                    == telepods[after.y, after.x]
                                )
                            else:
                                n_stay += 1
                                partners = [
                                    k
                                    for k, c in telepods.items()
                                    if k != (before.y, before.x)
                                    and (before.y, before.x) in telepods
                                    and c == telepods[before.y, before.x]
                                ]
                                # staying is only possible without partner
                                assert not partners
    assert n_moved > 0 and n_stay > 0
    return n_moved, n_stay


def check_move_obstacles():
    layouts = [
        # (height, width, obstacles, walls)
        (1, 1, [(0, 0)], []),  # nowhere to go: nothing drawn
        (1, 4, [(0, 1)], []),
        (3, 1, [(0, 0), (2, 0)], []),
        (2, 3, [(0, 0), (0, 1), (1, 0)], []),  # crowded corner
        (4, 7, [(1, 1), (2, 5), (3, 6)], [(0, 1), (1, 0), (1, 2), (2, 1)]),
        (5, 3, [(2, 1)], [(1, 1), (3, 1), (2, 0), (2, 2)]),  # walled in
        (3, 3, [], []),  # no obstacles
    ]
    for height, width, obstacles, walls in layouts:
        for seed in range(10):

            def build():
                grid = Grid.from_shape((height, width))
                for p in obstacles:
                    grid[p] = MovingObstacle()
                for p in walls:
                    grid[p] = Wall()
                free = [
                    (y, x)
                    for y in range(height)
                    for x in range(width)
                    if (y, x) not in walls
                ]
                y, x = free[seed % len(free)]
                return State(grid, Agent(Position(y, x), list(Orientation)[seed % 4]))

            s1, s2 = build(), build()
            r1, r2 = rnd.default_rng(seed), rnd.default_rng(seed)
            pose = (s1.agent.position, s1.agent.orientation)
            for _ in range(12):
                assert tf.move_obstacles(s1, Action.ACTUATE, rng=r1) is None
                ref_move_obstacles(s2, r2)
                assert s1 == s2
                assert rng_state(r1) == rng_state(r2)
                assert (s1.agent.position, s1.agent.orientation) == pose
                n = sum(
                    isinstance(s1.grid[y, x], MovingObstacle)
                    for y in range(height)
                    for x in range(width)
                )
                assert n == len(obstacles)


def check_library_rng():
    """rng=None uses the library generator;  re-seeding reproduces."""
    from gym_gridverse.rng import reset_gv_rng

    def run(seed):
        reset_gv_rng(seed)
        state = rf.teleport(Shape(6, 9))
        history = []
        for k in range(40):
            action = list(Action)[k % len(Action)]
            tf.move_agent(state, action)
            tf.turn_agent(state, action)
            tf.teleport(state, action)
            history.append((state.agent.position, state.agent.orientation))
        return history

    def run_ref(seed):
        rng = reset_gv_rng(seed)
        state = rf.teleport(Shape(6, 9))
        history = []
        for k in range(40):
            action = list(Action)[k % len(Action)]
            tf.move_agent(state, action)
            tf.turn_agent(state, action)
            ref_teleport(state, rng)
            history.append((state.agent.position, state.agent.orientation))
        return history

    for seed in range(5):
        assert run(seed) == run(seed) == run_ref(seed)


def check_rng_helper_if_present():
    from gym_gridverse import rng as gv_rng

    helper = getattr(gv_rng, 'choice_or_none', None)
    if helper is None:
        return
    for seed in range(5):
        for data in ([], (), [7], ['a', 'b'], list(range(9))):
            r1, r2 = rnd.default_rng(seed), rnd.default_rng(seed)
            for _ in range(3):
                got = helper(r1, data)
                if len(data) == 0:
                    assert got is None
                else:
                    assert got == data[r2.choice(len(data))]
                assert rng_state(r1) == rng_state(r2)


def main():
    check_exhaustive()
    check_turn_algebra()
    moved, stayed = check_teleport()
    check_move_obstacles()
    check_library_rng()
    check_rng_helper_if_present()
    check_rollouts()
    print(
        f'ok: {checked} exhaustive pose/action/object cases, '
        f'{moved} teleports / {stayed} non-teleports vs reference, rollouts'
    )


if __name__ == '__main__':
    main()
