"""Demo for change A (compute_ray as an explicit loop).

Runs on the pristine tree and with the patch applied;  exits 0 in both cases.

Checks, for many areas (square, non-square, single row/column/cell, offset
away from the origin, asymmetric view areas) and origins (corners, borders,
inside):

* compute_ray agrees with a reference implementation embedded below (the
  generator pipeline: sample, takewhile inside the area, unique_everseen) for
  every direction of both fans, extra awkward directions, several step sizes,
  unique and non-unique;
* property C19 on every ray of both fans: starts at the origin, stays inside,
  no repeated cell, adjacent steps, ends on the border;  the fan covers the
  area;  an unobstructed ray-traced visibility mask is all True;
* cached and uncached fans agree whatever the order of earlier queries, and
  repeated queries agree;
* documented ValueError for origins outside the area;
* hard-coded expectations.
"""
import itertools as itt
import math
import os
import random
import sys

sys.path.insert(0, os.getcwd())  # run from the worktree root

import numpy as np

from gym_gridverse.envs.visibility_functions import raytracing
from gym_gridverse.geometry import Area, Position
from gym_gridverse.grid import Grid
from gym_gridverse.grid_object import Floor
from gym_gridverse.utils.raytracing import (
    cached_compute_rays,
    cached_compute_rays_fancy,
    compute_ray,
    compute_rays,
    compute_rays_fancy,
)

failures = []


def check(condition, message):
    if not condition:
        failures.append(message)
        if len(failures) <= 20:
            print('FAIL', message)


# -- reference implementation -------------------------------------------------


def reference_compute_ray(position, area, *, radians, step_size, unique=True):
    if not area.contains(position):
        raise ValueError(f'Position {position} is not inside area {area}')

    y0, x0 = float(position.y), float(position.x)
    dy = step_size * math.sin(radians)
    dx = step_size * math.cos(radians)

    ys = (y0 + i * dy for i in itt.count())
    xs = (x0 + i * dx for i in itt.count())
    positions = (Position(round(y), round(x)) for y, x in zip(ys, xs))
    positions = itt.takewhile(area.contains, positions)

    if not unique:
        return list(positions)

    seen = set()
    ray = []
    for p in positions:
        if p not in seen:
            seen.add(p)
            ray.append(p)
    return ray


def reference_fancy_radians(position, area):
    ys = np.linspace(area.ymin, area.ymax + 1, num=area.height + 1) - 0.5
    xs = np.linspace(area.xmin, area.xmax + 1, num=area.width + 1) - 0.5
    ys = ys - position.y
    xs = xs - position.x
    yys, xxs = np.meshgrid(ys, xs)
    radians = np.arctan2(yys, xxs)
    return np.sort(radians, axis=None)


def reference_rays_fancy(position, area):
    return [
        reference_compute_ray(position, area, radians=rad, step_size=0.01)
        for rad in reference_fancy_radians(position, area)
    ]


def reference_rays(position, area):
    return [
        reference_compute_ray(
            position, area, radians=deg * (math.pi / 180.0), step_size=0.01
        )
        for deg in range(360)
    ]


# -- property ------------------------------------------------------------------


def on_border(position, area):
    return (
        position.y in (area.ymin, area.ymax)
        or position.x in (area.xmin, area.xmax)
    ) and area.contains(position)


def check_ray_property(ray, position, area, tag):
    check(len(ray) >= 1, f'{tag}: empty ray')
    if not ray:
        return
    check(ray[0] == position, f'{tag}: does not start at origin')
    check(all(area.contains(p) for p in ray), f'{tag}: leaves the area')
    check(len(set(ray)) == len(ray), f'{tag}: repeated cell')
    check(
        all(
            max(abs(p.y - q.y), abs(p.x - q.x)) == 1
            for p, q in zip(ray, ray[1:])
        ),
        f'{tag}: non-adjacent step',
    )
    check(on_border(ray[-1], area), f'{tag}: does not end on the border')
    check(
        all(type(p) is Position and type(p.y) is int and type(p.x) is int for p in ray),
        f'{tag}: unexpected element types',
    )


def check_fan(rays, position, area, tag):
    for k, ray in enumerate(rays):
        check_ray_property(ray, position, area, f'{tag} ray {k}')
    covered = set(itt.chain.from_iterable(rays))
    check(covered == set(area.positions()), f'{tag}: fan does not cover area')


# -- scenarios -----------------------------------------------------------------


def interesting_origins(area):
    ys = sorted({area.ymin, area.ymax, (area.ymin + area.ymax) // 2, min(area.ymin + 1, area.ymax)})
    xs = sorted({area.xmin, area.xmax, (area.xmin + area.xmax) // 2, min(area.xmin + 1, area.xmax)})
    return [Position(y, x) for y in ys for x in xs]


small_areas = [
    Area((0, 0), (0, 0)),
    Area((0, 0), (0, 4)),
    Area((0, 5), (0, 0)),
    Area((0, 1), (0, 1)),
    Area((0, 2), (0, 3)),
    Area((0, 3), (0, 2)),
    Area((0, 4), (0, 4)),
    Area((-2, 1), (-3, 0)),
    Area((-1, 1), (-2, 2)),
    Area((3, 5), (10, 13)),
    Area((-6, 0), (-3, 3)),  # default 7x7 view area
    Area((-4, 0), (-1, 2)),  # asymmetric view area
]
large_areas = [
    Area((0, 6), (0, 6)),
    Area((0, 5), (0, 8)),
    Area((0, 9), (0, 3)),
    Area((0, 10), (0, 12)),
    Area((-8, 0), (-5, 5)),
]

# 1. fans: equality with the reference and property, all origins of small areas
for area in small_areas:
    for position in area.positions():
        tag = f'{area} {position}'
        fancy = compute_rays_fancy(position, area)
        check(fancy == reference_rays_fancy(position, area), f'{tag}: fancy differs from reference')
        check(len(fancy) == (area.height + 1) * (area.width + 1), f'{tag}: fan size')
        check_fan(fancy, position, area, f'{tag} fancy')

for area in small_areas[:8]:
    for position in interesting_origins(area):
        tag = f'{area} {position}'
        degrees = compute_rays(position, area)
        check(degrees == reference_rays(position, area), f'{tag}: degrees differs from reference')
        check(len(degrees) == 360, f'{tag}: 360 rays')
        check_fan(degrees, position, area, f'{tag} degrees')

for area in large_areas:
    for position in interesting_origins(area):
        tag = f'{area} {position}'
        fancy = compute_rays_fancy(position, area)
        check(fancy == reference_rays_fancy(position, area), f'{tag}: fancy differs from reference')
        check_fan(fancy, position, area, f'{tag} fancy')

# 2. single rays: awkward directions, step sizes, unique and non-unique
random.seed(19)
directions = (
    [k * math.pi / 4 for k in range(-8, 17)]
    + [k * math.pi / 4 + eps for k in range(8) for eps in (-1e-9, 1e-9, 1e-3)]
    + [math.atan2(dy, dx) for dy in range(-3, 4) for dx in range(-3, 4)]
    + [random.uniform(-10.0, 10.0) for _ in range(20)]
    + [float(np.float64(0.5)), np.float64(2.5), np.float32(1.25), 0, 1, -3]
)
step_sizes = [0.01, 0.3, 0.5, 1.0, 1.7, 5.0, np.float64(0.25), 1]
for area in [Area((0, 4), (0, 6)), Area((-3, 1), (-2, 0)), Area((0, 0), (0, 3)), Area((2, 2), (2, 2))]:
    for position in interesting_origins(area):
        for radians in directions:
            for step_size in step_sizes:
                for unique in (True, False):
                    got = compute_ray(position, area, radians=radians, step_size=step_size, unique=unique)
                    want = reference_compute_ray(position, area, radians=radians, step_size=step_size, unique=unique)
                    check(
                        got == want and isinstance(got, list),
                        f'{area} {position} rad={radians} step={step_size} unique={unique}: {got} != {want}',
                    )
                    if not unique:
                        check(
                            all(type(p) is Position for p in got),
                            'non-unique ray element types',
                        )

# default value of `unique`
area = Area((0, 4), (0, 6))
check(
    compute_ray(Position(2, 3), area, radians=0.3, step_size=0.01)
    == compute_ray(Position(2, 3), area, radians=0.3, step_size=0.01, unique=True),
    'unique defaults to True',
)

# 3. hard-coded expectations
area = Area((0, 2), (0, 4))
P = Position
check(compute_ray(P(1, 1), area, radians=0.0, step_size=0.01) == [P(1, 1), P(1, 2), P(1, 3), P(1, 4)], 'east')
check(compute_ray(P(1, 1), area, radians=math.pi / 2, step_size=0.01) == [P(1, 1), P(2, 1)], 'south')
check(compute_ray(P(1, 1), area, radians=math.pi, step_size=0.01) == [P(1, 1), P(1, 0)], 'west')
check(compute_ray(P(1, 1), area, radians=-math.pi / 2, step_size=0.01) == [P(1, 1), P(0, 1)], 'north')
check(compute_ray(P(0, 0), area, radians=math.pi / 4, step_size=0.01) == [P(0, 0), P(1, 1), P(2, 2)], 'diagonal')
check(compute_ray(P(0, 0), area, radians=math.pi, step_size=0.01) == [P(0, 0)], 'corner, outward')
check(compute_ray(P(0, 0), Area((0, 0), (0, 0)), radians=1.0, step_size=0.01) == [P(0, 0)], 'single cell')
non_unique = compute_ray(P(1, 3), area, radians=0.0, step_size=0.25, unique=False)
# 3.5 and 4.5 both round to 4 (round half to even)
check(non_unique == [P(1, 3)] * 2 + [P(1, 4)] * 5, f'non-unique east {non_unique}')
non_unique = compute_ray(P(1, 3), area, radians=0.0, step_size=0.01, unique=False)
groups = [(p, len(list(g))) for p, g in itt.groupby(non_unique)]
check(
    [p for p, _ in groups] == [P(1, 3), P(1, 4)]
    and all(95 <= n <= 105 or (p == P(1, 3) and 48 <= n <= 52) for p, n in groups),
    f'non-unique east, fine step {groups}',
)

# 4. documented exception for origins outside the area
for area, position in [
    (Area((0, 2), (0, 4)), P(-1, 0)),
    (Area((0, 2), (0, 4)), P(3, 0)),
    (Area((0, 2), (0, 4)), P(0, 5)),
    (Area((0, 2), (0, 4)), P(1, -1)),
    (Area((-2, 0), (-1, 1)), P(1, 0)),
]:
    for unique in (True, False):
        try:
            compute_ray(position, area, radians=0.0, step_size=0.01, unique=unique)
        except ValueError as error:
            check(
                str(error) == f'Position {position} is not inside area {area}',
                f'error message {error}',
            )
        else:
            check(False, f'{area} {position}: no ValueError')
    for function in (compute_rays, compute_rays_fancy, cached_compute_rays, cached_compute_rays_fancy):
        try:
            function(position, area)
        except ValueError:
            pass
        else:
            check(False, f'{function} {area} {position}: no ValueError')

# 5. caching: any order of earlier queries, repeated queries, several areas
queries = [
    (position, area)
    for area in [Area((0, 2), (0, 3)), Area((0, 3), (0, 2)), Area((-2, 0), (-1, 1)), Area((0, 0), (0, 0))]
    for position in area.positions()
]
expected = {query: compute_rays_fancy(*query) for query in queries}
for seed in range(3):
    order = queries * 2
    random.Random(seed).shuffle(order)
    if seed == 2:
        cached_compute_rays_fancy.cache_clear()
    for query in order:
        check(cached_compute_rays_fancy(*query) == expected[query], f'cached fancy {query}')
        check(compute_rays_fancy(*query) == expected[query], f'uncached fancy, repeated {query}')
query = (Position(1, 2), Area((0, 2), (0, 3)))
check(cached_compute_rays(*query) == compute_rays(*query) == cached_compute_rays(*query), 'cached degrees')
# equal areas / positions built separately hit the same entry
check(
    cached_compute_rays_fancy(Position(1, 2), Area((0, 2), (0, 3)))
    is cached_compute_rays_fancy(Position(1, 2), Area((0, 2), (0, 3))),
    'cache keyed by value',
)

# 6. unobstructed ray-traced views show everything
for height, width in [(1, 1), (1, 5), (6, 1), (2, 2), (3, 5), (5, 3), (7, 7), (5, 8)]:
    grid = Grid.from_shape((height, width), factory=Floor)
    for position in grid.area.positions():
        visibility = raytracing(grid, position)
        check(
            visibility.shape == (height, width) and visibility.dtype == bool and visibility.all(),
            f'unobstructed raytracing {height}x{width} from {position}',
        )

if failures:
    print(f'{len(failures)} failure(s)')
    sys.exit(1)
print('OK')
