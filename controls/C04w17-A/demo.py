#!/usr/bin/env python
"""Demo for change A (GridWorld wiring: debug/validation checks moved to helpers).

Checks property C04 -- the stateful interface mirrors the functional one and
observations are never stale -- and checks that `GridWorld` behaves exactly
like a reference implementation embedded below (the wiring of the pristine
tree, spelled out verbatim): same values, same calls on the same objects in
the same order, same errors, same consumption of randomness.

Run from the worktree root:  /venv/bin/python _seed/A/demo.py
Exits 0 on the pristine tree and with the patch applied.
"""
import copy
import itertools
import os
import random
import sys
from typing import Optional, Tuple

# the worktree root (two levels up) holds the package under test
sys.path.insert(
    0, os.path.dirname(os.path.dirname(os.path.dirname(os.path.abspath(__file__))))
)

import numpy as np
import numpy.random as rnd

import gym_gridverse.debugging as debugging
import gym_gridverse.rng as gv_rng
from gym_gridverse.action import Action
from gym_gridverse.debugging import gv_debug, reset_gv_debug
from gym_gridverse.envs import InnerEnv
from gym_gridverse.envs import observation_functions as observation_fs
from gym_gridverse.envs import reset_functions as reset_fs
from gym_gridverse.envs import reward_functions as reward_fs
from gym_gridverse.envs import terminating_functions as terminating_fs
from gym_gridverse.envs import transition_functions as transition_fs
from gym_gridverse.envs.gridworld import GridWorld
from gym_gridverse.envs.transition_functions import transition_with_copy
from gym_gridverse.geometry import Area, Orientation, Position, Shape
from gym_gridverse.grid_object import (
    Beacon,
    Color,
    Door,
    Exit,
    Floor,
    Key,
    MovingObstacle,
    Telepod,
    Wall,
)
from gym_gridverse.observation import Observation
from gym_gridverse.outer_env import OuterEnv
from gym_gridverse.representations.observation_representations import (
    make_observation_representation,
)
from gym_gridverse.representations.state_representations import (
    make_state_representation,
)
from gym_gridverse.rng import make_rng
from gym_gridverse.spaces import ActionSpace, ObservationSpace, StateSpace
from gym_gridverse.state import State

# --------------------------------------------------------------------------
# reference implementation: the wiring of the pristine GridWorld, verbatim
# --------------------------------------------------------------------------


class RefGridWorld(InnerEnv):
    def __init__(
        self,
        state_space,
        action_space,
        observation_space,
        reset_function,
        transition_function,
        observation_function,
        reward_function,
        termination_function,
    ):
        self._reset_function = reset_function
        self._transition_function = transition_function
        self._observation_function = observation_function
        self._reward_function = reward_function
        self._termination_function = termination_function
        self._rng: Optional[rnd.Generator] = None
        super().__init__(state_space, action_space, observation_space)

    def set_seed(self, seed: Optional[int] = None):
        self._rng = make_rng(seed)

    def functional_reset(self) -> State:
        state = self._reset_function(rng=self._rng)
        if gv_debug() and not self.state_space.contains(state):
            raise ValueError('state does not satisfy state_space')

        return state

    def functional_step(
        self, state: State, action: Action
    ) -> Tuple[State, float, bool]:
        if gv_debug() and not self.state_space.contains(state):
            raise ValueError('state does not satisfy state_space')
        if not self.action_space.contains(action):
            raise ValueError('action {action} does not satisfy action-space')

        next_state = transition_with_copy(
            self._transition_function,
            state,
            action,
            rng=self._rng,
        )

        if gv_debug() and not self.state_space.contains(next_state):
            raise ValueError('next_state does not satisfy state_space')

        reward = self._reward_function(state, action, next_state)
        terminal = self._termination_function(state, action, next_state)

        return (next_state, reward, terminal)

    def functional_observation(self, state: State) -> Observation:
        observation = self._observation_function(state, rng=self._rng)
        if gv_debug() and not self.observation_space.contains(observation):
            raise ValueError('observation does not satisfy observation_space')

        return observation


# --------------------------------------------------------------------------
# configurations (the shipped YAML files, rebuilt through the python API, plus
# awkward ones: non-square grids, asymmetric / degenerate view areas,
# stochastic transitions and observations, restricted action spaces)
# --------------------------------------------------------------------------

MOVE_ACTIONS = [
    Action.MOVE_FORWARD,
    Action.MOVE_BACKWARD,
    Action.MOVE_LEFT,
    Action.MOVE_RIGHT,
    Action.TURN_LEFT,
    Action.TURN_RIGHT,
]
ALL_ACTIONS = list(Action)
DEFAULT_AREA = Area((-6, 0), (-3, 3))

EXIT_REWARDS = [
    ('reach_exit', dict(reward_on=5.0, reward_off=0.0)),
    (
        'getting_closer',
        dict(
            distance_function='manhattan',
            object_type=Exit,
            reward_closer=0.2,
            reward_further=-0.2,
        ),
    ),
    ('living_reward', dict(reward=-0.05)),
]

CONFIGS = {
    'keydoor.7x7': dict(
        objects=[Wall, Floor, Exit, Door, Key],
        colors=[Color.NONE, Color.YELLOW],
        actions=ALL_ACTIONS,
        reset=('keydoor', dict(shape=Shape(7, 7))),
        transitions=['move_agent', 'turn_agent', 'actuate_door', 'pickndrop'],
        rewards=[
            ('reach_exit', dict(reward_on=5.0, reward_off=0.0)),
            (
                'pickndrop',
                dict(object_type=Key, reward_pick=1.0, reward_drop=-1.0),
            ),
            ('actuate_door', dict(reward_open=1.0, reward_close=-1.0)),
            ('living_reward', dict(reward=-0.05)),
        ],
        observation=('partially_occluded', dict(area=DEFAULT_AREA)),
        termination=('reach_exit', {}),
    ),
    'dynamic_obstacles.7x7': dict(
        objects=[Wall, Floor, Exit, MovingObstacle],
        colors=[Color.NONE],
        actions=MOVE_ACTIONS,
        reset=(
            'dynamic_obstacles',
            dict(shape=Shape(7, 7), num_obstacles=2, random_agent=False),
        ),
        transitions=['move_agent', 'turn_agent', 'move_obstacles'],
        rewards=[
            ('reach_exit', dict(reward_on=5.0, reward_off=0.0)),
            ('bump_moving_obstacle', dict(reward=-1.0)),
            ('bump_into_wall', dict(reward=-1.0)),
            ('living_reward', dict(reward=-0.05)),
        ],
        observation=('partially_occluded', dict(area=DEFAULT_AREA)),
        termination=(
            'reduce_any',
            dict(
                terminating_functions=[
                    ('reach_exit', {}),
                    ('bump_moving_obstacle', {}),
                    ('bump_into_wall', {}),
                ]
            ),
        ),
    ),
    # non-square, random agent, stochastic observation, asymmetric view area
    'dynamic_obstacles.5x8.stochastic_obs': dict(
        objects=[Wall, Floor, Exit, MovingObstacle],
        colors=[Color.NONE],
        actions=MOVE_ACTIONS,
        reset=(
            'dynamic_obstacles',
            dict(shape=Shape(5, 8), num_obstacles=3, random_agent=True),
        ),
        transitions=['move_agent', 'turn_agent', 'move_obstacles'],
        rewards=[('living_reward', dict(reward=-0.05))],
        observation=(
            'stochastic_raytracing',
            dict(area=Area((-4, 1), (-1, 3))),
        ),
        termination=('reach_exit', {}),
    ),
    'teleport.7x7': dict(
        objects=[Wall, Floor, Exit, Telepod],
        colors=[Color.NONE, Color.RED],
        actions=MOVE_ACTIONS,
        reset=('teleport', dict(shape=Shape(7, 7))),
        transitions=['move_agent', 'turn_agent', 'teleport'],
        rewards=EXIT_REWARDS,
        observation=('raytracing', dict(area=DEFAULT_AREA)),
        termination=('reach_exit', {}),
    ),
    'memory.5x5': dict(
        objects=[Wall, Floor, Exit, Beacon],
        colors=[Color.NONE, Color.RED, Color.GREEN, Color.BLUE, Color.YELLOW],
        actions=MOVE_ACTIONS,
        reset=(
            'memory',
            dict(
                shape=Shape(5, 5),
                colors={Color.RED, Color.GREEN, Color.BLUE, Color.YELLOW},
            ),
        ),
        transitions=['move_agent', 'turn_agent'],
        rewards=[
            ('reach_exit_memory', dict(reward_good=5.0, reward_bad=-5.0)),
            ('living_reward', dict(reward=-0.05)),
        ],
        observation=('partially_occluded', dict(area=DEFAULT_AREA)),
        termination=('reach_exit', {}),
    ),
    'memory_four_rooms.7x7': dict(
        objects=[Wall, Floor, Exit, Beacon],
        colors=[Color.NONE, Color.RED, Color.GREEN, Color.BLUE, Color.YELLOW],
        actions=MOVE_ACTIONS,
        reset=(
            'memory_rooms',
            dict(
                shape=Shape(7, 7),
                layout=(2, 2),
                colors={Color.RED, Color.GREEN, Color.BLUE, Color.YELLOW},
                num_beacons=1,
                num_exits=2,
            ),
        ),
        transitions=['move_agent', 'turn_agent'],
        rewards=[
            ('reach_exit_memory', dict(reward_good=5.0, reward_bad=-5.0)),
            ('living_reward', dict(reward=-0.05)),
        ],
        observation=('partially_occluded', dict(area=DEFAULT_AREA)),
        termination=('reach_exit', {}),
    ),
    # non-square crossing, view area behind and beside the agent only
    'crossing.7x9': dict(
        objects=[Wall, Floor, Exit],
        colors=[Color.NONE],
        actions=MOVE_ACTIONS,
        reset=(
            'crossing',
            dict(shape=Shape(7, 9), num_rivers=2, object_type=Wall),
        ),
        transitions=['move_agent', 'turn_agent'],
        rewards=EXIT_REWARDS,
        observation=('fully_transparent', dict(area=Area((0, 2), (-2, 0)))),
        termination=('reach_exit', {}),
    ),
    # random agent / exit (corners and borders of the room), 1x1 view area
    'empty.4x7.random': dict(
        objects=[Wall, Floor, Exit],
        colors=[Color.NONE],
        actions=ALL_ACTIONS,
        reset=(
            'empty',
            dict(shape=Shape(4, 7), random_agent=True, random_exit=True),
        ),
        transitions=['move_agent', 'turn_agent'],
        rewards=EXIT_REWARDS,
        observation=('partially_occluded', dict(area=Area((0, 0), (0, 0)))),
        termination=('reach_exit', {}),
    ),
    # no reward parts at all (empty list), termination over an empty list
    'nine_rooms.10x10.empty_lists': dict(
        objects=[Wall, Floor, Exit],
        colors=[Color.NONE],
        actions=[Action.MOVE_FORWARD, Action.TURN_LEFT],
        reset=('rooms', dict(shape=Shape(10, 10), layout=(3, 3))),
        transitions=['move_agent', 'turn_agent'],
        rewards=[],
        observation=('raytracing', dict(area=Area((-2, 0), (-1, 1)))),
        termination=('reduce_all', dict(terminating_functions=[])),
    ),
}


def _termination(spec):
    name, kwargs = spec
    kwargs = dict(kwargs)
    if 'terminating_functions' in kwargs:
        kwargs['terminating_functions'] = [
            _termination(s) for s in kwargs['terminating_functions']
        ]
    return terminating_fs.factory(name, **kwargs)


def _reward(spec):
    name, kwargs = spec
    kwargs = dict(kwargs)
    if 'distance_function' in kwargs:
        from gym_gridverse.geometry import distance_function_factory

        kwargs['distance_function'] = distance_function_factory(
            kwargs['distance_function']
        )
    return reward_fs.factory(name, **kwargs)


def build_components(cfg):
    """mirrors envs/yaml/factory.py::factory_env_from_data"""
    reset_function = reset_fs.factory(cfg['reset'][0], **cfg['reset'][1])
    transition_function = transition_fs.factory(
        'chain',
        transition_functions=[
            transition_fs.factory(name) for name in cfg['transitions']
        ],
    )
    reward_function = reward_fs.factory(
        'reduce_sum',
        reward_functions=[_reward(spec) for spec in cfg['rewards']],
    )
    observation_function = observation_fs.factory(
        cfg['observation'][0], **cfg['observation'][1]
    )
    termination_function = _termination(cfg['termination'])

    state = reset_function(rng=make_rng(0))
    state_space = StateSpace(state.grid.shape, cfg['objects'], cfg['colors'])
    observation = observation_function(state, rng=make_rng(0))
    observation_space = ObservationSpace(
        observation.grid.shape, cfg['objects'], cfg['colors']
    )
    return dict(
        state_space=state_space,
        action_space=ActionSpace(list(cfg['actions'])),
        observation_space=observation_space,
        reset_function=reset_function,
        transition_function=transition_function,
        observation_function=observation_function,
        reward_function=reward_function,
        termination_function=termination_function,
    )


def make_env(cls, components):
    return cls(
        components['state_space'],
        components['action_space'],
        components['observation_space'],
        components['reset_function'],
        components['transition_function'],
        components['observation_function'],
        components['reward_function'],
        components['termination_function'],
    )


# --------------------------------------------------------------------------
# helpers
# --------------------------------------------------------------------------

CHECKS = 0


def check(condition, message):
    global CHECKS
    CHECKS += 1
    if not condition:
        print(f'FAIL: {message}')
        sys.exit(1)


def fp_object(obj):
    return (type(obj).__name__, obj.state_index, obj.color.name)


def fp_grid(grid):
    return tuple(
        tuple(fp_object(grid[Position(y, x)]) for x in range(grid.shape.width))
        for y in range(grid.shape.height)
    )


def fp(x):
    """structural fingerprint of a State / Observation"""
    return (
        fp_grid(x.grid),
        (x.agent.position.y, x.agent.position.x),
        x.agent.orientation.name,
        fp_object(x.agent.grid_object),
    )


def rng_state(env):
    rng = env._rng  # pylint: disable=protected-access
    return None if rng is None else repr(rng.bit_generator.state)


def expect_raises(f, error_type, message=None):
    try:
        f()
    except error_type as error:  # pylint: disable=broad-except
        if message is not None:
            check(str(error) == message, f'message {str(error)!r} != {message!r}')
        else:
            check(True, '')
        return error
    check(False, f'{error_type.__name__} not raised')


# reading patterns between steps:  sequence of reads after each reset / step
READ_PATTERNS = {
    'none': [],
    'obs': ['o'],
    'state': ['s'],
    'obs-obs-obs': ['o', 'o', 'o'],
    'state-obs-state-obs': ['s', 'o', 's', 'o'],
}


def read_pattern_for(name, rnd_py):
    if name == 'random':
        return [rnd_py.choice('os') for _ in range(rnd_py.randrange(4))]
    return READ_PATTERNS[name]


# --------------------------------------------------------------------------
# 1. the property:  stateful == functional threading;  observations fresh,
#    memoized, no randomness consumed by repeated reads;  and GridWorld ==
#    reference wiring at every point (values and rng stream)
# --------------------------------------------------------------------------


def run_property(config_name, components, seed, pattern_name, num_steps, debug):
    reset_gv_debug(debug)
    rnd_py = random.Random(f'{config_name}/{seed}/{pattern_name}')
    actions = components['action_space'].actions

    env = make_env(GridWorld, components)  # stateful, system under test
    ref = make_env(RefGridWorld, components)  # stateful, reference wiring
    fun = make_env(GridWorld, components)  # functional threading

    # state before reset raises (also after seeding)
    expect_raises(lambda: env.state, RuntimeError)
    expect_raises(lambda: env.observation, RuntimeError)
    for e in (env, ref, fun):
        e.set_seed(seed)
    expect_raises(lambda: env.state, RuntimeError)
    expect_raises(lambda: env.observation, RuntimeError)
    check(rng_state(env) == rng_state(ref), 'failed reads consumed randomness')

    fun_state = None

    def after_transition(label):
        """reads in the chosen pattern, mirrored on the functional side"""
        observed = None
        for read in read_pattern_for(pattern_name, rnd_py):
            if read == 's':
                check(env.state is env.state, f'{label}: state not stable')
                check(env.state == fun_state, f'{label}: state mismatch')
                check(fp(env.state) == fp(ref.state), f'{label}: ref state')
            else:
                before = rng_state(env)
                first_read = observed is None
                obs = env.observation
                if first_read:
                    # the functional side computes one observation per state
                    observed = fun.functional_observation(fun_state)
                    check(
                        rng_state(env) == rng_state(fun),
                        f'{label}: rng streams diverge after observation',
                    )
                else:
                    check(
                        rng_state(env) == before,
                        f'{label}: repeated read consumed randomness',
                    )
                check(obs is env.observation, f'{label}: obs not memoized')
                check(fp(obs) == fp(observed), f'{label}: stale observation')
                check(obs == observed, f'{label}: observation mismatch')
                check(fp(ref.observation) == fp(obs), f'{label}: ref obs')
            check(rng_state(env) == rng_state(ref), f'{label}: ref rng')
            check(rng_state(env) == rng_state(fun), f'{label}: fun rng')

    for t in range(num_steps + 1):
        reset_now = t == 0 or rnd_py.random() < 0.1
        if reset_now:
            # includes resets mid-way, and re-seeding mid-way
            if t > 0 and rnd_py.random() < 0.5:
                seed = seed + 1000
                for e in (env, ref, fun):
                    e.set_seed(seed)
            env.reset()
            ref.reset()
            fun_state = fun.functional_reset()
            label = f'{config_name} seed={seed} {pattern_name} reset@{t}'
        else:
            action = rnd_py.choice(actions)
            previous = fp(env.state)
            previous_state = env.state
            reward, done = env.step(action)
            ref_reward, ref_done = ref.step(action)
            fun_state_next, fun_reward, fun_done = fun.functional_step(
                fun_state, action
            )
            label = f'{config_name} seed={seed} {pattern_name} step@{t}'
            check(fp(previous_state) == previous, f'{label}: state mutated')
            check(fp(fun_state) == previous, f'{label}: input state mutated')
            check(env.state is not previous_state, f'{label}: same state object')
            fun_state = fun_state_next
            check(
                (reward, done) == (fun_reward, fun_done),
                f'{label}: reward/done {(reward, done)} != functional',
            )
            check(
                (reward, done) == (ref_reward, ref_done)
                and type(reward) is type(ref_reward)
                and type(done) is type(ref_done),
                f'{label}: reward/done differ from reference',
            )

        check(fp(env.state) == fp(fun_state), f'{label}: state != functional')
        check(fp(env.state) == fp(ref.state), f'{label}: state != reference')
        check(rng_state(env) == rng_state(fun), f'{label}: rng != functional')
        check(rng_state(env) == rng_state(ref), f'{label}: rng != reference')
        check(
            env._observation is None,  # pylint: disable=protected-access
            f'{label}: observation not invalidated',
        )
        after_transition(label)


# --------------------------------------------------------------------------
# 2. exact calls:  spies around every collaborator record what is called, in
#    which order, on which objects;  GridWorld must match hard-coded traces
# --------------------------------------------------------------------------


class Recorder:
    def __init__(self):
        self.log = []
        self.names = {}

    def name(self, obj):
        return self.names.get(id(obj), f'<{type(obj).__name__}>')

    def bind(self, obj, name):
        self.names[id(obj)] = name


class SpySpace:
    def __init__(self, recorder, label, space, result=None):
        self._recorder = recorder
        self._label = label
        self._space = space
        self._result = result

    def contains(self, x):
        self._recorder.log.append((self._label, self._recorder.name(x)))
        return self._space.contains(x) if self._result is None else self._result

    def __getattr__(self, name):
        return getattr(self._space, name)


def spy_components(components, recorder, *, contains=None):
    """wraps collaborators;  `contains` optionally forces space membership"""
    contains = contains or {}

    def reset_function(**kwargs):
        state = components['reset_function'](**kwargs)
        recorder.bind(state, 'S0')
        recorder.log.append(('reset', tuple(sorted(kwargs)), kwargs.get('rng')))
        return state

    def transition_function(state, action, **kwargs):
        # transition_with_copy hands over a private copy of the input state
        recorder.bind(state, 'COPY')
        recorder.log.append(
            (
                'transition',
                'COPY',
                action,
                tuple(sorted(kwargs)),
                kwargs.get('rng'),
            )
        )
        return components['transition_function'](state, action, **kwargs)

    def observation_function(state, **kwargs):
        recorder.log.append(
            (
                'observation',
                recorder.name(state),
                tuple(sorted(kwargs)),
                kwargs.get('rng'),
            )
        )
        observation = components['observation_function'](state, **kwargs)
        recorder.bind(observation, 'OBS')
        return observation

    def reward_function(state, action, next_state, **kwargs):
        recorder.log.append(
            (
                'reward',
                recorder.name(state),
                action,
                recorder.name(next_state),
                tuple(sorted(kwargs)),
            )
        )
        return components['reward_function'](
            state, action, next_state, **kwargs
        )

    def termination_function(state, action, next_state, **kwargs):
        recorder.log.append(
            (
                'termination',
                recorder.name(state),
                action,
                recorder.name(next_state),
                tuple(sorted(kwargs)),
            )
        )
        return components['termination_function'](
            state, action, next_state, **kwargs
        )

    return dict(
        state_space=SpySpace(
            recorder,
            'state_space.contains',
            components['state_space'],
            contains.get('state'),
        ),
        action_space=SpySpace(
            recorder,
            'action_space.contains',
            components['action_space'],
            contains.get('action'),
        ),
        observation_space=SpySpace(
            recorder,
            'observation_space.contains',
            components['observation_space'],
            contains.get('observation'),
        ),
        reset_function=reset_function,
        transition_function=transition_function,
        observation_function=observation_function,
        reward_function=reward_function,
        termination_function=termination_function,
    )


def traces(cls, components, debug, seed):
    """runs a fixed scenario and returns the trace of each call"""
    reset_gv_debug(debug)
    recorder = Recorder()
    env = make_env(cls, spy_components(components, recorder))
    if seed is not None:
        env.set_seed(seed)
    rng = env._rng  # pylint: disable=protected-access
    action = components['action_space'].actions[0]
    out = {}

    def normalized():
        log = [
            tuple('RNG' if (x is rng and x is not None) else x for x in entry)
            for entry in recorder.log
        ]
        recorder.log.clear()
        return log

    state = env.functional_reset()
    out['functional_reset'] = normalized()

    recorder.bind(state, 'S')
    next_state, _, _ = env.functional_step(state, action)
    out['functional_step'] = normalized()
    # the copy made for the transition is what is returned
    check(recorder.name(next_state) == 'COPY', 'next state is not the copy')
    check(next_state is not state, 'functional_step returned its input')

    env.functional_observation(state)
    out['functional_observation'] = normalized()

    env.reset()
    env.reset()
    out['reset;reset'] = normalized()
    recorder.bind(env.state, 'S')
    env.observation
    env.observation
    env.state
    env.observation
    out['observation x3'] = normalized()
    env.step(action)
    out['step'] = normalized()
    env.step(action)
    recorder.bind(env.state, 'S')
    recorder.log.clear()
    env.observation
    env.observation
    out['step;observation x2'] = normalized()
    return out, action


def expected_traces(debug, seeded, action):
    rng = 'RNG' if seeded else None
    dbg = lambda *entries: list(entries) if debug else []  # noqa: E731
    return {
        'functional_reset': [('reset', ('rng',), rng)]
        + dbg(('state_space.contains', 'S0')),
        'functional_step': dbg(('state_space.contains', 'S'))
        + [
            ('action_space.contains', '<Action>'),
            ('transition', 'COPY', action, ('rng',), rng),
        ]
        + dbg(('state_space.contains', 'COPY'))
        + [
            ('reward', 'S', action, 'COPY', ()),
            ('termination', 'S', action, 'COPY', ()),
        ],
        'functional_observation': [('observation', 'S', ('rng',), rng)]
        + dbg(('observation_space.contains', 'OBS')),
        'reset;reset': (
            [('reset', ('rng',), rng)] + dbg(('state_space.contains', 'S0'))
        )
        * 2,
        'observation x3': [('observation', 'S', ('rng',), rng)]
        + dbg(('observation_space.contains', 'OBS')),
        'step': dbg(('state_space.contains', 'S'))
        + [
            ('action_space.contains', '<Action>'),
            ('transition', 'COPY', action, ('rng',), rng),
        ]
        + dbg(('state_space.contains', 'COPY'))
        + [
            ('reward', 'S', action, 'COPY', ()),
            ('termination', 'S', action, 'COPY', ()),
        ],
        'step;observation x2': [('observation', 'S', ('rng',), rng)]
        + dbg(('observation_space.contains', 'OBS')),
    }


def run_traces(components):
    for debug, seed in itertools.product([True, False], [None, 0, 12345]):
        got, action = traces(GridWorld, components, debug, seed)
        ref, _ = traces(RefGridWorld, components, debug, seed)
        want = expected_traces(debug, seed is not None, action)
        for key in want:
            check(
                got[key] == want[key],
                f'trace {key} debug={debug} seed={seed}:\n  got  {got[key]}\n'
                f'  want {want[key]}',
            )
            check(got[key] == ref[key], f'trace {key} differs from reference')
        check(set(got) == set(want), 'trace keys')


# --------------------------------------------------------------------------
# 3. errors:  which, when, with which message, and what ran before them
# --------------------------------------------------------------------------


def run_errors(components):
    legal = components['action_space'].actions[0]

    for cls in (GridWorld, RefGridWorld):
        # --- illegal action: always refused, nothing runs, no randomness used
        for debug in (True, False):
            reset_gv_debug(debug)
            restricted = dict(components)
            restricted['action_space'] = ActionSpace([Action.TURN_LEFT])
            recorder = Recorder()
            env = make_env(cls, spy_components(restricted, recorder))
            env.set_seed(3)
            env.reset()
            state = env.state
            before = rng_state(env)
            recorder.log.clear()
            expect_raises(
                lambda: env.step(Action.MOVE_FORWARD),
                ValueError,
                'action {action} does not satisfy action-space',
            )
            names = [entry[0] for entry in recorder.log]
            check(
                names
                == (['state_space.contains'] if debug else [])
                + ['action_space.contains'],
                f'{cls.__name__}: calls before illegal action error {names}',
            )
            check(rng_state(env) == before, 'illegal action consumed rng')
            check(env.state is state, 'illegal action changed the state')
            # a legal action still works afterwards
            env.step(Action.TURN_LEFT)
            check(env.state is not state, 'step did not update the state')

        # --- state outside the state space
        for debug in (True, False):
            reset_gv_debug(debug)
            recorder = Recorder()
            env = make_env(
                cls,
                spy_components(components, recorder, contains={'state': False}),
            )
            env.set_seed(3)
            if debug:
                expect_raises(
                    env.functional_reset,
                    ValueError,
                    'state does not satisfy state_space',
                )
                expect_raises(
                    env.reset, ValueError, 'state does not satisfy state_space'
                )
                expect_raises(lambda: env.state, RuntimeError)
                good = components['reset_function'](rng=make_rng(0))
                recorder.log.clear()
                # both the state and the action are bad: the state is
                # reported (it is checked first)
                for action in (legal, 'not-an-action'):
                    expect_raises(
                        lambda: env.functional_step(good, action),
                        ValueError,
                        'state does not satisfy state_space',
                    )
                names = [entry[0] for entry in recorder.log]
                check(
                    names == ['state_space.contains'] * 2,
                    f'calls before state error: {names}',
                )
            else:
                env.reset()
                env.step(legal)
                names = {entry[0] for entry in recorder.log}
                check(
                    'state_space.contains' not in names,
                    'state space consulted with debugging off',
                )

        # --- next state outside the state space (input state inside)
        reset_gv_debug(True)
        recorder = Recorder()
        spies = spy_components(components, recorder)
        answers = iter([True, False])
        inner_space = components['state_space']

        class Flip:
            def contains(self, state):
                recorder.log.append(('state_space.contains',))
                return next(answers)

            def __getattr__(self, name):
                return getattr(inner_space, name)

        spies['state_space'] = Flip()
        env = make_env(cls, spies)
        env.set_seed(3)
        good = components['reset_function'](rng=make_rng(0))
        expect_raises(
            lambda: env.functional_step(good, legal),
            ValueError,
            'next_state does not satisfy state_space',
        )
        names = [entry[0] for entry in recorder.log]
        check(
            names
            == [
                'state_space.contains',
                'action_space.contains',
                'transition',
                'state_space.contains',
            ],
            f'calls before next_state error: {names}',
        )

        # --- observation outside the observation space
        for debug in (True, False):
            reset_gv_debug(debug)
            recorder = Recorder()
            env = make_env(
                cls,
                spy_components(
                    components, recorder, contains={'observation': False}
                ),
            )
            env.set_seed(3)
            env.reset()
            if debug:
                for _ in range(2):
                    expect_raises(
                        lambda: env.observation,
                        ValueError,
                        'observation does not satisfy observation_space',
                    )
                check(
                    env._observation is None,  # pylint: disable=W0212
                    'a refused observation was memoized',
                )
            else:
                check(env.observation is env.observation, 'memoization')
                names = {entry[0] for entry in recorder.log}
                check(
                    'observation_space.contains' not in names,
                    'observation space consulted with debugging off',
                )

    # --- a real (not forced) out-of-space state, with the real spaces
    reset_gv_debug(True)
    env = make_env(GridWorld, components)
    env.set_seed(0)
    state = env.functional_reset()
    bad = copy.deepcopy(state)
    bad.grid[Position(0, 0)] = Key(Color.BLUE)
    if Key not in components['state_space'].object_types:
        expect_raises(
            lambda: env.functional_step(bad, legal),
            ValueError,
            'state does not satisfy state_space',
        )
        reset_gv_debug(False)
        env.functional_step(bad, legal)  # accepted with debugging off

    # --- lazily initialized debugging flag is still initialized by a call
    debugging._gv_debug = None  # pylint: disable=protected-access
    make_env(GridWorld, components).functional_reset()
    check(
        debugging._gv_debug is __debug__,  # pylint: disable=protected-access
        'library debugging flag not initialised by the first check',
    )


# --------------------------------------------------------------------------
# 4. unseeded environments, re-seeding, several environments in one process
# --------------------------------------------------------------------------


def run_seeding(config_name, components):
    reset_gv_debug(True)
    actions = components['action_space'].actions
    rnd_py = random.Random(config_name)
    plan = [rnd_py.choice(actions) for _ in range(12)]

    def rollout(env):
        env.reset()
        out = [fp(env.state), fp(env.observation)]
        for action in plan:
            out.append(env.step(action))
            out.append(fp(env.state))
            out.append(fp(env.observation))
        return out

    # never seeded:  components get rng=None, i.e. the library-wide generator
    env = make_env(GridWorld, components)
    ref = make_env(RefGridWorld, components)
    check(env._rng is None, 'rng set before set_seed')  # pylint: disable=W0212
    gv_rng.reset_gv_rng(99)
    a = rollout(env)
    gv_rng.reset_gv_rng(99)
    b = rollout(ref)
    check(a == b, f'{config_name}: unseeded rollout differs from reference')
    check(env._rng is None, 'rng created implicitly')  # pylint: disable=W0212

    # re-seeding restarts the stream;  set_seed alone does not reset the state
    env.set_seed(5)
    first = rollout(env)
    state = env.state
    env.set_seed(5)
    check(env.state is state, 'set_seed changed the state')
    check(first == rollout(env), f'{config_name}: re-seeding not reproducible')
    env.set_seed(6)
    rollout(env)

    # several environments in one process, interleaved, do not interact
    envs = [make_env(GridWorld, components) for _ in range(3)]
    for e in envs:
        e.set_seed(5)
        e.reset()
    outs = [[fp(e.state), fp(e.observation)] for e in envs]
    for action in plan:
        for e, out in zip(envs, outs):
            out.append(e.step(action))
            out.append(fp(e.state))
            out.append(fp(e.observation))
    for out in outs:
        check(out == first, f'{config_name}: interleaved environments interact')

    # set_seed() / set_seed(None) makes a fresh generator of its own
    env.set_seed()
    check(
        isinstance(env._rng, rnd.Generator),  # pylint: disable=W0212
        'set_seed() without seed',
    )
    rollout(env)


# --------------------------------------------------------------------------
# 5. numeric outer environment on top
# --------------------------------------------------------------------------


def run_outer(config_name, components):
    reset_gv_debug(True)
    for name in ('default', 'no-overlap', 'compact'):
        env = make_env(GridWorld, components)
        twin = make_env(RefGridWorld, components)
        state_representation = make_state_representation(
            name, env.state_space
        )
        observation_representation = make_observation_representation(
            name, env.observation_space
        )
        outer = OuterEnv(
            env,
            state_representation=state_representation,
            observation_representation=observation_representation,
        )
        env.set_seed(8)
        twin.set_seed(8)
        expect_raises(lambda: outer.state, RuntimeError)
        outer.reset()
        twin.reset()
        rnd_py = random.Random(name)
        for _ in range(8):
            for got, want in (
                (outer.state, state_representation.convert(twin.state)),
                (
                    outer.observation,
                    observation_representation.convert(twin.observation),
                ),
                (outer.observation, outer.observation),
            ):
                check(set(got) == set(want), f'{config_name}: outer keys')
                for key in got:
                    check(
                        got[key].dtype == want[key].dtype
                        and np.array_equal(got[key], want[key]),
                        f'{config_name}/{name}: outer {key} differs',
                    )
            action = rnd_py.choice(components['action_space'].actions)
            check(
                outer.step(action) == twin.step(action),
                f'{config_name}: outer step differs',
            )


# --------------------------------------------------------------------------
# 6. hard-coded expectations (computed on the pristine tree)
# --------------------------------------------------------------------------

EXPECTED = {
    'keydoor.7x7': [('TURN_RIGHT', 3, 3, 'BACKWARD', -0.05, False, 29), ('MOVE_LEFT', 3, 3, 'BACKWARD', -0.05, False, 29), ('ACTUATE', 3, 3, 'BACKWARD', -0.05, False, 29), ('MOVE_FORWARD', 4, 3, 'BACKWARD', -0.05, False, 34), ('MOVE_BACKWARD', 3, 3, 'BACKWARD', -0.05, False, 29), ('MOVE_BACKWARD', 2, 3, 'BACKWARD', -0.05, False, 24), ('TURN_RIGHT', 2, 3, 'LEFT', -0.05, False, 25), ('MOVE_FORWARD', 2, 2, 'LEFT', -0.05, False, 31), ('MOVE_RIGHT', 1, 2, 'LEFT', -0.05, False, 34), ('MOVE_FORWARD', 1, 1, 'LEFT', -0.05, False, 39)],
    'dynamic_obstacles.7x7': [('MOVE_LEFT', 1, 1, 'RIGHT', -1.05, True, 19), ('MOVE_BACKWARD', 1, 1, 'RIGHT', -1.05, True, 19), ('MOVE_RIGHT', 2, 1, 'RIGHT', -0.05, False, 13), ('TURN_RIGHT', 2, 1, 'BACKWARD', -0.05, False, 24), ('MOVE_FORWARD', 3, 1, 'BACKWARD', -0.05, False, 29), ('MOVE_FORWARD', 4, 1, 'BACKWARD', -0.05, False, 34), ('TURN_LEFT', 4, 1, 'RIGHT', -0.05, False, 13), ('MOVE_FORWARD', 4, 2, 'RIGHT', -0.05, False, 19), ('MOVE_LEFT', 3, 2, 'RIGHT', -0.05, False, 14), ('TURN_LEFT', 3, 2, 'FORWARD', -0.05, False, 25)],
    'crossing.7x9': [('MOVE_LEFT', 1, 1, 'RIGHT', -0.05, False, 5), ('MOVE_BACKWARD', 1, 1, 'RIGHT', -0.05, False, 5), ('MOVE_RIGHT', 2, 1, 'RIGHT', 0.15, False, 3), ('TURN_RIGHT', 2, 1, 'BACKWARD', -0.05, False, 0), ('MOVE_FORWARD', 3, 1, 'BACKWARD', 0.15, False, 0), ('MOVE_FORWARD', 4, 1, 'BACKWARD', 0.15, False, 0), ('TURN_LEFT', 4, 1, 'RIGHT', -0.05, False, 3), ('MOVE_FORWARD', 4, 1, 'RIGHT', -0.05, False, 3), ('MOVE_LEFT', 3, 1, 'RIGHT', -0.25, False, 3), ('TURN_LEFT', 3, 1, 'FORWARD', -0.05, False, 3)],
}


def summary_rollout(components, seed=7, num_steps=10):
    reset_gv_debug(True)
    env = make_env(GridWorld, components)
    env.set_seed(seed)
    env.reset()
    rnd_py = random.Random(seed)
    out = []
    for _ in range(num_steps):
        action = rnd_py.choice(components['action_space'].actions)
        reward, done = env.step(action)
        agent = env.state.agent
        hidden = sum(
            type(env.observation.grid[p]).__name__ == 'Hidden'
            for p in env.observation.grid.area.positions()
        )
        out.append(
            (
                action.name,
                int(agent.position.y),
                int(agent.position.x),
                agent.orientation.name,
                round(float(reward), 6),
                bool(done),
                int(hidden),
            )
        )
    return out


def main():
    built = {name: build_components(cfg) for name, cfg in CONFIGS.items()}

    if '--print-expected' in sys.argv:
        for name in EXPECTED:
            print(f'    {name!r}: {summary_rollout(built[name])!r},')
        return

    for name, components in built.items():
        for seed, pattern in itertools.product(
            [0, 1, 2**31 - 1],
            list(READ_PATTERNS) + ['random'],
        ):
            run_property(name, components, seed, pattern, 25, debug=True)
        run_property(name, components, 4, 'random', 25, debug=False)
        run_traces(components)
        run_errors(components)
        run_seeding(name, components)
        run_outer(name, components)
        print(f'ok {name}')

    for name, want in EXPECTED.items():
        got = summary_rollout(built[name])
        check(want is not None, f'no expectation recorded for {name}')
        check(got == want, f'{name}: rollout summary\n got {got}\nwant {want}')

    reset_gv_debug(None)
    print(f'all good ({CHECKS} checks)')


if __name__ == '__main__':
    main()
