import ast
import os
import re
import sys
import warnings

warnings.filterwarnings('ignore')
sys.path.insert(0, os.getcwd())

import numpy as np


# --------------------------------------------------------------------------
# a tiny loader for the YAML subset used by the shipped configurations, used
# only when PyYAML is not installed (block mappings, block sequences, flow
# lists, plain scalars)
# --------------------------------------------------------------------------
def _scalar(text):
    text = text.strip()
    if text in ('True', 'true'):
        return True
    if text in ('False', 'false'):
        return False
    if text in ('null', '~', ''):
        return None
    if text.startswith('['):
        quoted = re.sub(
            r'[A-Za-z_][A-Za-z0-9_]*',
            lambda m: m.group(0)
            if m.group(0) in ('True', 'False')
            else repr(m.group(0)),
            text,
        )
        return ast.literal_eval(quoted)
    try:
        return int(text)
    except ValueError:
        pass
    try:
        return float(text)
    except ValueError:
        pass
    if text[0] in '\'"' and text[-1] == text[0]:
        return text[1:-1]
    return text


def mini_yaml_load(stream):
    text = stream if isinstance(stream, str) else stream.read()
    lines = []
    for raw in text.splitlines():
        raw = raw.split(' #')[0].rstrip()
        if not raw.strip() or raw.lstrip().startswith('#'):
            continue
        lines.append((len(raw) - len(raw.lstrip()), raw.strip()))

    def parse(i, indent):
        if lines[i][1].startswith('- ') or lines[i][1] == '-':
            out = []
            while i < len(lines) and lines[i][0] == indent and (
                lines[i][1].startswith('- ') or lines[i][1] == '-'
            ):
                body = lines[i][1][1:].lstrip()
                if re.match(r'^[A-Za-z_][A-Za-z0-9_]*:( |$)', body):
                    # a mapping that starts on the dash line
                    inner = indent + (len(lines[i][1]) - len(body))
                    lines[i] = (inner, body)
                    value, i = parse(i, inner)
                else:
                    value, i = _scalar(body), i + 1
                out.append(value)
            return out, i
        out = {}
        while i < len(lines) and lines[i][0] == indent:
            key, _, rest = lines[i][1].partition(':')
            if rest.strip():
                out[key.strip()] = _scalar(rest)
                i += 1
            else:
                assert i + 1 < len(lines) and lines[i + 1][0] > indent, lines[i]
                out[key.strip()], i = parse(i + 1, lines[i + 1][0])
        return out, i

    value, i = parse(0, lines[0][0])
    assert i == len(lines), (i, len(lines))
    return value


import gym_gridverse.envs.yaml.factory as _factory

if not hasattr(_factory.yaml, 'safe_load'):
    _factory.yaml.safe_load = mini_yaml_load

import gym
from gym.utils import seeding

if not hasattr(seeding, 'create_seed'):
    # gym >= 0.26 dropped `create_seed`; for integers the old one did this
    def _create_seed(a=None, max_bytes=8):
        if a is None:
            return 20200927
        return int(a) % 2 ** (8 * max_bytes)

    seeding.create_seed = _create_seed

import gym_gridverse.gym as gv_gym
from gym_gridverse.action import Action
from gym_gridverse.envs.yaml.factory import (
    factory_env_from_data,
    factory_env_from_yaml,
)
from gym_gridverse.gym import (
    GymEnvironment,
    GymStateWrapper,
    outer_space_to_gym_space,
)
from gym_gridverse.outer_env import OuterEnv
from gym_gridverse.representations.observation_representations import (
    make_observation_representation,
)
from gym_gridverse.representations.spaces import (
    Space,
    SpaceType,
    is_dtype_compatible,
)
from gym_gridverse.representations.state_representations import (
    make_state_representation,
)

NAMES = ['default', 'no-overlap', 'compact']
CHECKS = [0]


def check(condition, *context):
    CHECKS[0] += 1
    if not condition:
        print('FAILED at line', sys._getframe(1).f_lineno, *context)
        sys.exit(1)


# --------------------------------------------------------------------------
# reference implementations (the pristine spelling, embedded)
# --------------------------------------------------------------------------
def ref_is_dtype_compatible(x, space_type):
    if space_type is SpaceType.CATEGORICAL:
        return np.issubdtype(x.dtype, np.integer)
    if space_type is SpaceType.DISCRETE:
        return np.issubdtype(x.dtype, np.integer)
    if space_type is SpaceType.CONTINUOUS:
        return np.issubdtype(x.dtype, np.floating)
    raise ValueError(f'invalid SpaceType {space_type}')


def ref_gym_space(space):
    return gym.spaces.Dict(
        {
            k: gym.spaces.Box(
                low=v.lower_bound,
                high=v.upper_bound,
                dtype=float if v.space_type is SpaceType.CONTINUOUS else int,
            )
            for k, v in space.items()
        }
    )


def same_gym_space(a, b):
    if not isinstance(a, gym.spaces.Dict) or not isinstance(b, gym.spaces.Dict):
        return False
    if list(a.spaces.keys()) != list(b.spaces.keys()):
        return False
    for k in a.spaces:
        x, y = a.spaces[k], b.spaces[k]
        if type(x) is not gym.spaces.Box or type(y) is not gym.spaces.Box:
            return False
        if x.dtype != y.dtype or x.shape != y.shape:
            return False
        if x.low.dtype != y.low.dtype or x.high.dtype != y.high.dtype:
            return False
        if not np.array_equal(x.low, y.low) or not np.array_equal(x.high, y.high):
            return False
    return a == b


def same_arrays(a, b):
    if not isinstance(a, dict) or not isinstance(b, dict):
        return False
    if list(a.keys()) != list(b.keys()):
        return False
    return all(
        isinstance(a[k], np.ndarray)
        and a[k].dtype == b[k].dtype
        and a[k].shape == b[k].shape
        and np.array_equal(a[k], b[k])
        for k in a
    )


# --------------------------------------------------------------------------
# the property, against a twin inner environment driven by hand
# --------------------------------------------------------------------------
def check_adapter(tag, make_env, make_inner, seed, steps, names=NAMES):
    """`make_env` gives a (possibly gym-wrapped) GymEnvironment, `make_inner`
    an identically configured inner environment used as the reference"""
    action_rng = np.random.default_rng(seed + 1)

    for name in names:
        ctx = (tag, name, seed)
        env = make_env()
        genv = env.unwrapped
        check(type(genv) is GymEnvironment, *ctx)
        inner = make_inner()
        actions = list(inner.action_space.actions)

        # switching representation updates the advertised spaces
        genv.set_observation_representation(name)
        genv.set_state_representation(name)
        o_rep = make_observation_representation(name, inner.observation_space)
        s_rep = make_state_representation(name, inner.state_space)
        check(same_gym_space(genv.observation_space, ref_gym_space(o_rep.space)), 'ospace', *ctx)
        check(same_gym_space(genv.state_space, ref_gym_space(s_rep.space)), 'sspace', *ctx)
        check(same_gym_space(env.observation_space, genv.observation_space), *ctx)
        check(isinstance(genv.action_space, gym.spaces.Discrete), *ctx)
        check(genv.action_space.n == len(actions), *ctx)
        check(env.action_space == genv.action_space, *ctx)

        def expect_o():
            return o_rep.convert(inner.observation)

        def expect_s():
            return s_rep.convert(inner.state)

        def check_views(o):
            check(same_arrays(o, expect_o()), 'observation', *ctx)
            check(genv.observation_space.contains(o), 'o in space', *ctx)
            # repeated reads give the same thing
            check(same_arrays(genv.observation, o), *ctx)
            s = genv.state
            check(same_arrays(s, expect_s()), 'state', *ctx)
            check(genv.state_space.contains(s), 's in space', *ctx)

        # seeding through the gym layer == seeding the inner env
        check(genv.seed(seed) == [seed], 'seed', *ctx)
        inner.set_seed(seed)
        first = env.reset()
        inner.reset()
        check_views(first)

        for t in range(steps):
            i = int(action_rng.integers(len(actions)))
            o, r, d, info = env.step(i)
            r_, d_ = inner.step(actions[i])
            check(type(r) is type(r_) and r == r_, 'reward', t, *ctx)
            check(type(d) is type(d_) and d == d_, 'done', t, *ctx)
            check(info == {}, 'info', *ctx)
            check_views(o)
            if d:
                o = env.reset()
                inner.reset()
                check_views(o)

        # the state wrapper
        wrapped = GymStateWrapper(env)
        check(same_gym_space(wrapped.observation_space, genv.state_space), *ctx)
        check(wrapped.action_space == genv.action_space, *ctx)
        s = wrapped.reset()
        inner.reset()
        # the inner gym layer generates the observation of the fresh state
        # (this matters for the random stream of stochastic observations)
        inner.observation
        check(same_arrays(s, expect_s()), 'w reset', *ctx)
        check(wrapped.observation_space.contains(s), *ctx)
        for t in range(steps):
            i = int(action_rng.integers(len(actions)))
            s, r, d, info = wrapped.step(i)
            r_, d_ = inner.step(actions[i])
            check(type(r) is type(r_) and r == r_, 'w reward', t, *ctx)
            check(type(d) is type(d_) and d == d_, 'w done', t, *ctx)
            check(list(info.keys()) == ['observation'], *ctx)
            check(same_arrays(info['observation'], expect_o()), 'w info', *ctx)
            check(genv.observation_space.contains(info['observation']), *ctx)
            check(same_arrays(s, expect_s()), 'w state', *ctx)
            check(wrapped.observation_space.contains(s), *ctx)
            check(same_arrays(wrapped.observation, s), *ctx)
            if d:
                s = wrapped.reset()
                inner.reset()
                inner.observation
                check(same_arrays(s, expect_s()), 'w reset', *ctx)

        # re-seeding replays the first reset
        genv.outer_env.inner_env.set_seed(seed)
        inner.set_seed(seed)
        again = env.reset()
        inner.reset()
        check(same_arrays(again, first), 're-seed', *ctx)
        check_views(again)


def registered_path(env_id):
    return gym.envs.registry[env_id].kwargs['factory'].args[0]


def run_shipped():
    for env_id in gv_gym.env_ids:
        path = registered_path(env_id)
        check(os.path.basename(path) == gv_gym.STRING_TO_YAML_FILE[env_id], env_id)

        # wrapped directly
        def direct():
            return GymEnvironment(
                OuterEnv(
                    factory_env_from_yaml(path),
                    observation_representation=make_observation_representation(
                        'default', factory_env_from_yaml(path).observation_space
                    ),
                )
            )

        for seed in (0, 1337):
            check_adapter(
                'direct:' + env_id, direct, lambda: factory_env_from_yaml(path), seed, 8
            )

        # through the registered id
        def by_id():
            return gym.make(env_id, disable_env_checker=True)

        env = by_id()
        check(env.unwrapped.state_space is None, env_id)
        check(
            same_gym_space(
                env.unwrapped.observation_space,
                ref_gym_space(
                    make_observation_representation(
                        'default', factory_env_from_yaml(path).observation_space
                    ).space
                ),
            ),
            env_id,
        )
        check_adapter(
            'id:' + env_id, by_id, lambda: factory_env_from_yaml(path), 0xBEEF, 8
        )

        # the same file under yaml/
        top = os.path.join('yaml', gv_gym.STRING_TO_YAML_FILE[env_id])
        if os.path.exists(top):
            check_adapter(
                'yaml:' + env_id,
                lambda: GymEnvironment(OuterEnv(factory_env_from_yaml(top))),
                lambda: factory_env_from_yaml(top),
                5,
                4,
                names=['compact'],
            )


# --------------------------------------------------------------------------
# awkward hand-made configurations
# --------------------------------------------------------------------------
def custom_data(shape, area, actions, observation='partially_occluded', **reset):
    return {
        'state_space': {
            'objects': ['Wall', 'Floor', 'Exit'],
            'colors': ['NONE'],
        },
        'action_space': actions,
        'observation_space': {
            'objects': ['Wall', 'Floor', 'Exit'],
            'colors': ['NONE'],
        },
        'reset_function': dict(name='empty', shape=shape, **reset),
        'transition_functions': [{'name': 'move_agent'}, {'name': 'turn_agent'}],
        'reward_functions': [
            {'name': 'reach_exit', 'reward_on': 3.5, 'reward_off': -0.25},
            {'name': 'living_reward', 'reward': -1.0},
        ],
        'observation_function': {'name': observation, 'area': area},
        'terminating_function': {
            'name': 'reduce_any',
            'terminating_functions': [
                {'name': 'reach_exit'},
                {'name': 'bump_into_wall'},
            ],
        },
    }


CUSTOM = {
    # non-square, corner start, scrambled action order (index i must be the
    # i-th action of *this* list)
    'wide': custom_data(
        [4, 9],
        [[-2, 0], [-1, 1]],
        ['TURN_RIGHT', 'MOVE_LEFT', 'MOVE_FORWARD', 'TURN_LEFT'],
    ),
    'tall': custom_data(
        [11, 4],
        [[-6, 0], [-1, 1]],
        ['MOVE_BACKWARD', 'MOVE_FORWARD', 'TURN_LEFT', 'TURN_RIGHT', 'MOVE_RIGHT', 'MOVE_LEFT'],
        random_agent=True,
        random_exit=True,
    ),
    # a single action; a view much larger than the grid
    'single': custom_data([4, 4], [[-8, 0], [-5, 5]], ['MOVE_FORWARD']),
    # 1x1 view; all eight actions, reversed
    'peephole': custom_data(
        [5, 6],
        [[0, 0], [0, 0]],
        [a.name for a in reversed(list(Action))],
        random_agent=True,
    ),
    # stochastic observations: at most one observation per state
    'stochastic': custom_data(
        [6, 7],
        [[-3, 0], [-2, 2]],
        [a.name for a in Action],
        observation='stochastic_raytracing',
        random_agent=True,
    ),
}


def _copy(data):
    import copy

    return copy.deepcopy(data)


def run_custom():
    for key, data in CUSTOM.items():

        def make_inner():
            return factory_env_from_data(_copy(data))

        def make_env():
            return GymEnvironment(OuterEnv(make_inner()))

        for seed in (0, 3, 2 ** 32 + 5):
            check_adapter('custom:' + key, make_env, make_inner, seed, 25)

    # action index i <-> i-th action, directly
    inner = factory_env_from_data(_copy(CUSTOM['wide']))
    env = GymEnvironment(OuterEnv(inner))
    env.set_observation_representation('compact')
    expected = [Action.TURN_RIGHT, Action.MOVE_LEFT, Action.MOVE_FORWARD, Action.TURN_LEFT]
    check(list(inner.action_space.actions) == expected)
    seen = []
    original = inner.functional_step
    inner.functional_step = lambda s, a: (seen.append(a), original(s, a))[1]
    env.reset()
    for i in (3, 0, 0, 2, 1, -1):
        env.step(i)
    check(seen == [expected[i] for i in (3, 0, 0, 2, 1, -1)], seen)
    for bad in (4, 17, -5):
        try:
            env.step(bad)
            check(False, 'out-of-range index accepted', bad)
        except IndexError:
            check(True)


def run_interleaved():
    """several environments in one process, interleaved"""
    ids = ['GV-Keydoor-5x5-v0', 'GV-DynamicObstacles-7x7-v0', 'GV-Keydoor-5x5-v0']
    seeds = [11, 12, 13]
    envs = [gym.make(i, disable_env_checker=True) for i in ids]
    inners = [factory_env_from_yaml(registered_path(i)) for i in ids]
    reps = [make_observation_representation('default', x.observation_space) for x in inners]
    for env, inner, seed in zip(envs, inners, seeds):
        env.unwrapped.outer_env.inner_env.set_seed(seed)
        inner.set_seed(seed)
    for env, inner, rep in zip(envs, inners, reps):
        check(same_arrays(env.reset(), (inner.reset(), rep.convert(inner.observation))[1]))
    rng = np.random.default_rng(99)
    for t in range(40):
        k = int(rng.integers(len(envs)))
        env, inner, rep = envs[k], inners[k], reps[k]
        i = int(rng.integers(env.action_space.n))
        o, r, d, info = env.step(i)
        r_, d_ = inner.step(inner.action_space.actions[i])
        check((r, d, info) == (r_, d_, {}), 'interleaved', t)
        check(same_arrays(o, rep.convert(inner.observation)), 'interleaved', t)
        check(env.observation_space.contains(o))
        if d:
            check(same_arrays(env.reset(), (inner.reset(), rep.convert(inner.observation))[1]))


# --------------------------------------------------------------------------
# the outer environment on its own
# --------------------------------------------------------------------------
def raises(exception_type, message, f):
    try:
        f()
    except exception_type as e:
        return type(e) is exception_type and (message is None or str(e) == message)
    except BaseException:
        return False
    return False


def run_outer_env():
    data = CUSTOM['tall']
    inner = factory_env_from_data(_copy(data))
    twin = factory_env_from_data(_copy(data))
    outer = OuterEnv(inner)
    check(outer.inner_env is inner)
    check(outer.state_representation is None and outer.observation_representation is None)
    check(outer.action_space is inner.action_space)

    no_state = 'State representation not available'
    no_observation = 'Observation representation not available'
    not_reset = 'The state was not set properly;  was the environment reset?'

    # a missing representation is reported before a missing reset
    check(raises(RuntimeError, no_state, lambda: outer.state))
    check(raises(RuntimeError, no_observation, lambda: outer.observation))
    env = GymEnvironment(outer)
    check(env.state_space is None and env.observation_space is None)
    check(raises(RuntimeError, no_state, lambda: env.state))
    check(raises(RuntimeError, no_observation, lambda: env.observation))
    check(raises(RuntimeError, no_observation, env.reset))

    # representations can be assigned after construction
    outer.state_representation = make_state_representation('compact', inner.state_space)
    check(raises(RuntimeError, no_observation, lambda: outer.observation))
    outer.observation_representation = make_observation_representation(
        'no-overlap', inner.observation_space
    )
    inner._state = None
    inner._observation = None
    check(raises(RuntimeError, not_reset, lambda: outer.state))
    check(raises(RuntimeError, not_reset, lambda: outer.observation))
    check(raises(RuntimeError, not_reset, lambda: outer.step(Action.TURN_LEFT)))

    inner.set_seed(4)
    twin.set_seed(4)
    check(outer.reset() is None)
    twin.reset()
    s_rep = make_state_representation('compact', twin.state_space)
    o_rep = make_observation_representation('no-overlap', twin.observation_space)
    for t in range(30):
        action = twin.action_space.actions[t % twin.action_space.num_actions]
        result = outer.step(action)
        check(type(result) is tuple and result == twin.step(action), t)
        check(same_arrays(outer.state, s_rep.convert(twin.state)))
        check(same_arrays(outer.observation, o_rep.convert(twin.observation)))
        # a fresh dictionary each time, the same content
        check(outer.observation is not outer.observation)
        if result[1]:
            outer.reset()
            twin.reset()
    check(raises(ValueError, None, lambda: outer.step(Action.ACTUATE)))

    # dropping a representation again
    outer.state_representation = None
    check(raises(RuntimeError, no_state, lambda: outer.state))
    check(same_arrays(outer.observation, o_rep.convert(twin.observation)))

    # seed pass-through, if the outer environment offers one
    if hasattr(outer, 'set_seed'):
        for seed in (0, 1, 2 ** 40):
            check(outer.set_seed(seed) is None)
            twin.set_seed(seed)
            outer.reset()
            twin.reset()
            check(same_arrays(outer.observation, o_rep.convert(twin.observation)))

    # state-wrapper over an adapter without state representation: the wrapper
    # is built (the check in its constructor does not raise), using it fails
    env = GymEnvironment(OuterEnv(factory_env_from_data(_copy(data))))
    wrapped = GymStateWrapper(env)
    check(wrapped.observation_space is None)
    check(raises(RuntimeError, no_observation, wrapped.reset))
    env.set_observation_representation('default')
    check(raises(RuntimeError, no_state, wrapped.reset))
    check(raises(RuntimeError, no_state, lambda: wrapped.step(0)))
    check(isinstance(env.reset(), dict))


# --------------------------------------------------------------------------
# representation spaces and their gym counterparts
# --------------------------------------------------------------------------
def outcome(f):
    try:
        return ('ok', f())
    except Exception as e:  # pylint: disable=broad-except
        return ('raise', type(e), str(e))


def run_spaces():
    dtypes = [
        np.int8, np.int16, np.int32, np.int64, np.uint8, np.uint16, np.uint32,
        np.uint64, np.float16, np.float32, np.float64, np.longdouble, np.bool_,
        np.complex64, np.complex128, object, 'U3', 'S2', 'datetime64[s]',
        'timedelta64[s]',
    ]
    for dtype in dtypes:
        for shape in [(), (0,), (3,), (2, 0, 2), (2, 3)]:
            x = np.zeros(shape, dtype=dtype)
            for space_type in SpaceType:
                got = is_dtype_compatible(x, space_type)
                want = ref_is_dtype_compatible(x, space_type)
                check(type(got) is type(want) and got == want, dtype, space_type)
    for bad in [None, 0, 1, 'CONTINUOUS', 'SpaceType.DISCRETE', SpaceType, [], {}, 2.0, np.int64(1)]:
        x = np.zeros(2, dtype=int)
        check(
            raises(ValueError, f'invalid SpaceType {bad}', lambda: is_dtype_compatible(x, bad)),
            'bad space type', bad,
        )

    i = lambda *a: np.array(a, dtype=int)  # noqa: E731
    f = lambda *a: np.array(a, dtype=float)  # noqa: E731

    # constructor validation
    check(raises(ValueError, 'incompatible lower bound dtype float64', lambda: Space(SpaceType.DISCRETE, f(0), i(1))))
    check(raises(ValueError, 'incompatible upper bound dtype float64', lambda: Space(SpaceType.CATEGORICAL, i(0), f(1))))
    check(raises(ValueError, 'incompatible lower bound dtype int64', lambda: Space(SpaceType.CONTINUOUS, i(0), i(1))))
    check(raises(ValueError, 'incompatible bound shapes (1,) (2,)', lambda: Space(SpaceType.DISCRETE, i(0), i(1, 2))))
    check(raises(ValueError, 'incompatible bound values', lambda: Space(SpaceType.DISCRETE, i(0, 3), i(1, 2))))
    check(raises(ValueError, 'invalid SpaceType None', lambda: Space(None, i(0), i(1))))

    spaces = {
        'categorical': Space.make_categorical_space(i(3, 0, 7)),
        'categorical2d': Space.make_categorical_space(np.arange(12).reshape(3, 4)),
        'discrete': Space.make_discrete_space(i(-5, 0, 2), i(-5, 9, 2)),
        'discrete8': Space.make_discrete_space(np.array([0, 1], dtype=np.int8), np.array([5, 1], dtype=np.int8)),
        'continuous': Space.make_continuous_space(f(-1.5, 0.0), f(1.5, 0.0)),
        'continuous32': Space.make_continuous_space(
            np.array([[0.0, -2.0]], dtype=np.float32), np.array([[1.0, 2.0]], dtype=np.float32)
        ),
        'scalar': Space.make_discrete_space(np.array(2), np.array(4)),
        'empty': Space.make_categorical_space(np.zeros((0,), dtype=int)),
    }
    types = {
        'categorical': SpaceType.CATEGORICAL, 'categorical2d': SpaceType.CATEGORICAL,
        'discrete': SpaceType.DISCRETE, 'discrete8': SpaceType.DISCRETE,
        'continuous': SpaceType.CONTINUOUS, 'continuous32': SpaceType.CONTINUOUS,
        'scalar': SpaceType.DISCRETE, 'empty': SpaceType.CATEGORICAL,
    }
    for key, space in spaces.items():
        check(space.space_type is types[key], key)
        check(space.shape == space.lower_bound.shape == space.upper_bound.shape, key)
        if hasattr(space, 'scalar_type'):
            # only with the change: the python type handed to gym
            want = float if types[key] is SpaceType.CONTINUOUS else int
            check(space.scalar_type is want, key)
        check(space.contains(space.lower_bound) and space.contains(space.upper_bound), key)
        check(space == Space(space.space_type, space.lower_bound.copy(), space.upper_bound.copy()), key)
        if space.lower_bound.size:
            check(not space.contains(space.upper_bound + 1), key)
            check(not space.contains(space.lower_bound - 1), key)
        # wrong shapes are rejected without an error, even when they cannot be
        # broadcast against the bounds
        check(space.contains(np.zeros((5, 7), dtype=space.lower_bound.dtype)) is False, key)
        # wrong kind of dtype
        other = float if types[key] is not SpaceType.CONTINUOUS else int
        check(space.contains(space.lower_bound.astype(other)) is False, key)
    check(np.array_equal(spaces['categorical'].lower_bound, i(0, 0, 0)))
    check(spaces['categorical'] != spaces['discrete'])
    check(Space.make_discrete_space(i(0, 0, 0), i(3, 0, 7)) != spaces['categorical'])
    check(spaces['categorical'].__eq__(3) is NotImplemented)

    # conversion to gym spaces
    dicts = [
        {},
        dict(spaces),
        {'only': spaces['continuous32']},
        {k: spaces[k] for k in ('discrete8', 'categorical')},
        {k: spaces[k] for k in reversed(list(spaces))},
    ]
    for d in dicts:
        got = outcome(lambda: outer_space_to_gym_space(d))
        want = outcome(lambda: ref_gym_space(d))
        check(got[0] == want[0] == 'ok', got, want)
        check(same_gym_space(got[1], want[1]), list(d))
        for k, box in got[1].spaces.items():
            check(box.dtype == (np.float64 if d[k].space_type is SpaceType.CONTINUOUS else np.int64), k)
            check(box.contains(np.asarray(d[k].lower_bound, dtype=box.dtype)), k)

    # a space whose type is changed after construction is converted according
    # to its current type
    space = Space.make_discrete_space(i(0), i(4))
    space.space_type = SpaceType.CONTINUOUS
    check(same_gym_space(outer_space_to_gym_space({'x': space}), ref_gym_space({'x': space})))
    check(outer_space_to_gym_space({'x': space})['x'].dtype == np.float64)


run_spaces()
run_outer_env()
run_custom()
run_interleaved()
run_shipped()
print(f'OK ({CHECKS[0]} checks)')
