"""shared part of the demos (pasted verbatim into each demo.py)"""
import hashlib
import itertools as itt
import os
import sys

sys.path.insert(0, os.getcwd())

import numpy as np  # noqa: E402

from gym_gridverse import rng as gv_rng  # noqa: E402
from gym_gridverse.envs import reset_functions as rf  # noqa: E402
from gym_gridverse.geometry import Orientation, Position, Shape  # noqa: E402
from gym_gridverse.grid_object import (  # noqa: E402
    Beacon,
    Color,
    Door,
    Exit,
    Floor,
    Key,
    MovingObstacle,
    NoneGridObject,
    Telepod,
    Wall,
)
from gym_gridverse.state import State  # noqa: E402

# ---------------------------------------------------------------- utilities


def summarize(state):
    """a plain, comparable and hashable description of a state"""
    grid = state.grid
    return (
        grid.shape.as_tuple,
        tuple(
            tuple(repr(grid[y, x]) for x in range(grid.shape.width))
            for y in range(grid.shape.height)
        ),
        state.agent.position.yx,
        state.agent.orientation.name,
        repr(state.agent.grid_object),
    )


def run(function, *args, seed, **kwargs):
    """outcome of a reset function:  state + stream position, or the error"""
    rng = np.random.default_rng(seed)
    try:
        state = function(*args, rng=rng, **kwargs)
    except Exception as error:  # pylint: disable=broad-except
        return ('error', type(error).__name__, str(error)), None
    assert isinstance(state, State), state
    stream = rng.bit_generator.state['state']
    return ('state', summarize(state), (stream['state'], stream['inc'])), state


def cells(state, object_type):
    grid = state.grid
    return [
        position
        for position in grid.area.positions()
        if type(grid[position]) is object_type
    ]


# ------------------------------------------------------- the property (C13)


def check_wellformed(state, shape):
    grid, agent = state.grid, state.agent
    assert grid.shape == shape, (grid.shape, shape)
    assert len(grid.objects) == shape.height
    assert all(len(row) == shape.width for row in grid.objects)

    # unbroken wall boundary
    for y in range(shape.height):
        for x in range(shape.width):
            if y in (0, shape.height - 1) or x in (0, shape.width - 1):
                assert type(grid[y, x]) is Wall, (y, x, grid[y, x])

    # agent inside, empty-handed, on a harmless cell
    assert isinstance(agent.position, Position)
    assert grid.area.contains(agent.position), agent.position
    assert isinstance(agent.orientation, Orientation)
    assert isinstance(agent.grid_object, NoneGridObject)
    under = grid[agent.position]
    assert not under.blocks_movement, under
    assert not isinstance(under, (Exit, MovingObstacle, Telepod)), under


def check_inventory(name, params, state):
    grid = state.grid
    exits = cells(state, Exit)

    if name in ('empty', 'rooms', 'dynamic_obstacles', 'keydoor', 'crossing', 'teleport'):
        assert len(exits) == 1, exits

    if name == 'empty':
        shape = params['shape']
        inside = (shape.height - 2) * (shape.width - 2)
        assert len(cells(state, Floor)) == inside - 1
        assert len(cells(state, Wall)) == shape.height * shape.width - inside
        if not params.get('random_exit', False):
            assert exits == [Position(shape.height - 2, shape.width - 2)]
        if not params.get('random_agent', False):
            assert state.agent.position == Position(1, 1)
            assert state.agent.orientation is Orientation.R

    if name == 'dynamic_obstacles':
        shape = params['shape']
        obstacles = cells(state, MovingObstacle)
        assert len(obstacles) == params['num_obstacles'], obstacles
        inside = (shape.height - 2) * (shape.width - 2)
        assert len(cells(state, Floor)) == inside - 1 - len(obstacles)

    if name == 'keydoor':
        doors, keys = cells(state, Door), cells(state, Key)
        assert len(doors) == 1 and len(keys) == 1, (doors, keys)
        (door,), (key,) = doors, keys
        assert grid[door].is_locked and grid[door].color is Color.YELLOW
        assert grid[key].color is Color.YELLOW
        # the door sits in a wall which divides the grid
        for y in range(grid.shape.height):
            if y != door.y:
                assert type(grid[y, door.x]) is Wall, (y, door.x)
        assert key.x < door.x and state.agent.position.x < door.x
        assert exits[0].x > door.x

    if name == 'crossing':
        # the exit is reachable from the agent through non-river cells
        river = params['object_type']
        seen, todo = {state.agent.position}, [state.agent.position]
        while todo:
            position = todo.pop()
            for dy, dx in ((0, 1), (1, 0), (0, -1), (-1, 0)):
                q = Position(position.y + dy, position.x + dx)
                if q in seen or not grid.area.contains(q):
                    continue
                if type(grid[q]) in (Wall, river):
                    continue
                seen.add(q)
                todo.append(q)
        assert exits[0] in seen

    if name == 'teleport':
        telepods = cells(state, Telepod)
        assert len(telepods) == 2, telepods
        assert grid[telepods[0]].color is grid[telepods[1]].color
        assert state.agent.position == Position(1, 1)

    if name in ('memory', 'memory_rooms'):
        num_exits = params.get('num_exits', 2)
        assert len(exits) == num_exits, exits
        exit_colors = [grid[position].color for position in exits]
        assert len(set(exit_colors)) == len(exit_colors), exit_colors
        assert set(exit_colors) <= set(params['colors'])
        assert Color.NONE not in exit_colors
        beacons = cells(state, Beacon)
        assert len(beacons) == params.get('num_beacons', 2), beacons
        beacon_colors = {grid[position].color for position in beacons}
        assert len(beacon_colors) == 1, beacon_colors
        assert exit_colors.count(beacon_colors.pop()) == 1


def check(name, params, seed):
    """the reset function returns a well-formed state or raises ValueError"""
    outcome, state = run(getattr(rf, name), seed=seed, **params)
    if state is None:
        assert outcome[1] == 'ValueError', (name, params, seed, outcome)
    else:
        try:
            check_wellformed(state, params['shape'])
            check_inventory(name, params, state)
        except AssertionError:
            print('MALFORMED', name, params, seed, file=sys.stderr)
            raise
    return outcome


# ---------------------------------------------------------------- scenarios

SMALL_SHAPES = [Shape(h, w) for h in range(1, 10) for w in range(1, 10)]
BIG_SHAPES = [Shape(4, 17), Shape(17, 4), Shape(11, 13), Shape(13, 11), Shape(15, 15)]
SHAPES = SMALL_SHAPES + BIG_SHAPES
LAYOUTS = [(1, 1), (1, 2), (2, 1), (2, 2), (1, 3), (3, 1), (2, 3), (3, 2), (3, 3)]
COLOR_SETS = [
    set(),
    {Color.RED},
    {Color.RED, Color.NONE},
    {Color.RED, Color.GREEN},
    {Color.YELLOW, Color.BLUE},
    {Color.RED, Color.GREEN, Color.BLUE},
    {Color.RED, Color.GREEN, Color.BLUE, Color.YELLOW},
    set(Color),
]
BOOLS = [False, True]

# ------------------------------------ reference implementation (pristine)
#
# `empty` as it is spelled in the pristine tree:  the agent's candidate cells
# are found by scanning the whole grid for floor objects.

from gym_gridverse.agent import Agent  # noqa: E402
from gym_gridverse.design import draw_wall_boundary  # noqa: E402
from gym_gridverse.grid import Grid  # noqa: E402
from gym_gridverse.rng import choice, get_gv_rng_if_none  # noqa: E402


def reference_empty(shape, random_agent=False, random_exit=False, *, rng=None):
    if shape.height < 4 or shape.width < 4:
        raise ValueError('height and width need to be at least 4')

    rng = get_gv_rng_if_none(rng)

    grid = Grid.from_shape((shape.height, shape.width))
    draw_wall_boundary(grid)

    if random_exit:
        exit_positions = [
            position
            for position in grid.area.positions('inside')
            if random_agent or position != Position(1, 1)
        ]
        exit_position = choice(rng, exit_positions)
    else:
        exit_position = Position(shape.height - 2, shape.width - 2)

    grid[exit_position] = Exit()

    if random_agent:
        positions = [
            position
            for position in grid.area.positions()
            if isinstance(grid[position], Floor)
        ]
        agent_position = choice(rng, positions)
        agent_orientation = choice(rng, list(Orientation))
    else:
        agent_position = Position(1, 1)
        agent_orientation = Orientation.R

    return State(grid, Agent(agent_position, agent_orientation))


class pristine_empty:
    """the functions built on `empty` look it up in their module at each call"""

    def __enter__(self):
        self.saved = rf.empty
        rf.empty = reference_empty

    def __exit__(self, *args):
        rf.empty = self.saved


# ------------------------------------------------------------------- checks

digest = hashlib.sha256()
counts = {'state': 0, 'error': 0}


def canonical(params):
    """parameters spelled independently of the hash order of sets"""
    return sorted(
        (
            key,
            sorted(color.name for color in value)
            if isinstance(value, (set, frozenset))
            else repr(value),
        )
        for key, value in params.items()
    )


def canonical_outcome(outcome):
    """messages which print a set of colours are not stable across processes"""
    if outcome[0] == 'error' and outcome[2].startswith('colors ('):
        return outcome[:2] + (outcome[2].split(')')[-1],)
    return outcome


def record(name, params, seed):
    outcome = check(name, params, seed)
    digest.update(repr((name, canonical(params), seed)).encode())
    digest.update(repr(canonical_outcome(outcome)).encode())
    counts[outcome[0]] += 1
    return outcome


def same_as_reference(name, params, seed):
    outcome = record(name, params, seed)
    if name == 'empty':
        expected, _ = run(reference_empty, seed=seed, **params)
    else:
        with pristine_empty():
            expected, _ = run(getattr(rf, name), seed=seed, **params)
    assert rf.empty is not reference_empty
    assert outcome == expected, (name, params, seed, outcome, expected)
    return outcome


# 1. empty:  every shape from 1x1 up, every flag combination
for shape in SHAPES:
    for random_agent, random_exit in itt.product(BOOLS, BOOLS):
        for seed in range(8):
            same_as_reference(
                'empty',
                dict(shape=shape, random_agent=random_agent, random_exit=random_exit),
                seed,
            )

# positional flags, as the functions built on `empty` pass them
for seed in range(5):
    ours, _ = run(rf.empty, Shape(5, 7), True, True, seed=seed)
    theirs, _ = run(reference_empty, Shape(5, 7), True, True, seed=seed)
    assert ours == theirs

# 2. smallest legal grids, many seeds:  agreement with the reference, and
#    every legal (exit, agent, heading) placement is still produced
for shape in [Shape(4, 4), Shape(4, 5), Shape(5, 4), Shape(4, 9), Shape(9, 4)]:
    inside = [
        (y, x)
        for y in range(1, shape.height - 1)
        for x in range(1, shape.width - 1)
    ]
    corner = (shape.height - 2, shape.width - 2)
    for random_agent, random_exit in itt.product(BOOLS, BOOLS):
        placements = set()
        for seed in range(600 if len(inside) == 4 else 250):
            outcome = same_as_reference(
                'empty',
                dict(shape=shape, random_agent=random_agent, random_exit=random_exit),
                seed,
            )
            _, (_, rows, agent, heading, _), _ = outcome
            (exit_,) = [
                (y, x)
                for y, row in enumerate(rows)
                for x, cell in enumerate(row)
                if cell.startswith('Exit')
            ]
            placements.add((exit_, agent, heading))

        exits = {exit_ for exit_, _, _ in placements}
        agents = {agent for _, agent, _ in placements}
        headings = {heading for _, _, heading in placements}
        assert all(exit_ != agent for exit_, agent, _ in placements)
        if random_exit and random_agent:
            assert exits == set(inside), exits
        elif random_exit:
            assert exits == set(inside) - {(1, 1)}, exits
        else:
            assert exits == {corner}, exits
        if random_agent:
            assert agents == set(inside) - (set() if random_exit else {corner})
            assert headings == {'FORWARD', 'BACKWARD', 'LEFT', 'RIGHT'}
            if len(inside) == 4:
                # all placements of the 2x2 interior
                expected = {
                    (exit_, agent, heading)
                    for exit_ in exits
                    for agent in inside
                    if agent != exit_
                    for heading in headings
                }
                assert placements == expected
        else:
            assert agents == {(1, 1)} and headings == {'RIGHT'}

# 3. the functions built on `empty`
for shape in SHAPES:
    for seed in range(4):
        for num_obstacles, random_agent in itt.product((0, 1, 3, 30), BOOLS):
            same_as_reference(
                'dynamic_obstacles',
                dict(shape=shape, num_obstacles=num_obstacles, random_agent=random_agent),
                seed,
            )
        same_as_reference('keydoor', dict(shape=shape), seed)
        for num_rivers, object_type in itt.product((0, 1, 2, 5), (Wall, MovingObstacle)):
            same_as_reference(
                'crossing',
                dict(shape=shape, num_rivers=num_rivers, object_type=object_type),
                seed,
            )
        same_as_reference('teleport', dict(shape=shape), seed)

# a grid filled up to the last floor cell, and one obstacle too many
for shape in [Shape(4, 4), Shape(4, 6), Shape(7, 5)]:
    vacant = (shape.height - 2) * (shape.width - 2) - 2
    for random_agent, extra in itt.product(BOOLS, (0, 1)):
        for seed in range(20):
            outcome = same_as_reference(
                'dynamic_obstacles',
                dict(shape=shape, num_obstacles=vacant + extra, random_agent=random_agent),
                seed,
            )
            assert outcome[0] == ('error' if extra else 'state')
            if extra:
                assert outcome[2] == (
                    f'Too many obstacles ({vacant + 1}) and not enough '
                    f'vacant positions ({vacant})'
                ), outcome

# 4. repeated calls on one stream, interleaved streams, library stream with
#    re-seeding;  states do not share cells or agents
for shape in [Shape(4, 4), Shape(6, 9), Shape(9, 5)]:
    rng_a, rng_b = np.random.default_rng(21), np.random.default_rng(21)
    previous = None
    for i in range(12):
        flags = dict(random_agent=bool(i % 2), random_exit=bool(i % 3))
        s_a = rf.empty(shape, rng=rng_a, **flags)
        s_b = reference_empty(shape, rng=rng_b, **flags)
        assert summarize(s_a) == summarize(s_b)
        check_wellformed(s_a, shape)
        check_inventory('empty', dict(shape=shape, **flags), s_a)
        if previous is not None:
            assert s_a.grid is not previous.grid
            assert s_a.agent is not previous.agent
            assert all(
                s_a.grid[p] is not previous.grid[p]
                for p in s_a.grid.area.positions()
            )
        previous = s_a
    assert rng_a.bit_generator.state == rng_b.bit_generator.state

    for seed in (0, 1, 0):
        gv_rng.reset_gv_rng(seed)
        ours = [summarize(rf.empty(shape, True, True)) for _ in range(3)]
        ours.append(summarize(rf.dynamic_obstacles(shape, 1, True)))
        ours.append(summarize(rf.teleport(shape)))
        gv_rng.reset_gv_rng(seed)
        theirs = [summarize(reference_empty(shape, True, True)) for _ in range(3)]
        with pristine_empty():
            theirs.append(summarize(rf.dynamic_obstacles(shape, 1, True)))
            theirs.append(summarize(rf.teleport(shape)))
        assert ours == theirs

# no random number is drawn when nothing is random, or when the shape is bad
for shape, flags in [
    (Shape(5, 5), dict()),
    (Shape(3, 9), dict(random_agent=True, random_exit=True)),
    (Shape(9, 3), dict(random_agent=True, random_exit=True)),
]:
    rng = np.random.default_rng(3)
    before = rng.bit_generator.state
    try:
        rf.empty(shape, rng=rng, **flags)
    except ValueError:
        assert shape != Shape(5, 5)
    assert rng.bit_generator.state == before

# 5. through the factory, as environments are built from configuration
function = rf.factory('empty', shape=Shape(6, 5), random_agent=True, random_exit=True)
for seed in range(10):
    outcome, _ = run(function, seed=seed)
    expected, _ = run(reference_empty, Shape(6, 5), True, True, seed=seed)
    assert outcome == expected

# 6. the remaining reset functions:  property + digest of all outcomes
for shape in SHAPES:
    for seed in range(3):
        for layout in LAYOUTS:
            record('rooms', dict(shape=shape, layout=layout), seed)
        for colors in COLOR_SETS:
            record('memory', dict(shape=shape, colors=colors), seed)
for shape, layout in itt.product(SHAPES[::4], LAYOUTS[::2]):
    for colors, num_beacons, num_exits in [
        (COLOR_SETS[1], 1, 2),
        (COLOR_SETS[2], 1, 2),
        (COLOR_SETS[3], 1, 2),
        (COLOR_SETS[3], 0, 2),
        (COLOR_SETS[5], 3, 3),
        (COLOR_SETS[6], 2, 4),
        (COLOR_SETS[7], 1, 2),
    ]:
        for seed in range(2):
            record(
                'memory_rooms',
                dict(shape=shape, layout=layout, colors=colors, num_beacons=num_beacons, num_exits=num_exits),
                seed,
            )

EXPECTED_DIGEST = '9c5bcba18d596143f1e7f619a759fc97e2164b80e50e285d29a9ee9bafa592ac'
EXPECTED_COUNTS = "{'state': 10853, 'error': 10657}"

print('outcomes:', counts, digest.hexdigest())
assert counts['state'] > 3000 and counts['error'] > 3000, counts
assert repr(counts) == EXPECTED_COUNTS, counts
assert digest.hexdigest() == EXPECTED_DIGEST, digest.hexdigest()
print('OK')
