"""Demo for change B (compute_ray marches with an explicit loop).

Exits 0 on the pristine tree and with the patch applied.  Checks

1. ``compute_ray`` against an embedded copy of the lazy pipeline it used to be
   (count -> round -> takewhile(inside) -> unique-everseen), on square /
   non-square / degenerate / shifted areas, every origin, many directions
   (axis-aligned, diagonal, out of [-pi, pi], numpy scalars), several step
   sizes (fine, coarse, larger than a cell, negative), ``unique`` on and off;
2. property C19 for the two ray fans (``compute_rays``, ``compute_rays_fancy``)
   over all areas up to 5x5 x all origins, plus larger / asymmetric / shifted
   areas:  each ray starts at its origin, stays inside the area, has no
   repeated cell, moves between edge- or corner-adjacent cells and ends on the
   border;  the fan covers the whole area;
3. determinism and cache transparency: cached results equal fresh results,
   whatever the order of earlier queries; results are fresh lists (mutating a
   ray returned by ``compute_ray`` does not leak into later calls);
4. end to end: the ray-traced visibility of an unobstructed grid is all-True
   for every origin of non-square grids.
"""
import itertools as itt
import math
import random
import os
import sys
import warnings

warnings.filterwarnings('ignore')
sys.path.insert(0, os.getcwd())  # run from the worktree root

import numpy as np  # noqa: E402

from gym_gridverse.envs.visibility_functions import (  # noqa: E402
    raytracing as raytracing_visibility,
)
from gym_gridverse.geometry import Area, Position  # noqa: E402
from gym_gridverse.grid import Grid  # noqa: E402
from gym_gridverse.grid_object import Floor  # noqa: E402
from gym_gridverse.utils.raytracing import (  # noqa: E402
    cached_compute_rays,
    cached_compute_rays_fancy,
    compute_ray,
    compute_rays,
    compute_rays_fancy,
)

failures = []


def check(condition, message):
    if not condition:
        failures.append(message)
        if len(failures) < 20:
            print('FAIL:', message)


# ---------------------------------------------------------------- references


def ref_contains(ys, xs, y, x):
    return ys[0] <= y and y <= ys[1] and xs[0] <= x and x <= xs[1]


def ref_ray(y0, x0, ys, xs, radians, step_size, unique=True):
    """reference ray marcher on plain tuples"""
    dy = step_size * math.sin(radians)
    dx = step_size * math.cos(radians)
    ray, seen = [], set()
    i = 0
    while True:
        cell = (round(float(y0) + i * dy), round(float(x0) + i * dx))
        if not ref_contains(ys, xs, *cell):
            return ray
        if not unique or cell not in seen:
            seen.add(cell)
            ray.append(cell)
        i += 1


def ref_fancy_radians(y0, x0, ys, xs):
    height = ys[1] - ys[0] + 1
    width = xs[1] - xs[0] + 1
    # cell corners relative to the origin cell centre (half-integers)
    cys = np.array([ys[0] + i - 0.5 - y0 for i in range(height + 1)])
    cxs = np.array([xs[0] + i - 0.5 - x0 for i in range(width + 1)])
    radians = np.arctan2(cys[np.newaxis, :], cxs[:, np.newaxis])
    return [float(rad) for rad in np.sort(radians, axis=None)]


# ------------------------------------------------ 1. compute_ray vs pipeline


def pipeline_ray(position, area, *, radians, step_size, unique=True):
    """the lazy pipeline (no more_itertools: unique-everseen spelled out)"""
    if not ref_contains(area.ys, area.xs, position.y, position.x):
        raise ValueError('outside')

    y0, x0 = float(position.y), float(position.x)
    dy = step_size * math.sin(radians)
    dx = step_size * math.cos(radians)

    ys = (y0 + i * dy for i in itt.count())
    xs = (x0 + i * dx for i in itt.count())
    cells = ((round(y), round(x)) for y, x in zip(ys, xs))
    cells = itt.takewhile(
        lambda cell: ref_contains(area.ys, area.xs, *cell), cells
    )

    def unique_everseen(iterable):
        seen = set()
        for element in iterable:
            if element not in seen:
                seen.add(element)
                yield element

    return list(unique_everseen(cells) if unique else cells)


DIRECTIONS = (
    [k * math.pi / 4 for k in range(-8, 17)]  # axes and diagonals, wrapped
    + [math.atan2(dy, dx) for dy in range(-3, 4) for dx in range(-3, 4)]
    + [0.1, 1.0, 1.5, 2.0, 3.0, 3.1, -0.1, -1.0, -2.5, -3.1, 7.0, -11.0, 100.0]
    + [np.float64(0.75), np.float32(2.25), 1, -2, 0]
)
STEP_SIZES = [0.01, 0.1, 0.5, 1.0, 1.5, -0.05, np.float64(0.25)]
RAY_AREAS = [
    Area((0, 0), (0, 0)),
    Area((0, 0), (0, 4)),
    Area((0, 4), (0, 0)),
    Area((0, 2), (0, 2)),
    Area((0, 2), (0, 5)),
    Area((-3, 0), (-1, 1)),
    Area((-2, 1), (3, 7)),
    Area((7, 9), (-12, -9)),
]
count = 0
for area in RAY_AREAS:
    for origin in area.positions():
        for radians in DIRECTIONS:
            for step_size in STEP_SIZES:
                for unique in (True, False):
                    # coarse steps only: non-unique fine rays are long
                    if not unique and abs(step_size) < 0.1:
                        continue
                    ray = compute_ray(
                        origin,
                        area,
                        radians=radians,
                        step_size=step_size,
                        unique=unique,
                    )
                    expected = pipeline_ray(
                        origin,
                        area,
                        radians=radians,
                        step_size=step_size,
                        unique=unique,
                    )
                    count += 1
                    label = f'compute_ray({origin}, {area}, {radians}, {step_size}, {unique})'
                    check(type(ray) is list, f'{label}: not a list')
                    check(
                        all(type(p) is Position for p in ray),
                        f'{label}: not positions',
                    )
                    check(
                        [p.yx for p in ray] == expected,
                        f'{label}: differs from pipeline',
                    )
                    check(ray[0] == origin, f'{label}: origin')
                    if unique:
                        check(len(set(ray)) == len(ray), f'{label}: repeats')
                    if unique and abs(step_size) <= 1.0:
                        # steps no longer than a cell cannot jump over cells
                        check(
                            all(
                                max(abs(p.y - q.y), abs(p.x - q.x)) == 1
                                for p, q in zip(ray, ray[1:])
                            ),
                            f'{label}: not connected',
                        )
                        check(
                            ray[-1].y in area.ys or ray[-1].x in area.xs,
                            f'{label}: border',
                        )
check(count > 10000, 'too few compute_ray scenarios')

# unique is the default;  truthy / falsy values behave like True / False
area = Area((0, 1), (0, 1))
origin = Position(0, 0)
check(
    [p.yx for p in compute_ray(origin, area, radians=0.0, step_size=0.4)]
    == [(0, 0), (0, 1)],
    'default unique',
)
for falsy in (False, 0, None):
    check(
        [
            p.yx
            for p in compute_ray(
                origin, area, radians=0.0, step_size=0.4, unique=falsy
            )
        ]
        == [(0, 0), (0, 0), (0, 1), (0, 1)],
        f'unique={falsy!r}',
    )

# returned rays are fresh lists:  mutating one does not affect later calls
first = compute_ray(origin, area, radians=0.0, step_size=0.01)
first.append(Position(5, 5))
first.reverse()
check(
    compute_ray(origin, area, radians=0.0, step_size=0.01)
    == [Position(0, 0), Position(0, 1)],
    'compute_ray result is not fresh',
)

# non-finite directions keep failing the way they did (at the first sample)
for bad in (float('nan'), float('inf')):
    for kwargs in (
        {'radians': bad, 'step_size': 0.01},
        {'radians': 0.0, 'step_size': bad},
    ):
        try:
            compute_ray(origin, area, **kwargs)
        except (ValueError, OverflowError):
            pass
        else:
            check(False, f'compute_ray({kwargs}) should raise')

# ---------------------------------------------------- 2./3. ray properties


def check_ray(ray, origin, area, label):
    check(len(ray) > 0 and ray[0] == origin, f'{label}: starts at origin')
    check(all(area.contains(p) for p in ray), f'{label}: leaves area')
    check(
        all(
            ref_contains(area.ys, area.xs, p.y, p.x)
            and type(p.y) is int
            and type(p.x) is int
            for p in ray
        ),
        f'{label}: leaves area (reference)',
    )
    check(len(set(ray)) == len(ray), f'{label}: repeated cell')
    check(
        all(
            max(abs(p.y - q.y), abs(p.x - q.x)) == 1
            for p, q in zip(ray, ray[1:])
        ),
        f'{label}: not connected',
    )
    last = ray[-1]
    check(
        last.y in area.ys or last.x in area.xs,
        f'{label}: does not end on border',
    )


def check_fan(origin, area, *, with_degrees):
    ys, xs = area.ys, area.xs
    everything = {
        (y, x)
        for y in range(ys[0], ys[1] + 1)
        for x in range(xs[0], xs[1] + 1)
    }

    fancy = compute_rays_fancy(origin, area)
    radians = ref_fancy_radians(origin.y, origin.x, ys, xs)
    check(
        len(fancy) == (area.height + 1) * (area.width + 1) == len(radians),
        f'{origin} {area}: number of rays',
    )
    expected = [
        ref_ray(origin.y, origin.x, ys, xs, rad, 0.01) for rad in radians
    ]
    check(
        [[p.yx for p in ray] for ray in fancy] == expected,
        f'{origin} {area}: fancy rays differ from reference',
    )
    for i, ray in enumerate(fancy):
        check_ray(ray, origin, area, f'fancy {origin} {area} #{i}')
    check(
        {p.yx for ray in fancy for p in ray} == everything,
        f'{origin} {area}: fancy fan does not sweep the area',
    )

    if with_degrees:
        rays = compute_rays(origin, area)
        check(len(rays) == 360, 'compute_rays: 360 rays')
        expected = [
            ref_ray(
                origin.y, origin.x, ys, xs, deg * (math.pi / 180.0), 0.01
            )
            for deg in range(360)
        ]
        check(
            [[p.yx for p in ray] for ray in rays] == expected,
            f'{origin} {area}: degree rays differ from reference',
        )
        for i, ray in enumerate(rays):
            check_ray(ray, origin, area, f'degrees {origin} {area} #{i}')
        if area.height <= 7 and area.width <= 7:
            check(
                {p.yx for ray in rays for p in ray} == everything,
                f'{origin} {area}: degree fan does not sweep the area',
            )
    return fancy


# all areas up to 5x5 (at the origin), all origins
for height, width in itt.product(range(1, 6), repeat=2):
    area = Area((0, height - 1), (0, width - 1))
    for origin in area.positions():
        check_fan(
            origin,
            area,
            with_degrees=(height, width) in [(1, 1), (1, 5), (3, 4), (5, 5)]
            and origin in (Position(0, 0), Position(height - 1, width // 2)),
        )

# larger, asymmetric and shifted areas;  corners, borders and interior origins
LARGER = [
    (Area((0, 6), (0, 6)), [(0, 0), (6, 3), (3, 3), (6, 6), (2, 5)]),
    (Area((-6, 0), (-3, 3)), [(0, 0), (-6, -3), (-3, 1), (0, 3)]),
    (Area((-2, 1), (3, 7)), [(0, 5), (-2, 3), (1, 7), (-1, 6)]),
    (Area((0, 1), (0, 10)), [(0, 0), (1, 10), (1, 4)]),
    (Area((0, 10), (0, 1)), [(0, 0), (10, 1), (4, 1)]),
    (Area((0, 8), (0, 10)), [(8, 5), (0, 10), (4, 4)]),
    (Area((5, 5), (-4, 4)), [(5, -4), (5, 0), (5, 4)]),
    (Area((-12, -1), (20, 24)), [(-12, 20), (-1, 24), (-7, 22)]),
]
for area, origins in LARGER:
    for y, x in origins:
        check_fan(
            Position(y, x),
            area,
            with_degrees=(y, x) == origins[0],
        )

# origin outside the area: documented ValueError, for both fans and one ray
for area, outside in [
    (Area((0, 2), (0, 2)), Position(3, 0)),
    (Area((0, 2), (0, 2)), Position(0, -1)),
    (Area((-2, 1), (3, 7)), Position(0, 0)),
    (Area((-2, 1), (3, 7)), Position(2, 8)),
]:
    for function in (compute_rays, compute_rays_fancy):
        try:
            function(outside, area)
        except ValueError:
            pass
        else:
            check(False, f'{function.__name__}({outside}, {area}) no error')
    try:
        compute_ray(outside, area, radians=0.0, step_size=0.01)
    except ValueError:
        pass
    else:
        check(False, f'compute_ray({outside}, {area}) no error')

# hard-coded rays
HARD = [
    (((0, 2), (0, 2)), (0, 0), 0.0, [(0, 0), (0, 1), (0, 2)]),
    (((0, 2), (0, 2)), (0, 0), math.pi / 2, [(0, 0), (1, 0), (2, 0)]),
    (((0, 2), (0, 2)), (0, 0), math.pi / 4, [(0, 0), (1, 1), (2, 2)]),
    (((0, 2), (0, 2)), (0, 0), math.pi, [(0, 0)]),
    (((0, 2), (0, 2)), (0, 0), -math.pi / 2, [(0, 0)]),
    (((-2, 1), (3, 7)), (0, 5), math.pi, [(0, 5), (0, 4), (0, 3)]),
    (((-2, 1), (3, 7)), (0, 5), -math.pi / 2, [(0, 5), (-1, 5), (-2, 5)]),
    (((-2, 1), (3, 7)), (0, 5), 0.3, [(0, 5), (0, 6), (0, 7), (1, 7)]),
    (((-2, 1), (3, 7)), (0, 5), 2.0, [(0, 5), (1, 5), (1, 4)]),
    (
        ((-2, 1), (3, 7)),
        (0, 5),
        -2.5,
        [(0, 5), (0, 4), (-1, 4), (-1, 3), (-2, 3)],
    ),
]
for (ys, xs), (y, x), rad, expected in HARD:
    ray = compute_ray(Position(y, x), Area(ys, xs), radians=rad, step_size=0.01)
    check([p.yx for p in ray] == expected, f'hard-coded ray {ys} {xs} {rad}')

# -------------------------------------------------- 3. cache transparency

queries = [
    (Position(y, x), Area(ys, xs))
    for ys, xs in [((0, 3), (0, 5)), ((0, 5), (0, 3)), ((-3, 0), (-2, 2))]
    for y in range(ys[0], ys[1] + 1)
    for x in range(xs[0], xs[1] + 1)
]
fresh = {query: compute_rays_fancy(*query) for query in queries}
rng = random.Random(19)
for _ in range(3):
    order = queries + rng.sample(queries, len(queries) // 2)
    rng.shuffle(order)
    for query in order:
        # equal-but-not-identical keys hit the same entry
        position, area = query
        key = (Position(position.y, position.x), Area(area.ys, area.xs))
        check(
            cached_compute_rays_fancy(*key) == fresh[query],
            f'cached fancy rays differ for {query}',
        )
    cached_compute_rays_fancy.cache_clear()
check(
    cached_compute_rays(Position(1, 1), Area((0, 2), (0, 3)))
    == compute_rays(Position(1, 1), Area((0, 2), (0, 3)))
    == cached_compute_rays(Position(1, 1), Area((0, 2), (0, 3))),
    'cached degree rays differ',
)

# ------------------------------------------------------- 4. end to end

for height, width in [(1, 1), (1, 6), (6, 1), (3, 5), (5, 3), (7, 7), (4, 9)]:
    grid = Grid.from_shape((height, width), factory=Floor)
    origins = (
        list(grid.area.positions())
        if height * width <= 15
        else list(grid.area.positions('border'))[::3]
        + [Position(height // 2, width // 2)]
    )
    for origin in origins:
        visibility = raytracing_visibility(grid, origin)
        check(
            visibility.shape == (height, width) and bool(visibility.all()),
            f'unobstructed {height}x{width} view from {origin} has holes',
        )
        check(
            np.array_equal(visibility, raytracing_visibility(grid, origin)),
            'repeated visibility query differs',
        )

if failures:
    print(f'{len(failures)} failures')
    sys.exit(1)
print('ok')
