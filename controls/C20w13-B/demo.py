"""Checks property C20 -- the gym adapter is a faithful view of the wrapped
environment -- against a reference implementation embedded in this file.

Run from the worktree root:  /venv/bin/python _seed/B/demo.py

The script exits 0 both on the pristine tree and with the change applied:  it
does not import anything that only exists with the patch.
"""
import copy
import glob
import itertools
import os
import re
import sys
import types
import warnings

warnings.filterwarnings('ignore')
sys.path.insert(0, os.getcwd())

import gym  # noqa: E402
import numpy as np  # noqa: E402

import gym_gridverse.envs.yaml.factory as yaml_factory  # noqa: E402
import gym_gridverse.gym as gv_gym  # noqa: E402
from gym_gridverse.action import Action  # noqa: E402
from gym_gridverse.agent import Agent  # noqa: E402
from gym_gridverse.geometry import Orientation, Position  # noqa: E402
from gym_gridverse.grid import Grid  # noqa: E402
from gym_gridverse.grid_object import (  # noqa: E402
    Beacon,
    Color,
    Door,
    Exit,
    Floor,
    Hidden,
    Key,
    MovingObstacle,
    NoneGridObject,
    Telepod,
    Wall,
)
from gym_gridverse.gym import GymEnvironment, GymStateWrapper  # noqa: E402
from gym_gridverse.observation import Observation  # noqa: E402
from gym_gridverse.outer_env import OuterEnv  # noqa: E402
from gym_gridverse.representations.observation_representations import (  # noqa: E402
    make_observation_representation,
)
from gym_gridverse.representations.spaces import Space, SpaceType  # noqa: E402
from gym_gridverse.representations.state_representations import (  # noqa: E402
    make_state_representation,
)
from gym_gridverse.spaces import (  # noqa: E402
    ActionSpace,
    ObservationSpace,
    StateSpace,
)
from gym_gridverse.state import State  # noqa: E402

NAMES = ['default', 'no-overlap', 'compact']
CHECKS = 0


def check(condition, *context):
    global CHECKS
    CHECKS += 1
    if not condition:
        print('FAILED', *context)
        raise SystemExit(1)


# --------------------------------------------------------------------------
# configurations: the shipped files are read with a tiny parser of the YAML
# subset they use (PyYAML may be missing), plus awkward hand-written ones
# --------------------------------------------------------------------------


def _scalar(text):
    text = text.strip()
    if text in ('True', 'true'):
        return True
    if text in ('False', 'false'):
        return False
    if re.fullmatch(r'[-+]?\d+', text):
        return int(text)
    if re.fullmatch(r'[-+]?(\d+\.\d*|\.\d+)([eE][-+]?\d+)?', text):
        return float(text)
    return text


def _flow(text, i=0):
    assert text[i] == '['
    i += 1
    items, token = [], ''
    while True:
        c = text[i]
        if c == '[':
            item, i = _flow(text, i)
            items.append(item)
            token = ''
            continue
        if c in ',]':
            if token.strip():
                items.append(_scalar(token))
            token = ''
            i += 1
            if c == ']':
                return items, i
            continue
        token += c
        i += 1


def _value(text):
    text = text.strip()
    if text.startswith('['):
        value, end = _flow(text)
        assert not text[end:].strip()
        return value
    return _scalar(text)


def mini_yaml(source):
    lines = []
    for raw in source.splitlines():
        if raw.strip() and not raw.strip().startswith('#'):
            lines.append((len(raw) - len(raw.lstrip(' ')), raw.strip()))

    def block(i, indent):
        if lines[i][1].startswith('-'):
            seq = []
            while (
                i < len(lines)
                and lines[i][0] == indent
                and lines[i][1].startswith('-')
            ):
                body = lines[i][1][1:].lstrip(' ')
                inner = indent + (len(lines[i][1]) - len(body))
                if re.match(r'[A-Za-z_]\w*:(\s|$)', body):
                    lines[i] = (inner, body)
                    item, i = block(i, inner)
                else:
                    item, i = _value(body), i + 1
                seq.append(item)
            return seq, i
        mapping = {}
        while (
            i < len(lines)
            and lines[i][0] == indent
            and not lines[i][1].startswith('-')
        ):
            key, _, rest = lines[i][1].partition(':')
            if rest.strip():
                mapping[key.strip()], i = _value(rest), i + 1
            else:
                mapping[key.strip()], i = block(i + 1, lines[i + 1][0])
        return mapping, i

    data, end = block(0, lines[0][0])
    assert end == len(lines)
    return data


class _MiniYaml(types.SimpleNamespace):
    @staticmethod
    def safe_load(stream):
        return mini_yaml(stream.read())


# the registered ids load their file through `yaml.safe_load`;  without PyYAML
# the name `yaml` resolves to an empty namespace package
if not hasattr(yaml_factory.yaml, 'safe_load'):
    yaml_factory.yaml = _MiniYaml()


def shipped_configs():
    directory = os.path.join(
        os.path.dirname(gv_gym.__file__), 'registered_envs'
    )
    configs = {}
    for path in sorted(glob.glob(os.path.join(directory, '*.yaml'))):
        with open(path) as f:
            configs[os.path.basename(path)] = mini_yaml(f.read())
    return configs


def _living():
    return [{'name': 'living_reward', 'reward': -0.25}]


EXTRA_CONFIGS = {
    # non-square grid, view sticking out behind the agent, narrow view
    'extra.empty.4x7': {
        'state_space': {'objects': ['Wall', 'Floor', 'Exit'], 'colors': ['NONE']},
        'observation_space': {
            'objects': ['Wall', 'Floor', 'Exit'],
            'colors': ['NONE'],
        },
        'reset_function': {
            'name': 'empty',
            'shape': [4, 7],
            'random_agent': True,
            'random_exit': True,
        },
        'transition_functions': [
            {'name': 'move_agent'},
            {'name': 'turn_agent'},
        ],
        'reward_functions': [
            {'name': 'reach_exit', 'reward_on': 3.0, 'reward_off': -0.5},
        ]
        + _living(),
        'observation_function': {
            'name': 'fully_transparent',
            'area': [[-2, 1], [-1, 1]],
        },
        'terminating_function': {'name': 'reach_exit'},
    },
    # permuted, partial action space;  several object states and colours;
    # view which is not centred on the agent
    'extra.keydoor.permuted': {
        'state_space': {
            'objects': ['Wall', 'Floor', 'Exit', 'Door', 'Key'],
            'colors': ['YELLOW'],
        },
        'action_space': [
            'PICK_N_DROP',
            'TURN_RIGHT',
            'MOVE_FORWARD',
            'ACTUATE',
            'TURN_LEFT',
        ],
        'observation_space': {
            'objects': ['Wall', 'Floor', 'Exit', 'Door', 'Key'],
            'colors': ['YELLOW'],
        },
        'reset_function': {'name': 'keydoor', 'shape': [6, 9]},
        'transition_functions': [
            {'name': 'move_agent'},
            {'name': 'turn_agent'},
            {'name': 'actuate_door'},
            {'name': 'pickndrop'},
        ],
        'reward_functions': [
            {
                'name': 'pickndrop',
                'object_type': 'Key',
                'reward_pick': 1.5,
                'reward_drop': -1.5,
            },
            {'name': 'actuate_door', 'reward_open': 2.0, 'reward_close': -2.0},
        ]
        + _living(),
        'observation_function': {
            'name': 'partially_occluded',
            'area': [[-3, 0], [-1, 3]],
        },
        'terminating_function': {'name': 'reach_exit'},
    },
    # a single action, rng-consuming observation function, tall grid
    'extra.rooms.stochastic': {
        'state_space': {'objects': ['Wall', 'Floor', 'Exit'], 'colors': ['NONE']},
        'action_space': ['TURN_LEFT'],
        'observation_space': {
            'objects': ['Wall', 'Floor', 'Exit'],
            'colors': ['NONE'],
        },
        'reset_function': {'name': 'rooms', 'shape': [11, 7], 'layout': [2, 1]},
        'transition_functions': [
            {'name': 'move_agent'},
            {'name': 'turn_agent'},
        ],
        'reward_functions': _living(),
        'observation_function': {
            'name': 'stochastic_raytracing',
            'area': [[-4, 0], [-2, 2]],
        },
        'terminating_function': {'name': 'reach_exit'},
    },
    # all eight actions in reverse order, the view is a single column
    'extra.teleport.reversed': {
        'state_space': {
            'objects': ['Wall', 'Floor', 'Exit', 'Telepod'],
            'colors': ['RED', 'BLUE'],
        },
        'action_space': [a.name for a in reversed(list(Action))],
        'observation_space': {
            'objects': ['Wall', 'Floor', 'Exit', 'Telepod'],
            'colors': ['RED', 'BLUE'],
        },
        'reset_function': {'name': 'teleport', 'shape': [5, 8]},
        'transition_functions': [
            {'name': 'move_agent'},
            {'name': 'turn_agent'},
            {'name': 'teleport'},
        ],
        'reward_functions': [
            {
                'name': 'getting_closer',
                'distance_function': 'manhattan',
                'object_type': 'Exit',
                'reward_closer': 0.5,
                'reward_further': -0.75,
            },
        ]
        + _living(),
        'observation_function': {
            'name': 'raytracing',
            'area': [[-3, 2], [0, 0]],
        },
        'terminating_function': {'name': 'reach_exit'},
    },
}


def make_inner(config):
    # the factory consumes the dictionaries it is given
    return yaml_factory.factory_env_from_data(copy.deepcopy(config))


# --------------------------------------------------------------------------
# reference implementation of the representations and of the gym spaces
# --------------------------------------------------------------------------


def ref_tables(name, object_types, colors):
    """maps of the three channels and the categorical upper bound

    Returns (type_map, state_map, color_map, upper) where the maps are
    dictionaries from type / (type, state index) / color to channel value.
    """
    object_types = sorted(set(object_types), key=lambda t: t.type_index())
    colors = sorted(set(colors), key=lambda c: c.value)
    max_type = max(t.type_index() for t in object_types)
    max_state = max(t.num_states() for t in object_types)
    max_color = max(c.value for c in colors)

    type_map, state_map, color_map = {}, {}, {}
    if name == 'default':
        for t in object_types:
            type_map[t] = t.type_index()
            for j in range(max(t.num_states(), 1)):
                state_map[t, j] = j
        for c in colors:
            color_map[c] = c.value
        upper = [max_type, max_state, max_color]

    elif name == 'no-overlap':
        for t in object_types:
            type_map[t] = t.type_index()
            for j in range(max(t.num_states(), 1)):
                state_map[t, j] = max_type + 1 + j
        for c in colors:
            color_map[c] = max_type + max_state + 2 + c.value
        upper = [
            max_type,
            max_type + max_state + 1,
            max_type + max_state + max_color + 2,
        ]

    elif name == 'compact':
        counter = itertools.count()
        for t in object_types:
            type_map[t] = next(counter)
        for t in object_types:
            for j in range(t.num_states()):
                state_map[t, j] = next(counter)
        for c in colors:
            color_map[c] = next(counter)
        upper = [
            max(type_map.values()),
            max(state_map.values()),
            max(color_map.values()),
        ]

    else:
        raise AssertionError(name)

    return type_map, state_map, color_map, upper


def ref_triple(tables, obj):
    type_map, state_map, color_map, _ = tables
    return [
        type_map[type(obj)],
        state_map[type(obj), obj.state_index],
        color_map[obj.color],
    ]


def ref_grid_array(tables, grid):
    out = np.zeros((grid.shape.height, grid.shape.width, 3), dtype=np.int_)
    for y in range(grid.shape.height):
        for x in range(grid.shape.width):
            out[y, x, :] = ref_triple(tables, grid.objects[y][x])
    return out


def ref_agent_id_grid(grid, agent):
    out = np.zeros((grid.shape.height, grid.shape.width), dtype=np.int_)
    out[agent.position.y, agent.position.x] = 1
    return out


def ref_observation_tables(name, observation_space):
    return ref_tables(
        name,
        list(observation_space.object_types) + [Hidden, NoneGridObject],
        observation_space.colors,
    )


def ref_state_tables(name, state_space):
    return ref_tables(
        name,
        list(state_space.object_types) + [NoneGridObject],
        state_space.colors,
    )


def ref_convert_observation(name, observation_space, observation):
    tables = ref_observation_tables(name, observation_space)
    return {
        'grid': ref_grid_array(tables, observation.grid),
        'agent_id_grid': ref_agent_id_grid(
            observation.grid, observation.agent
        ),
        'item': np.array(
            ref_triple(tables, observation.agent.grid_object), dtype=np.int_
        ),
    }


def ref_convert_state(name, state_space, state):
    tables = ref_state_tables(name, state_space)
    height, width = state.grid.shape.height, state.grid.shape.width
    agent = np.zeros(6, dtype=np.float64)
    agent[0] = (2 * state.agent.position.y - height + 1) / (height - 1)
    agent[1] = (2 * state.agent.position.x - width + 1) / (width - 1)
    agent[2 + state.agent.orientation.value] = 1.0
    return {
        'grid': ref_grid_array(tables, state.grid),
        'agent_id_grid': ref_agent_id_grid(state.grid, state.agent),
        'agent': agent,
        'item': np.array(
            ref_triple(tables, state.agent.grid_object), dtype=np.int_
        ),
    }


def ref_bounds(tables, shape, *, with_agent):
    """dictionary key -> (low, high, dtype) of the advertised boxes"""
    upper = np.array(tables[3], dtype=np.int_)
    height, width = shape.height, shape.width
    bounds = {
        'grid': (
            np.zeros((height, width, 3), dtype=np.int_),
            np.broadcast_to(upper, (height, width, 3)),
            np.int_,
        ),
        'agent_id_grid': (
            np.zeros((height, width), dtype=np.int_),
            np.ones((height, width), dtype=np.int_),
            np.int_,
        ),
    }
    if with_agent:
        bounds['agent'] = (
            np.array([-1.0, -1.0, 0.0, 0.0, 0.0, 0.0]),
            np.ones(6),
            np.float64,
        )
    bounds['item'] = (np.zeros(3, dtype=np.int_), upper, np.int_)
    return bounds


def ref_observation_bounds(name, observation_space):
    return ref_bounds(
        ref_observation_tables(name, observation_space),
        observation_space.grid_shape,
        with_agent=False,
    )


def ref_state_bounds(name, state_space):
    return ref_bounds(
        ref_state_tables(name, state_space),
        state_space.grid_shape,
        with_agent=True,
    )


# --------------------------------------------------------------------------
# comparisons
# --------------------------------------------------------------------------


def same_array(a, b):
    return (
        isinstance(a, np.ndarray)
        and isinstance(b, np.ndarray)
        and a.dtype == b.dtype
        and a.shape == b.shape
        and np.array_equal(a, b)
    )


def check_same_dict(actual, expected, *context):
    check(isinstance(actual, dict), 'not a dict', *context)
    check(
        list(actual.keys()) == list(expected.keys()),
        'keys',
        list(actual.keys()),
        list(expected.keys()),
        *context,
    )
    for key in expected:
        check(
            same_array(actual[key], expected[key]),
            'array',
            key,
            actual[key],
            expected[key],
            *context,
        )


def check_gym_space(space, bounds, *context):
    check(type(space) is gym.spaces.Dict, 'space type', type(space), *context)
    # NOTE gym may sort the keys of a dictionary space
    check(
        sorted(space.spaces.keys()) == sorted(bounds.keys()),
        'space keys',
        list(space.spaces.keys()),
        *context,
    )
    for key, (low, high, dtype) in bounds.items():
        box = space.spaces[key]
        check(type(box) is gym.spaces.Box, 'box type', key, *context)
        check(box.dtype == np.dtype(dtype), 'dtype', key, box.dtype, *context)
        check(box.shape == low.shape, 'shape', key, box.shape, *context)
        check(box.low.dtype == np.dtype(dtype), 'low dtype', key, *context)
        check(box.high.dtype == np.dtype(dtype), 'high dtype', key, *context)
        check(np.array_equal(box.low, low), 'low', key, box.low, *context)
        check(np.array_equal(box.high, high), 'high', key, box.high, *context)


# --------------------------------------------------------------------------
# the property, on an adapter and on a twin inner environment which is driven
# through the inner interface only
# --------------------------------------------------------------------------


class Scenario:
    def __init__(self, label, env, twin, observation_name, state_name):
        self.label = label
        self.env = env  # possibly wrapped by gym.make
        self.gym_env = env.unwrapped
        self.inner = self.gym_env.outer_env.inner_env
        self.twin = twin
        self.observation_name = observation_name
        self.state_name = state_name  # None: no state representation

    def context(self):
        return (self.label, self.observation_name, self.state_name)

    # seeding goes to the inner environments (`gym.utils.seeding.create_seed`
    # is gone in recent gym versions, so `GymEnvironment.seed` may not work)
    def seed(self, seed):
        self.inner.set_seed(seed)
        self.twin.set_seed(seed)

    def switch_observation(self, name):
        self.gym_env.set_observation_representation(name)
        self.observation_name = name
        self.check_spaces()

    def switch_state(self, name):
        self.gym_env.set_state_representation(name)
        self.state_name = name
        self.check_spaces()

    def check_spaces(self):
        gym_env = self.gym_env
        check(type(gym_env.action_space) is gym.spaces.Discrete)
        check(
            gym_env.action_space.n == len(self.twin.action_space.actions),
            'number of actions',
            *self.context(),
        )
        check_gym_space(
            gym_env.observation_space,
            ref_observation_bounds(
                self.observation_name, self.twin.observation_space
            ),
            'observation space',
            *self.context(),
        )
        # the advertised space views the representation which converts
        check(
            sorted(gym_env.observation_space.spaces.keys())
            == sorted(gym_env.outer_env.observation_representation.space.keys())
        )
        if self.state_name is None:
            check(gym_env.state_space is None, 'state space', *self.context())
            check(gym_env.outer_env.state_representation is None)
        else:
            check_gym_space(
                gym_env.state_space,
                ref_state_bounds(self.state_name, self.twin.state_space),
                'state space',
                *self.context(),
            )

    def expected_observation(self):
        return ref_convert_observation(
            self.observation_name,
            self.twin.observation_space,
            self.twin.observation,
        )

    def expected_state(self):
        return ref_convert_state(
            self.state_name, self.twin.state_space, self.twin.state
        )

    def check_views(self, *context):
        """the properties of the adapter, read repeatedly"""
        context = context + self.context()
        for _ in range(2):
            check_same_dict(
                self.gym_env.observation,
                self.expected_observation(),
                'observation property',
                *context,
            )
        check(
            self.gym_env.observation_space.contains(self.gym_env.observation),
            'observation in space',
            *context,
        )
        if self.state_name is not None:
            check_same_dict(
                self.gym_env.state,
                self.expected_state(),
                'state property',
                *context,
            )
            check(
                self.gym_env.state_space.contains(self.gym_env.state),
                'state in space',
                *context,
            )
        else:
            try:
                self.gym_env.state
            except RuntimeError:
                check(True)
            else:
                check(False, 'state without representation', *context)

    def reset(self):
        observation = self.env.reset()
        self.twin.reset()
        check(self.inner.state == self.twin.state, 'reset', *self.context())
        check_same_dict(
            observation, self.expected_observation(), 'reset', *self.context()
        )
        check(
            self.gym_env.observation_space.contains(observation),
            'reset in space',
            *self.context(),
        )
        self.check_views('reset')

    def step(self, index):
        observation, reward, done, info = self.env.step(index)
        # the i-th action of the action space, through the inner interface
        expected_reward, expected_done = self.twin.step(
            self.twin.action_space.actions[index]
        )
        context = ('step', index) + self.context()
        check(self.inner.state == self.twin.state, 'post-step state', *context)
        check(type(reward) is type(expected_reward), 'reward type', *context)
        check(reward == expected_reward, 'reward', reward, *context)
        check(type(done) is type(expected_done), 'done type', *context)
        check(done == expected_done, 'done', done, *context)
        check(info == {} and type(info) is dict, 'info', info, *context)
        check_same_dict(observation, self.expected_observation(), *context)
        check(
            self.gym_env.observation_space.contains(observation),
            'in space',
            *context,
        )
        self.check_views(*context)
        return done

    def wrapped_reset(self, wrapper):
        state = wrapper.reset()
        self.twin.reset()
        check(self.inner.state == self.twin.state, 'reset', *self.context())
        check_same_dict(
            state, self.expected_state(), 'wrapper reset', *self.context()
        )
        check(wrapper.observation_space.contains(state), *self.context())
        self.check_views('wrapper reset')

    def wrapped_step(self, wrapper, index):
        state, reward, done, info = wrapper.step(index)
        expected_reward, expected_done = self.twin.step(
            self.twin.action_space.actions[index]
        )
        context = ('wrapper step', index) + self.context()
        check(self.inner.state == self.twin.state, 'post-step state', *context)
        check(reward == expected_reward, 'reward', reward, *context)
        check(type(reward) is type(expected_reward), 'reward type', *context)
        check(done == expected_done, 'done', done, *context)
        check(type(done) is type(expected_done), 'done type', *context)
        check_same_dict(state, self.expected_state(), *context)
        check(wrapper.observation_space.contains(state), 'in space', *context)
        check(list(info.keys()) == ['observation'], 'info', info, *context)
        check_same_dict(
            info['observation'], self.expected_observation(), *context
        )
        check(
            self.gym_env.observation_space.contains(info['observation']),
            'info in space',
            *context,
        )
        check_same_dict(wrapper.observation, self.expected_state(), *context)
        self.check_views(*context)
        return done

    def make_wrapper(self):
        wrapper = GymStateWrapper(self.env)
        check(
            wrapper.observation_space is self.gym_env.state_space,
            'wrapper space',
            *self.context(),
        )
        check(wrapper.action_space is self.gym_env.action_space)
        check_gym_space(
            wrapper.observation_space,
            ref_state_bounds(self.state_name, self.twin.state_space),
            'wrapper space',
            *self.context(),
        )
        return wrapper


def action_indices(num_actions, length, rng):
    """every index first (so that each one is exercised), then random ones"""
    indices = list(range(num_actions))
    indices += [int(i) for i in rng.integers(num_actions, size=length)]
    return indices


def run_episode(scenario, seed, length, switches, rng):
    """runs the adapter and the twin side by side

    `switches` maps step number to ('observation' | 'state', name)
    """
    scenario.seed(seed)
    scenario.check_spaces()
    scenario.reset()
    indices = action_indices(scenario.gym_env.action_space.n, length, rng)
    for t, index in enumerate(indices):
        for kind, name in switches.get(t, []):
            if kind == 'observation':
                scenario.switch_observation(name)
            else:
                scenario.switch_state(name)
            scenario.check_views('after switch')
        if scenario.step(index):
            scenario.reset()


def run_wrapped_episode(scenario, seed, length, names, rng):
    scenario.seed(seed)
    for name in names:
        scenario.switch_state(name)
        wrapper = scenario.make_wrapper()
        scenario.wrapped_reset(wrapper)
        indices = action_indices(scenario.gym_env.action_space.n, length, rng)
        for index in indices:
            if scenario.wrapped_step(wrapper, index):
                scenario.wrapped_reset(wrapper)


def direct_scenario(label, config, observation_name, state_name):
    inner = make_inner(config)
    outer = OuterEnv(
        inner,
        state_representation=None
        if state_name is None
        else make_state_representation(state_name, inner.state_space),
        observation_representation=make_observation_representation(
            observation_name, inner.observation_space
        ),
    )
    return Scenario(
        label,
        GymEnvironment(outer),
        make_inner(config),
        observation_name,
        state_name,
    )


def registered_scenario(env_id, config):
    try:
        env = gym.make(env_id, disable_env_checker=True)
    except TypeError:  # older gym
        env = gym.make(env_id)
    check(type(env.unwrapped) is GymEnvironment)
    return Scenario(env_id, env, make_inner(config), 'default', None)


def main_property(lengths=(6, 5)):
    rng = np.random.default_rng(20)
    shipped = shipped_configs()
    check(len(shipped) == 21, 'shipped configurations', len(shipped))
    check(
        sorted(gv_gym.STRING_TO_YAML_FILE.values()) == sorted(shipped),
        'registered files',
    )

    configs = dict(shipped)
    configs.update(EXTRA_CONFIGS)
    rotation = itertools.cycle(itertools.permutations(NAMES))

    for n, (label, config) in enumerate(configs.items()):
        order = next(rotation)
        seed = 1000 + 7 * n

        # wrapped directly, starting from each representation in turn
        scenario = direct_scenario(
            label, config, order[0], None if n % 2 else order[2]
        )
        run_episode(
            scenario,
            seed,
            lengths[0],
            {
                2: [('observation', order[1])],
                4: [('state', order[0]), ('observation', order[2])],
                6: [('state', order[1]), ('observation', order[2])],
            },
            rng,
        )
        # re-seeding restarts the same episode
        scenario.seed(seed)
        first = scenario.env.reset()
        scenario.twin.reset()
        scenario.seed(seed)
        second = scenario.env.reset()
        scenario.twin.reset()
        check_same_dict(first, second, 're-seeding', label)
        check_same_dict(second, scenario.expected_observation(), label)

        # the state wrapper, under every state representation
        run_wrapped_episode(scenario, seed + 1, lengths[1], order, rng)

    # through the registered ids;  two adapters alive at the same time
    previous = None
    for n, (env_id, filename) in enumerate(
        gv_gym.STRING_TO_YAML_FILE.items()
    ):
        check(env_id in gv_gym.env_ids)
        order = next(rotation)
        scenario = registered_scenario(env_id, shipped[filename])
        run_episode(
            scenario,
            77 + n,
            lengths[0],
            {
                3: [('observation', order[0]), ('state', order[1])],
                5: [('observation', order[1])],
            },
            rng,
        )
        run_wrapped_episode(scenario, 78 + n, 2, [order[2]], rng)
        if previous is not None:
            # the other adapter was not disturbed
            previous.check_spaces()
            previous.check_views('interleaved')
            previous.step(0)
        previous = scenario


def main_invalid_names():
    config = shipped_configs()['gv_keydoor.5x5.yaml']
    scenario = direct_scenario('invalid names', config, 'compact', 'no-overlap')
    scenario.seed(5)
    scenario.reset()
    for bad in ['', 'Default', 'no_overlap', 'nope']:
        gym_env = scenario.gym_env
        before = (
            gym_env.state_space,
            gym_env.observation_space,
            gym_env.outer_env.state_representation,
            gym_env.outer_env.observation_representation,
        )
        for setter in (
            gym_env.set_state_representation,
            gym_env.set_observation_representation,
        ):
            try:
                setter(bad)
            except ValueError:
                check(True)
            else:
                check(False, 'invalid name accepted', bad)
        after = (
            gym_env.state_space,
            gym_env.observation_space,
            gym_env.outer_env.state_representation,
            gym_env.outer_env.observation_representation,
        )
        check(all(a is b for a, b in zip(before, after)), 'changed', bad)
        scenario.check_spaces()
        scenario.check_views('invalid name', bad)


def main_no_representations():
    config = shipped_configs()['gv_empty.4x4.yaml']
    inner = make_inner(config)
    gym_env = GymEnvironment(OuterEnv(inner))
    check(gym_env.state_space is None and gym_env.observation_space is None)
    check(gym_env.action_space.n == 6)
    inner.set_seed(0)
    try:
        gym_env.reset()
    except RuntimeError:
        check(True)
    else:
        check(False, 'observation without representation')
    # the inner environment was reset all the same, and stepping works
    twin = make_inner(config)
    twin.set_seed(0)
    twin.reset()
    check(inner.state == twin.state)
    gym_env.set_observation_representation('no-overlap')
    scenario = Scenario('late', gym_env, twin, 'no-overlap', None)
    scenario.check_spaces()
    scenario.check_views('late representation')
    scenario.step(4)
    scenario.switch_state('compact')
    scenario.step(0)


def main_space_conversion():
    """`outer_space_to_gym_space` on hand-made spaces"""
    convert = gv_gym.outer_space_to_gym_space

    empty = convert({})
    check(type(empty) is gym.spaces.Dict and len(empty.spaces) == 0)

    spaces = {
        'z': Space.make_categorical_space(np.array([[3, 0], [1, 7], [2, 2]])),
        'a': Space.make_discrete_space(
            np.array([-4, 0, 2]), np.array([-4, 9, 2])
        ),
        'm': Space.make_continuous_space(
            np.array([[-1.5], [0.0]]), np.array([[2.25], [0.0]])
        ),
        'scalar': Space(SpaceType.DISCRETE, np.array(1), np.array(5)),
        'none': Space.make_categorical_space(np.zeros((0, 3), dtype=int)),
        'small': Space(
            SpaceType.CATEGORICAL,
            np.array([0, 1], dtype=np.int8),
            np.array([4, 1], dtype=np.int8),
        ),
        'single': Space(
            SpaceType.CONTINUOUS,
            np.array([0.5], dtype=np.float32),
            np.array([0.75], dtype=np.float32),
        ),
    }
    expected = {
        'z': (np.zeros((3, 2), int), np.array([[3, 0], [1, 7], [2, 2]]), int),
        'a': (np.array([-4, 0, 2]), np.array([-4, 9, 2]), int),
        'm': (np.array([[-1.5], [0.0]]), np.array([[2.25], [0.0]]), float),
        'scalar': (np.array(1), np.array(5), int),
        'none': (np.zeros((0, 3), int), np.zeros((0, 3), int), int),
        'small': (np.array([0, 1]), np.array([4, 1]), int),
        'single': (np.array([0.5]), np.array([0.75]), float),
    }
    for _ in range(2):
        check_gym_space(convert(spaces), expected, 'hand-made spaces')

    converted = convert(spaces)
    check(converted.contains({k: v[0] for k, v in expected.items()}))
    check(converted.contains({k: v[1] for k, v in expected.items()}))
    sample = {k: v[0].copy() for k, v in expected.items()}
    sample['a'] = np.array([-4, 10, 2])
    check(not converted.contains(sample))
    sample = {k: v[0].copy() for k, v in expected.items()}
    sample['m'] = np.array([[-1.5], [0.5]])
    check(not converted.contains(sample))
    sample = {k: v[0].copy() for k, v in expected.items()}
    sample['z'] = sample['z'].astype(float)
    check(not converted.contains(sample))

    # every space type is covered:  integers unless continuous
    for space_type in SpaceType:
        bound = (
            np.array([0.0, 1.0])
            if space_type is SpaceType.CONTINUOUS
            else np.array([0, 1])
        )
        box = convert({'k': Space(space_type, bound, bound)}).spaces['k']
        expected_dtype = (
            np.float64 if space_type is SpaceType.CONTINUOUS else np.int_
        )
        check(box.dtype == np.dtype(expected_dtype), space_type)


# --------------------------------------------------------------------------
# representations on hand-made states and observations
# --------------------------------------------------------------------------


def _objects_for(y, x):
    pool = [
        Floor(),
        Wall(),
        Exit(),
        Exit(Color.GREEN),
        Door(Door.Status.OPEN, Color.RED),
        Door(Door.Status.CLOSED, Color.BLUE),
        Door(Door.Status.LOCKED, Color.YELLOW),
        Key(Color.NONE),
        Key(Color.YELLOW),
        MovingObstacle(),
        Telepod(Color.GREEN),
        Beacon(Color.BLUE),
    ]
    return pool[(3 * y + 5 * x) % len(pool)]


def main_hand_made():
    object_types = [
        Floor,
        Wall,
        Exit,
        Door,
        Key,
        MovingObstacle,
        Telepod,
        Beacon,
    ]
    colors = [Color.RED, Color.GREEN, Color.BLUE, Color.YELLOW]
    items = [None, Key(Color.RED), Door(Door.Status.LOCKED, Color.NONE)]

    for height, width in [(1, 1), (1, 5), (5, 1), (2, 3), (3, 7), (6, 5)]:
        grid = Grid(
            [[_objects_for(y, x) for x in range(width)] for y in range(height)]
        )
        corners = {
            (0, 0),
            (0, width - 1),
            (height - 1, 0),
            (height - 1, width - 1),
            (height // 2, width // 2),
        }

        # states
        state_space = StateSpace(grid.shape, object_types, colors)
        for name in NAMES:
            representation = make_state_representation(name, state_space)
            bounds = ref_state_bounds(name, state_space)
            for _ in range(2):
                space = representation.space
                check(list(space.keys()) == list(bounds.keys()))
                for key, (low, high, dtype) in bounds.items():
                    check(
                        same_array(space[key].lower_bound, low.astype(dtype))
                        and same_array(
                            space[key].upper_bound,
                            np.array(high, dtype=dtype),
                        ),
                        'hand-made state space',
                        name,
                        key,
                        (height, width),
                    )
            gym_space = gv_gym.outer_space_to_gym_space(representation.space)
            check_gym_space(gym_space, bounds, 'hand-made', name)

            if height == 1 or width == 1:
                continue  # the agent coordinates cannot be normalized

            for (y, x), orientation, item in itertools.product(
                sorted(corners), Orientation, items
            ):
                state = State(grid, Agent(Position(y, x), orientation, item))
                expected = ref_convert_state(name, state_space, state)
                for _ in range(2):
                    check_same_dict(
                        representation.convert(state),
                        expected,
                        'hand-made state',
                        name,
                        (height, width),
                        (y, x),
                    )
                check(gym_space.contains(representation.convert(state)))

        # observations (odd widths only), some cells hidden
        if width % 2 == 0:
            continue
        observed = Grid(
            [
                [
                    Hidden() if (y + 2 * x) % 4 == 0 else _objects_for(y, x)
                    for x in range(width)
                ]
                for y in range(height)
            ]
        )
        observation_space = ObservationSpace(grid.shape, object_types, colors)
        for name in NAMES:
            representation = make_observation_representation(
                name, observation_space
            )
            bounds = ref_observation_bounds(name, observation_space)
            gym_space = gv_gym.outer_space_to_gym_space(representation.space)
            check_gym_space(gym_space, bounds, 'hand-made observation', name)
            for (y, x), item in itertools.product(sorted(corners), items):
                observation = Observation(
                    observed, Agent(Position(y, x), Orientation.F, item)
                )
                expected = ref_convert_observation(
                    name, observation_space, observation
                )
                for _ in range(2):
                    check_same_dict(
                        representation.convert(observation),
                        expected,
                        'hand-made observation',
                        name,
                        (height, width),
                        (y, x),
                    )
                check(gym_space.contains(representation.convert(observation)))


def main_action_table():
    """index i is the i-th action, whatever the order of the action space"""
    config = copy.deepcopy(EXTRA_CONFIGS['extra.teleport.reversed'])
    for actions in [
        list(Action),
        list(reversed(list(Action))),
        [Action.TURN_LEFT],
        [Action.MOVE_LEFT, Action.TURN_RIGHT, Action.ACTUATE],
    ]:
        config['action_space'] = [a.name for a in actions]
        scenario = direct_scenario('action table', config, 'default', None)
        check(scenario.inner.action_space.actions == actions)
        check(scenario.gym_env.action_space.n == len(actions))
        for index, action in enumerate(actions):
            scenario.seed(3)
            scenario.reset()
            state = scenario.inner.state
            twin = make_inner(config)
            twin.set_seed(3)
            twin.reset()
            twin.set_seed(4)
            scenario.inner.set_seed(4)
            expected = twin.functional_step(twin.state, action)
            check(state == twin.state)
            _, reward, done, _ = scenario.gym_env.step(index)
            check(scenario.inner.state == expected[0], 'table', index, action)
            check((reward, done) == expected[1:], 'table', index, action)


def main_grid_fields():
    """the `grid` field on its own:  repeated reads, tiling of the bounds"""
    for config in EXTRA_CONFIGS.values():
        inner = make_inner(config)
        inner.set_seed(11)
        inner.reset()
        for name in NAMES:
            state_representation = make_state_representation(
                name, inner.state_space
            )
            observation_representation = make_observation_representation(
                name, inner.observation_space
            )
            for representation, tables, shape, value in [
                (
                    state_representation.representations['grid'],
                    ref_state_tables(name, inner.state_space),
                    inner.state_space.grid_shape,
                    inner.state,
                ),
                (
                    observation_representation.representations['grid'],
                    ref_observation_tables(name, inner.observation_space),
                    inner.observation_space.grid_shape,
                    inner.observation,
                ),
            ]:
                item_space = representation.grid_object_representation.space
                check(item_space.space_type is SpaceType.CATEGORICAL)
                check(same_array(item_space.upper_bound, np.array(tables[3])))
                spaces = [representation.space for _ in range(3)]
                for space in spaces:
                    check(space.space_type is SpaceType.CATEGORICAL)
                    check(space.shape == (shape.height, shape.width, 3))
                    check(space.lower_bound.dtype == np.dtype(np.int_))
                    check(space.upper_bound.dtype == np.dtype(np.int_))
                    check(not space.lower_bound.any())
                    check((space.upper_bound == np.array(tables[3])).all())
                    check(space == spaces[0])
                # fresh arrays:  writing into one does not leak into the next
                spaces[0].upper_bound[...] = -7
                check((spaces[1].upper_bound == np.array(tables[3])).all())
                check((representation.space.upper_bound >= 0).all())

                arrays = [representation.convert(value) for _ in range(2)]
                expected = ref_grid_array(tables, value.grid)
                check(same_array(arrays[0], expected), 'grid field', name)
                check(same_array(arrays[1], expected), 'grid field', name)
                check(arrays[0] is not arrays[1])
                check(spaces[1].contains(arrays[0]))


if __name__ == '__main__':
    main_grid_fields()
    main_hand_made()
    main_space_conversion()
    main_no_representations()
    main_invalid_names()
    main_action_table()
    main_property()
    print(f'OK ({CHECKS} checks)')
