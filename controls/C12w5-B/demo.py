"""Demo for refactoring B (control-flow rewrites in the event rewards).

Run as:  cd /tmp/wt5-C12 && /venv/bin/python -W ignore _seed/B/demo.py

Compares the library's built-in reward / terminating functions (obtained via
the public factories) with an independent re-implementation contained in this
file, over every agent pose x every action on many small random grids
(including 1x1 and 1xN grids, grid edges, agents standing on walls, every
door-status pair, held items of several types, missing beacons, unusual
parameter values), with real-dynamics and arbitrary next states, plus
random-action trajectories of the shipped configurations.  The emphasis
(scale factor 2) is on bump_into_wall, actuate_door, pickndrop and
reach_exit_memory, which refactoring B touches.
"""
import os
import sys

sys.path.insert(0, os.getcwd())

import copy
import itertools
import math
import random
from collections import deque
from functools import partial

from gym_gridverse.action import Action
from gym_gridverse.agent import Agent
from gym_gridverse.envs import reward_functions as rf
from gym_gridverse.envs import terminating_functions as tf
from gym_gridverse.envs import transition_functions as trf
from gym_gridverse.envs.yaml.factory import factory_env_from_data
from gym_gridverse.geometry import Orientation, Position
from gym_gridverse.grid import Grid
from gym_gridverse.grid_object import (
    Beacon,
    Color,
    Door,
    Exit,
    Floor,
    Key,
    MovingObstacle,
    Telepod,
    Wall,
)
from gym_gridverse.state import State

CHECKS = 0

# ---------------------------------------------------------------------------
# independent reference semantics (works on the raw object lists only; does not
# call anything in reward_functions / terminating_functions / envs.utils)
# ---------------------------------------------------------------------------

OBJECT_TYPES = {
    'Exit': Exit,
    'Wall': Wall,
    'Key': Key,
    'Beacon': Beacon,
    'MovingObstacle': MovingObstacle,
    'Door': Door,
    'Floor': Floor,
    'Telepod': Telepod,
}

# heading vectors, clockwise starting from "up"
HEADINGS = [Orientation.F, Orientation.R, Orientation.B, Orientation.L]
VECTORS = [(-1, 0), (0, 1), (1, 0), (0, -1)]
MOVE_TURNS = {
    Action.MOVE_FORWARD: 0,
    Action.MOVE_RIGHT: 1,
    Action.MOVE_BACKWARD: 2,
    Action.MOVE_LEFT: 3,
}


def cell(state, y, x):
    return state.grid.objects[y][x]


def dims(state):
    return len(state.grid.objects), len(state.grid.objects[0])


def apos(state):
    p = state.agent.position
    return p.y, p.x


def is_a(obj, object_type):
    return object_type in type(obj).__mro__


def inside(state, y, x):
    h, w = dims(state)
    return 0 <= y < h and 0 <= x < w


def find_all(state, object_type):
    h, w = dims(state)
    return [
        (y, x)
        for y in range(h)
        for x in range(w)
        if is_a(cell(state, y, x), object_type)
    ]


def attempted_cell(state, action):
    y, x = apos(state)
    if action in MOVE_TURNS:
        k = (HEADINGS.index(state.agent.orientation) + MOVE_TURNS[action]) % 4
        dy, dx = VECTORS[k]
        return y + dy, x + dx
    return y, x


def front_cell(state):
    y, x = apos(state)
    dy, dx = VECTORS[HEADINGS.index(state.agent.orientation)]
    return y + dy, x + dx


def manhattan(p, q):
    return abs(p[0] - q[0]) + abs(p[1] - q[1])


def euclidean(p, q):
    return math.sqrt((p[0] - q[0]) ** 2 + (p[1] - q[1]) ** 2)


def bfs_distance(state, source, target):
    """4-connected hop distance from source to target; only the source may
    be a blocking cell; inf if unreachable"""
    h, w = dims(state)
    dist = {source: 0.0}
    todo = deque([source])
    while todo:
        y, x = todo.popleft()
        for dy, dx in VECTORS:
            n = (y + dy, x + dx)
            if (
                0 <= n[0] < h
                and 0 <= n[1] < w
                and n not in dist
                and not cell(state, *n).blocks_movement
            ):
                dist[n] = dist[(y, x)] + 1
                todo.append(n)
    return dist.get(target, float('inf'))


class Raises:
    def __init__(self, exception_type):
        self.exception_type = exception_type

    def __repr__(self):
        return f'Raises({self.exception_type.__name__})'


def pick3(prev, nxt, closer, further):
    if nxt < prev:
        return closer
    if nxt > prev:
        return further
    return 0.0


def ref_reward(spec, s, a, ns):
    """reference value of reward `spec` (a dict in the yaml format), or a
    Raises instance"""
    name = spec['name']

    if name == 'reduce_sum':
        total = 0
        for sub in spec['reward_functions']:
            r = ref_reward(sub, s, a, ns)
            if isinstance(r, Raises):
                return r
            total = total + r
        return total

    if name == 'living_reward':
        return spec.get('reward', -1.0)

    if name in ('overlap', 'reach_exit', 'bump_moving_obstacle'):
        if name == 'overlap':
            object_type = OBJECT_TYPES[spec['object_type']]
            on, off = spec.get('reward_on', 1.0), spec.get('reward_off', 0.0)
        elif name == 'reach_exit':
            object_type = Exit
            on, off = spec.get('reward_on', 1.0), spec.get('reward_off', 0.0)
        else:
            object_type = MovingObstacle
            on, off = spec.get('reward', -1.0), 0.0
        return on if is_a(cell(ns, *apos(ns)), object_type) else off

    if name == 'bump_into_wall':
        y, x = attempted_cell(s, a)
        hit = inside(s, y, x) and is_a(cell(s, y, x), Wall)
        return spec.get('reward', -1.0) if hit else 0.0

    if name == 'proportional_to_distance':
        object_type = OBJECT_TYPES[spec['object_type']]
        found = find_all(ns, object_type)
        if len(found) != 1:
            return Raises(ValueError)
        metric = {'manhattan': manhattan, 'euclidean': euclidean}[
            spec.get('distance_function', 'manhattan')
        ]
        return spec.get('reward_per_unit_distance', -1.0) * metric(
            apos(ns), found[0]
        )

    if name in ('getting_closer', 'getting_closer_shortest_path'):
        object_type = OBJECT_TYPES[spec['object_type']]
        distances = []
        for st in (s, ns):
            found = find_all(st, object_type)
            if len(found) != 1:
                return Raises(ValueError)
            if name == 'getting_closer':
                metric = {'manhattan': manhattan, 'euclidean': euclidean}[
                    spec.get('distance_function', 'manhattan')
                ]
                distances.append(metric(apos(st), found[0]))
            else:
                distances.append(bfs_distance(st, found[0], apos(st)))
        return pick3(
            distances[0],
            distances[1],
            spec.get('reward_closer', 1.0),
            spec.get('reward_further', -1.0),
        )

    if name == 'actuate_door':
        if a != Action.ACTUATE:
            return 0.0
        y, x = front_cell(s)
        if not inside(s, y, x):
            return 0.0
        before, after = cell(s, y, x), cell(ns, y, x)
        if not (is_a(before, Door) and is_a(after, Door)):
            return 0.0
        was = before.state == Door.Status.OPEN
        now = after.state == Door.Status.OPEN
        if now and not was:
            return spec.get('reward_open', 1.0)
        if was and not now:
            return spec.get('reward_close', -1.0)
        return 0.0

    if name == 'pickndrop':
        object_type = OBJECT_TYPES[spec['object_type']]
        had = is_a(s.agent.grid_object, object_type)
        has = is_a(ns.agent.grid_object, object_type)
        if has and not had:
            return spec.get('reward_pick', 1.0)
        if had and not has:
            return spec.get('reward_drop', -1.0)
        return 0.0

    if name == 'reach_exit_memory':
        beacons = find_all(ns, Beacon)
        if not beacons:
            return Raises(StopIteration)
        under = cell(ns, *apos(ns))
        if not is_a(under, Exit):
            return 0.0
        if under.color == cell(ns, *beacons[0]).color:
            return spec.get('reward_good', 1.0)
        return spec.get('reward_bad', -1.0)

    raise AssertionError(name)


def ref_term(spec, s, a, ns):
    name = spec['name']
    if name == 'reduce_any':
        return any(
            [ref_term(sub, s, a, ns) for sub in spec['terminating_functions']]
        )
    if name == 'reduce_all':
        return all(
            [ref_term(sub, s, a, ns) for sub in spec['terminating_functions']]
        )
    if name in ('overlap', 'reach_exit', 'bump_moving_obstacle'):
        object_type = {
            'overlap': lambda: OBJECT_TYPES[spec['object_type']],
            'reach_exit': lambda: Exit,
            'bump_moving_obstacle': lambda: MovingObstacle,
        }[name]()
        return is_a(cell(ns, *apos(ns)), object_type)
    if name == 'bump_into_wall':
        y, x = attempted_cell(s, a)
        return inside(s, y, x) and is_a(cell(s, y, x), Wall)
    raise AssertionError(name)


# ---------------------------------------------------------------------------
# library side: build the functions through the public factories
# ---------------------------------------------------------------------------

from gym_gridverse.envs.yaml.factory import (  # noqa: E402
    factory_reward_function,
    factory_terminating_function,
)


def lib_reward(spec):
    return factory_reward_function(copy.deepcopy(spec))


def lib_term(spec):
    if spec.get('terminating_functions', None) == []:
        # the yaml schema rejects empty lists; use the module factory
        return tf.factory(spec['name'], terminating_functions=[])
    return factory_terminating_function(copy.deepcopy(spec))


def same_value(got, want):
    if type(got) is not type(want):
        return False
    if isinstance(want, float):
        return repr(got) == repr(want)
    return got == want


def same_sum(got, want):
    """composite rewards: the builtin `sum` of python >= 3.12 uses compensated
    float summation, so a left-fold reference may differ in the last bits"""
    if type(got) is not type(want):
        return False
    if isinstance(want, float):
        if math.isnan(want) or math.isnan(got):
            return math.isnan(want) and math.isnan(got)
        if math.isinf(want) or math.isinf(got):
            return got == want
        return math.isclose(got, want, rel_tol=1e-12, abs_tol=1e-12)
    return got == want


def check_reward(spec, function, s, a, ns, context=''):
    global CHECKS
    CHECKS += 1
    want = ref_reward(spec, s, a, ns)
    try:
        got = function(s, a, ns)
    except Exception as error:  # pylint: disable=broad-except
        assert isinstance(want, Raises) and isinstance(
            error, want.exception_type
        ), (spec, context, 'raised', repr(error), 'wanted', want)
        return want
    assert not isinstance(want, Raises), (spec, context, got, want)
    # numpy scalars never leak out: the result is one of the parameters, the
    # literal 0.0, or a python product
    compare = same_sum if spec['name'] == 'reduce_sum' else same_value
    assert compare(got, want), (spec, context, got, want, s, a, ns)
    return got


def check_term(spec, function, s, a, ns, context=''):
    global CHECKS
    CHECKS += 1
    want = ref_term(spec, s, a, ns)
    got = function(s, a, ns)
    assert got is want, (spec, context, got, want, s, a, ns)
    return got


# ---------------------------------------------------------------------------
# state generators
# ---------------------------------------------------------------------------

COLORS = [Color.RED, Color.GREEN, Color.BLUE, Color.YELLOW]


def random_object(rnd, weights):
    kind = rnd.choices(list(weights), list(weights.values()))[0]
    if kind == 'floor':
        return Floor()
    if kind == 'wall':
        return Wall()
    if kind == 'door':
        return Door(rnd.choice(list(Door.Status)), rnd.choice(COLORS))
    if kind == 'key':
        return Key(rnd.choice(COLORS))
    if kind == 'obstacle':
        return MovingObstacle()
    if kind == 'exit':
        return Exit(rnd.choice(COLORS + [Color.NONE]))
    if kind == 'beacon':
        return Beacon(rnd.choice(COLORS))
    raise AssertionError(kind)


def random_grid(rnd, h, w, weights):
    return Grid(
        [[random_object(rnd, weights) for _ in range(w)] for _ in range(h)]
    )


def random_agent(rnd, h, w):
    held = rnd.choice(
        [None, None, Key(rnd.choice(COLORS)), MovingObstacle(), Floor()]
    )
    return Agent(
        Position(rnd.randrange(h), rnd.randrange(w)),
        rnd.choice(HEADINGS),
        held,
    )


BASE_WEIGHTS = {'floor': 6, 'wall': 3, 'door': 2, 'key': 1, 'obstacle': 1}

ALL_TRANSITIONS = trf.factory(
    'chain',
    transition_functions=[
        trf.factory('move_agent'),
        trf.factory('turn_agent'),
        trf.factory('actuate_door'),
        trf.factory('pickndrop'),
    ],
)


def dynamics_successor(state, action):
    return trf.transition_with_copy(ALL_TRANSITIONS, state, action)


FLOATS = [1.0, -1.0, 0.0, 0.2, -0.2, 5.0, 2, -3, 1e300, float('inf')]


# ---------------------------------------------------------------------------
# part 1: distance shaping rewards
# ---------------------------------------------------------------------------


def part_distance(scale):
    rnd = random.Random(12)
    shapes = [(1, 1), (1, 4), (3, 1), (2, 2), (3, 3), (3, 5), (4, 4), (5, 4)]
    for h, w in shapes:
        for trial in range(3 * scale):
            grid_a = random_grid(rnd, h, w, BASE_WEIGHTS)
            grid_b = (
                grid_a if trial % 3 else random_grid(rnd, h, w, BASE_WEIGHTS)
            )
            cells = [(y, x) for y in range(h) for x in range(w)]
            target_type = rnd.choice(['Exit', 'Beacon', 'Key'])
            # strip pre-existing objects of the target type
            for g in {id(grid_a): grid_a, id(grid_b): grid_b}.values():
                for y, x in cells:
                    if is_a(g.objects[y][x], OBJECT_TYPES[target_type]):
                        g.objects[y][x] = Floor()

            def make_target():
                return {
                    'Exit': Exit,
                    'Beacon': partial(Beacon, Color.RED),
                    'Key': partial(Key, Color.BLUE),
                }[target_type]()

            closer, further = rnd.choice(FLOATS), rnd.choice(FLOATS)
            per_unit = rnd.choice(FLOATS)
            specs = []
            for metric in ('manhattan', 'euclidean'):
                specs.append(
                    {
                        'name': 'getting_closer',
                        'distance_function': metric,
                        'object_type': target_type,
                        'reward_closer': closer,
                        'reward_further': further,
                    }
                )
                specs.append(
                    {
                        'name': 'proportional_to_distance',
                        'distance_function': metric,
                        'object_type': target_type,
                        'reward_per_unit_distance': per_unit,
                    }
                )
            specs.append(
                {
                    'name': 'getting_closer_shortest_path',
                    'object_type': target_type,
                    'reward_closer': closer,
                    'reward_further': further,
                }
            )
            specs.append({'name': 'getting_closer', 'object_type': target_type})
            specs.append(
                {'name': 'getting_closer_shortest_path', 'object_type': target_type}
            )
            specs.append(
                {'name': 'proportional_to_distance', 'object_type': target_type}
            )
            functions = [(spec, lib_reward(spec)) for spec in specs]

            target_cells = cells if len(cells) <= 9 else rnd.sample(cells, 6)
            for ty, tx in target_cells:
                saved_a = grid_a.objects[ty][tx]
                grid_a.objects[ty][tx] = make_target()
                # in next state the target stays, or moves (arbitrary next)
                if grid_b is grid_a:
                    ny, nx = ty, tx
                else:
                    ny, nx = rnd.choice(cells)
                saved_b = grid_b.objects[ny][nx]
                if grid_b is not grid_a:
                    grid_b.objects[ny][nx] = make_target()

                for (py, px), (qy, qx) in itertools.product(cells, cells):
                    s = State(grid_a, Agent(Position(py, px), Orientation.F))
                    ns = State(grid_b, Agent(Position(qy, qx), Orientation.R))
                    for spec, function in functions:
                        got = check_reward(
                            spec, function, s, Action.MOVE_FORWARD, ns
                        )
                        if spec['name'].startswith('getting_closer') and (
                            'reward_closer' in spec
                        ):
                            # one of the parameter objects themselves / 0.0
                            assert (
                                got is spec['reward_closer']
                                or got is spec['reward_further']
                                or (type(got) is float and got == 0.0)
                            )

                grid_a.objects[ty][tx] = saved_a
                if grid_b is not grid_a:
                    grid_b.objects[ny][nx] = saved_b

    # sign property under real dynamics, walls around, one exit
    for seed in range(6 * scale):
        rnd = random.Random(1000 + seed)
        h, w = rnd.choice([(4, 4), (5, 6), (6, 5)])
        grid = random_grid(rnd, h, w, {'floor': 7, 'wall': 2, 'door': 1})
        ey, ex = rnd.randrange(h), rnd.randrange(w)
        grid.objects[ey][ex] = Exit()
        specs = [
            {'name': 'getting_closer', 'object_type': 'Exit', 'reward_closer': 0.2, 'reward_further': -0.2},
            {'name': 'getting_closer_shortest_path', 'object_type': 'Exit', 'reward_closer': 0.2, 'reward_further': -0.2},
            {'name': 'proportional_to_distance', 'object_type': 'Exit', 'reward_per_unit_distance': -0.5},
        ]
        functions = [(spec, lib_reward(spec)) for spec in specs]
        for y in range(h):
            for x in range(w):
                for heading in HEADINGS:
                    s = State(grid, Agent(Position(y, x), heading))
                    for action in Action:
                        ns = dynamics_successor(s, action)
                        for spec, function in functions:
                            got = check_reward(spec, function, s, action, ns)
                        d0 = manhattan((y, x), (ey, ex))
                        d1 = manhattan(apos(ns), (ey, ex))
                        got = functions[0][1](s, action, ns)
                        assert (got > 0) == (d1 < d0) and (got < 0) == (d1 > d0)

    # the distance function receives (agent position, object position)
    calls = []

    def lopsided(p, q):
        calls.append((p, q))
        return 10 * p.y + 3 * p.x - 7 * q.y - q.x

    grid = Grid([[Floor(), Floor(), Floor()], [Floor(), Exit(), Floor()]])
    s = State(grid, Agent(Position(0, 2), Orientation.F))
    ns = State(grid, Agent(Position(1, 0), Orientation.F))
    got = rf.factory(
        'getting_closer',
        distance_function=lopsided,
        object_type=Exit,
        reward_closer=11.0,
        reward_further=-13.0,
    )(s, Action.MOVE_LEFT, ns)
    assert calls == [
        (Position(0, 2), Position(1, 1)),
        (Position(1, 0), Position(1, 1)),
    ], calls
    # prev = 0*10 + 3*2 - 7 - 1 = -2 ; next = 10 + 0 - 7 - 1 = 2 : "further"
    assert got == -13.0
    del calls[:]
    got = rf.factory(
        'proportional_to_distance',
        distance_function=lopsided,
        object_type=Exit,
        reward_per_unit_distance=2.0,
    )(s, Action.MOVE_LEFT, ns)
    assert calls == [(Position(1, 0), Position(1, 1))] and got == 4.0


# ---------------------------------------------------------------------------
# part 2: event rewards and terminations (bump / door / pick / memory / exit)
# ---------------------------------------------------------------------------


def part_events(scale):
    rnd = random.Random(77)
    weights = dict(BASE_WEIGHTS, exit=2, beacon=1)
    shapes = [(1, 1), (1, 3), (2, 2), (3, 3), (3, 4), (4, 3), (5, 5)]
    for h, w in shapes:
        for trial in range(4 * scale):
            grid = random_grid(rnd, h, w, weights)
            params = [rnd.choice(FLOATS) for _ in range(8)]
            key_type = rnd.choice(['Key', 'MovingObstacle', 'Floor'])
            reward_specs = [
                {'name': 'reach_exit', 'reward_on': params[0], 'reward_off': params[1]},
                {'name': 'reach_exit'},
                {'name': 'overlap', 'object_type': rnd.choice(list(OBJECT_TYPES)), 'reward_on': params[2], 'reward_off': params[3]},
                {'name': 'bump_moving_obstacle', 'reward': params[4]},
                {'name': 'bump_moving_obstacle'},
                {'name': 'bump_into_wall', 'reward': params[5]},
                {'name': 'bump_into_wall'},
                {'name': 'actuate_door', 'reward_open': params[6], 'reward_close': params[7]},
                {'name': 'actuate_door'},
                {'name': 'pickndrop', 'object_type': key_type, 'reward_pick': params[0], 'reward_drop': params[2]},
                {'name': 'pickndrop', 'object_type': 'Key'},
                {'name': 'reach_exit_memory', 'reward_good': params[3], 'reward_bad': params[5]},
                {'name': 'reach_exit_memory'},
                {'name': 'living_reward', 'reward': params[1]},
            ]
            composite = {
                'name': 'reduce_sum',
                'reward_functions': [
                    spec
                    for spec in reward_specs
                    if spec['name'] != 'reach_exit_memory'
                ],
            }
            term_specs = [
                {'name': 'reach_exit'},
                {'name': 'bump_moving_obstacle'},
                {'name': 'bump_into_wall'},
                {'name': 'overlap', 'object_type': rnd.choice(list(OBJECT_TYPES))},
            ]
            term_specs.append({'name': 'reduce_any', 'terminating_functions': term_specs[:3]})
            term_specs.append({'name': 'reduce_all', 'terminating_functions': term_specs[:3]})
            term_specs.append({'name': 'reduce_any', 'terminating_functions': []})
            term_specs.append({'name': 'reduce_all', 'terminating_functions': []})
            rewards = [(spec, lib_reward(spec)) for spec in reward_specs]
            rewards.append((composite, lib_reward(composite)))
            terms = [(spec, lib_term(spec)) for spec in term_specs]

            for y in range(h):
                for x in range(w):
                    for heading in HEADINGS:
                        held = rnd.choice(
                            [None, Key(Color.RED), MovingObstacle(), Floor()]
                        )
                        s = State(grid, Agent(Position(y, x), heading, held))
                        for action in Action:
                            successors = [dynamics_successor(s, action)]
                            # arbitrary successors (same shape)
                            for _ in range(2):
                                successors.append(
                                    State(
                                        random_grid(rnd, h, w, weights),
                                        random_agent(rnd, h, w),
                                    )
                                )
                            # successor differing from s only in one door
                            # status / held item
                            twin = copy.deepcopy(s)
                            fy, fx = front_cell(s)
                            if inside(s, fy, fx):
                                twin.grid.objects[fy][fx] = rnd.choice(
                                    [
                                        Door(rnd.choice(list(Door.Status)), Color.RED),
                                        Floor(),
                                    ]
                                )
                            twin.agent.grid_object = rnd.choice(
                                [Key(Color.BLUE), Floor(), MovingObstacle()]
                            )
                            successors.append(twin)

                            for ns in successors:
                                values = {}
                                for spec, function in rewards:
                                    values[id(spec)] = check_reward(
                                        spec, function, s, action, ns
                                    )
                                fired = {}
                                for spec, function in terms:
                                    fired[id(spec)] = check_term(
                                        spec, function, s, action, ns
                                    )
                                # direct statements of the property
                                on_exit = is_a(cell(ns, *apos(ns)), Exit)
                                assert fired[id(term_specs[0])] is on_exit
                                assert values[id(reward_specs[0])] is (
                                    params[0] if on_exit else params[1]
                                )
                                assert values[id(reward_specs[5])] is (
                                    params[5]
                                    if fired[id(term_specs[2])]
                                    else values[id(reward_specs[5])]
                                )
                                assert fired[id(term_specs[4])] is (
                                    fired[id(term_specs[0])]
                                    or fired[id(term_specs[1])]
                                    or fired[id(term_specs[2])]
                                )
                                assert fired[id(term_specs[5])] is (
                                    fired[id(term_specs[0])]
                                    and fired[id(term_specs[1])]
                                    and fired[id(term_specs[2])]
                                )
                                assert fired[id(term_specs[6])] is False
                                assert fired[id(term_specs[7])] is True

    # edge cases spelled out ------------------------------------------------
    wall_row = Grid([[Wall(), Floor(), Wall()]])
    bump_r = rf.factory('bump_into_wall', reward=-7.0)
    bump_t = tf.factory('bump_into_wall')
    for x, heading, action, want in [
        (1, Orientation.R, Action.MOVE_FORWARD, True),
        (1, Orientation.R, Action.MOVE_BACKWARD, True),
        (1, Orientation.R, Action.MOVE_LEFT, False),  # off-grid (y=-1)
        (1, Orientation.R, Action.MOVE_RIGHT, False),  # off-grid (y=1)
        (1, Orientation.F, Action.MOVE_LEFT, True),
        (1, Orientation.F, Action.MOVE_RIGHT, True),
        (1, Orientation.F, Action.MOVE_FORWARD, False),  # y=-1: no wraparound
        (0, Orientation.L, Action.MOVE_FORWARD, False),  # x=-1: no wraparound
        (2, Orientation.R, Action.MOVE_FORWARD, False),  # x=3
        (0, Orientation.L, Action.TURN_LEFT, True),  # standing on a wall
        (1, Orientation.L, Action.TURN_LEFT, False),
        (1, Orientation.R, Action.ACTUATE, False),
        (1, Orientation.R, Action.PICK_N_DROP, False),
    ]:
        s = State(wall_row, Agent(Position(0, x), heading))
        got_r = bump_r(s, action, s)
        got_t = bump_t(s, action, s)
        assert got_t is want, (x, heading, action, got_t)
        assert same_value(got_r, -7.0 if want else 0.0), (x, heading, action)

    # door: every (status before, status after) pair, every action
    door_r = rf.factory('actuate_door', reward_open=3.0, reward_close=-4.0)
    for before, after in itertools.product(list(Door.Status), repeat=2):
        for action in Action:
            g0 = Grid([[Door(before, Color.RED)], [Floor()]])
            g1 = Grid([[Door(after, Color.GREEN)], [Floor()]])
            s = State(g0, Agent(Position(1, 0), Orientation.F))
            ns = State(g1, Agent(Position(1, 0), Orientation.F))
            want = 0.0
            if action == Action.ACTUATE:
                if before != Door.Status.OPEN and after == Door.Status.OPEN:
                    want = 3.0
                if before == Door.Status.OPEN and after != Door.Status.OPEN:
                    want = -4.0
            assert same_value(door_r(s, action, ns), want)
            # facing away from the door / off the grid
            s2 = State(g0, Agent(Position(1, 0), Orientation.B))
            assert same_value(door_r(s2, action, ns), 0.0)
            s3 = State(g0, Agent(Position(0, 0), Orientation.F))
            assert same_value(door_r(s3, action, ns), 0.0)
            # door replaced / created
            ns4 = State(Grid([[Floor()], [Floor()]]), ns.agent)
            assert same_value(door_r(s, action, ns4), 0.0)
            assert same_value(door_r(ns4, action, s), 0.0)

    # next grid smaller than the grid (arbitrary next state): the next grid is
    # consulted only if there was a door in front of the agent
    tall = Grid([[Floor()], [Floor()], [Floor()]])
    tall_door = Grid([[Floor()], [Door(Door.Status.CLOSED, Color.RED)], [Floor()]])
    tiny = Grid([[Door(Door.Status.OPEN, Color.RED)]])
    agent = Agent(Position(2, 0), Orientation.F)
    ns = State(tiny, Agent(Position(0, 0), Orientation.F))
    assert same_value(door_r(State(tall, agent), Action.ACTUATE, ns), 0.0)
    try:
        door_r(State(tall_door, agent), Action.ACTUATE, ns)
    except IndexError:
        pass
    else:
        raise AssertionError('expected IndexError')
    assert same_value(door_r(State(tall_door, agent), Action.TURN_LEFT, ns), 0.0)
    # bump only looks at the current state
    assert same_value(bump_r(State(tall, agent), Action.MOVE_FORWARD, ns), 0.0)
    assert bump_t(State(tall, agent), Action.MOVE_FORWARD, ns) is False
    # pickndrop ignores grids and actions altogether
    pick_r = rf.factory('pickndrop', object_type=Key, reward_pick=6.0, reward_drop=-6.0)
    for action in Action:
        with_key = Agent(Position(0, 0), Orientation.F, Key(Color.RED))
        without = Agent(Position(2, 0), Orientation.B)
        assert same_value(pick_r(State(tall, without), action, State(tiny, with_key)), 6.0)
        assert same_value(pick_r(State(tiny, with_key), action, State(tall, without)), -6.0)
        assert same_value(pick_r(State(tiny, with_key), action, State(tall, with_key)), 0.0)
        assert same_value(pick_r(State(tiny, without), action, State(tall, without)), 0.0)

    # memory: first beacon (row-major) decides; no beacon -> StopIteration
    mem = rf.factory('reach_exit_memory', reward_good=9.0, reward_bad=-9.0)
    for beacon_color, exit_color in itertools.product(COLORS, COLORS):
        g = Grid(
            [
                [Floor(), Beacon(beacon_color), Floor()],
                [Exit(exit_color), Floor(), Beacon(Color.NONE)],
            ]
        )
        on = State(g, Agent(Position(1, 0), Orientation.F))
        off = State(g, Agent(Position(0, 0), Orientation.F))
        assert same_value(
            mem(off, Action.MOVE_FORWARD, on),
            9.0 if beacon_color == exit_color else -9.0,
        )
        assert same_value(mem(on, Action.MOVE_FORWARD, off), 0.0)
    for agent_cell in [(0, 0), (0, 1)]:
        g = Grid([[Floor(), Exit(Color.RED)]])
        ns = State(g, Agent(Position(*agent_cell), Orientation.F))
        try:
            mem(ns, Action.MOVE_FORWARD, ns)
        except StopIteration:
            pass
        else:
            raise AssertionError('expected StopIteration')


# ---------------------------------------------------------------------------
# part 3: trajectories of the shipped configurations (transcribed by hand)
# ---------------------------------------------------------------------------

SIX_ACTIONS = [
    'MOVE_FORWARD',
    'MOVE_BACKWARD',
    'MOVE_LEFT',
    'MOVE_RIGHT',
    'TURN_LEFT',
    'TURN_RIGHT',
]
OBS = {'name': 'partially_occluded', 'area': [[-6, 0], [-3, 3]]}
EXIT_R = {'name': 'reach_exit', 'reward_on': 5.0, 'reward_off': 0.0}
CLOSER_R = {
    'name': 'getting_closer',
    'distance_function': 'manhattan',
    'object_type': 'Exit',
    'reward_closer': 0.2,
    'reward_further': -0.2,
}
LIVING_R = {'name': 'living_reward', 'reward': -0.05}


def config(objects, colors, reset, transitions, rewards, term, six=True):
    data = {
        'state_space': {'objects': objects, 'colors': colors},
        'observation_space': {'objects': objects, 'colors': colors},
        'reset_function': reset,
        'transition_functions': [{'name': n} for n in transitions],
        'reward_functions': rewards,
        'observation_function': OBS,
        'terminating_function': term,
    }
    if six:
        data['action_space'] = SIX_ACTIONS
    return data


def shipped_configs():
    basic = ['Wall', 'Floor', 'Exit']
    nav = [EXIT_R, CLOSER_R, LIVING_R]
    term_exit = {'name': 'reach_exit'}
    mem_colors = ['NONE', 'RED', 'GREEN', 'BLUE', 'YELLOW']
    mem_rewards = [
        {'name': 'reach_exit_memory', 'reward_good': 5.0, 'reward_bad': -5.0},
        LIVING_R,
    ]
    out = {}
    for n in (4, 8):
        out[f'empty.{n}'] = config(basic, ['NONE'], {'name': 'empty', 'shape': [n, n], 'random_agent': True}, ['move_agent', 'turn_agent'], nav, term_exit)
    for n, k in ((5, 1), (7, 2)):
        out[f'crossing.{n}'] = config(basic, ['NONE'], {'name': 'crossing', 'shape': [n, n], 'num_rivers': k, 'object_type': 'Wall'}, ['move_agent', 'turn_agent'], nav, term_exit)
        out[f'dynamic_obstacles.{n}'] = config(
            basic + ['MovingObstacle'],
            ['NONE'],
            {'name': 'dynamic_obstacles', 'shape': [n, n], 'num_obstacles': k, 'random_agent': False},
            ['move_agent', 'turn_agent', 'move_obstacles'],
            [EXIT_R, {'name': 'bump_moving_obstacle', 'reward': -1.0}, {'name': 'bump_into_wall', 'reward': -1.0}, CLOSER_R, LIVING_R],
            {'name': 'reduce_any', 'terminating_functions': [{'name': 'reach_exit'}, {'name': 'bump_moving_obstacle'}, {'name': 'bump_into_wall'}]},
        )
        out[f'teleport.{n}'] = config(basic + ['Telepod'], ['NONE', 'RED'], {'name': 'teleport', 'shape': [n, n], 'random_agent': True}, ['move_agent', 'turn_agent', 'teleport'], nav, term_exit)
    for n, l in ((7, 2), (9, 2), (10, 3), (13, 3)):
        out[f'rooms.{n}'] = config(basic, ['NONE'], {'name': 'rooms', 'shape': [n, n], 'layout': [l, l]}, ['move_agent', 'turn_agent'], nav, term_exit)
        out[f'memory_rooms.{n}'] = config(basic + ['Beacon'], mem_colors, {'name': 'memory_rooms', 'shape': [n, n], 'layout': [l, l], 'colors': mem_colors[1:], 'num_beacons': 1, 'num_exits': 2}, ['move_agent', 'turn_agent'], mem_rewards, term_exit)
    for n in (5, 7, 9):
        out[f'keydoor.{n}'] = config(
            basic + ['Door', 'Key'],
            ['NONE', 'YELLOW'],
            {'name': 'keydoor', 'shape': [n, n]},
            ['move_agent', 'turn_agent', 'actuate_door', 'pickndrop'],
            [EXIT_R, {'name': 'pickndrop', 'object_type': 'Key', 'reward_pick': 1.0, 'reward_drop': -1.0}, {'name': 'actuate_door', 'reward_open': 1.0, 'reward_close': -1.0}, CLOSER_R, LIVING_R],
            term_exit,
            six=False,
        )
    for n in (5, 9):
        out[f'memory.{n}'] = config(basic + ['Beacon'], mem_colors, {'name': 'memory', 'shape': [n, n], 'colors': mem_colors[1:]}, ['move_agent', 'turn_agent'], mem_rewards, term_exit)
    return out


def part_trajectories(scale):
    global CHECKS
    for name, data in shipped_configs().items():
        env = factory_env_from_data(copy.deepcopy(data))
        reward_spec = {'name': 'reduce_sum', 'reward_functions': data['reward_functions']}
        term_spec = data['terminating_function']
        actions = (
            [Action[a] for a in data['action_space']]
            if 'action_space' in data
            else list(Action)
        )
        exit_specs = [r for r in data['reward_functions'] if r['name'] == 'reach_exit']
        exit_functions = [lib_reward(r) for r in exit_specs]
        exit_term = lib_term({'name': 'reach_exit'})
        events = {'exit': 0, 'terminal': 0, 'steps': 0}
        for seed in range(3 * scale):
            env.set_seed(seed)
            rnd = random.Random(seed)
            state = env.functional_reset()
            for _ in range(150):
                action = rnd.choice(actions)
                next_state, reward, terminal = env.functional_step(state, action)
                want_reward = ref_reward(reward_spec, state, action, next_state)
                want_terminal = ref_term(term_spec, state, action, next_state)
                CHECKS += 2
                assert same_sum(reward, want_reward), (name, seed, reward, want_reward)
                assert terminal is want_terminal, (name, seed)
                # the exit reward is paid exactly when exit-termination fires
                fires = exit_term(state, action, next_state)
                for spec, function in zip(exit_specs, exit_functions):
                    paid = function(state, action, next_state)
                    assert (paid == spec['reward_on']) is fires
                    assert (paid == spec['reward_off']) is (not fires)
                if name.startswith('memory'):
                    paid = lib_reward(data['reward_functions'][0])(state, action, next_state)
                    assert (paid != 0.0) is fires
                events['steps'] += 1
                events['exit'] += fires
                events['terminal'] += terminal
                state = env.functional_reset() if terminal else next_state
        assert events['steps'] > 0


def main(distance_scale, events_scale, trajectory_scale):
    part_distance(distance_scale)
    part_events(events_scale)
    part_trajectories(trajectory_scale)
    print(f'OK: {CHECKS} reference comparisons agree')


if __name__ == '__main__':
    main(distance_scale=1, events_scale=2, trajectory_scale=1)
