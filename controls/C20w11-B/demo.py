"""Demo for change B (derived quantities of the spaces live in one shared base).

Run from the worktree root:  /venv/bin/python _seed/B/demo.py

Exits 0 both on the pristine tree and with the patch applied.  Checks

1. every derived quantity of `StateSpace` and `ObservationSpace`
   (`max_type_index`, `max_state_index`, `max_object_color`,
   `max_{grid,agent}_object_{type,status}`, `agent_state_size`,
   `agent_state_shape`, `grid_state_shape`) against a reference spelled out
   here, for empty / singleton / duplicated / permuted object-type lists,
   empty and full color lists, non-square shapes, after mutation of the
   public attributes, plus hard-coded expectations;
2. the `compact` representation (whose tables are sized by those quantities)
   against a reference numbering, and that converted values lie in its space;
3. property C20 (the gym adapter is a faithful view of the wrapped
   environment) on every shipped configuration -- wrapped directly and through
   the registered ids -- and on a few hand-built awkward environments, for
   several seeds, action-index sequences and representation names.
"""
import itertools
import os
import sys
import types
import warnings

warnings.filterwarnings('ignore')
sys.path.insert(0, os.getcwd())

import numpy as np  # noqa: E402

# --------------------------------------------------------------------------
# a YAML reader for the shipped configuration files, used only if PyYAML is
# not installed (the shipped files only use block mappings, block lists, flow
# lists and plain scalars)
# --------------------------------------------------------------------------


def _scalar(text):
    text = text.strip()
    if text.startswith('['):
        assert text.endswith(']'), text
        inner = text[1:-1]
        items, depth, current = [], 0, ''
        for ch in inner:
            if ch == '[':
                depth += 1
            elif ch == ']':
                depth -= 1
            if ch == ',' and depth == 0:
                items.append(current)
                current = ''
            else:
                current += ch
        if current.strip():
            items.append(current)
        return [_scalar(item) for item in items]
    if text in ('True', 'true'):
        return True
    if text in ('False', 'false'):
        return False
    try:
        return int(text)
    except ValueError:
        pass
    try:
        return float(text)
    except ValueError:
        pass
    return text


def _parse_block(lines, i, indent):
    """parses the block of lines starting at i whose indentation is indent"""
    if lines[i][1].startswith('- '):
        result = []
        while i < len(lines) and lines[i][0] == indent:
            assert lines[i][1].startswith('- '), lines[i]
            item = lines[i][1][2:].strip()
            if ':' in item and not item.startswith('['):
                # inline start of a mapping, continued on deeper lines
                lines[i] = (indent + 2, item)
                value, i = _parse_block(lines, i, indent + 2)
            else:
                value, i = _scalar(item), i + 1
            result.append(value)
        return result, i

    result = {}
    while i < len(lines) and lines[i][0] == indent:
        key, _, rest = lines[i][1].partition(':')
        key, rest = key.strip(), rest.strip()
        if rest:
            result[key] = _scalar(rest)
            i += 1
        else:
            assert lines[i + 1][0] > indent, lines[i]
            result[key], i = _parse_block(lines, i + 1, lines[i + 1][0])
    return result, i


def mini_yaml_load(stream):
    text = stream if isinstance(stream, str) else stream.read()
    lines = []
    for raw in text.splitlines():
        raw = raw.split('#')[0].rstrip()
        if raw.strip():
            lines.append((len(raw) - len(raw.lstrip()), raw.strip()))
    data, i = _parse_block(lines, 0, 0)
    assert i == len(lines)
    return data


try:
    import yaml as _yaml

    if not hasattr(_yaml, 'safe_load'):
        raise ImportError
except ImportError:
    _yaml = types.ModuleType('yaml')
    _yaml.safe_load = mini_yaml_load  # type: ignore
    sys.modules['yaml'] = _yaml

assert mini_yaml_load(
    'a:\n  b: [ [ -6, 0 ], [-3, 3 ] ]\n  c: False\nd:\n  - name: x\n    r: -0.5\n  - y\n'
) == {'a': {'b': [[-6, 0], [-3, 3]], 'c': False}, 'd': [{'name': 'x', 'r': -0.5}, 'y']}

from gym_gridverse.action import Action  # noqa: E402
from gym_gridverse.agent import Agent  # noqa: E402
from gym_gridverse.envs import observation_functions as observation_fs  # noqa: E402
from gym_gridverse.envs import reward_functions as reward_fs  # noqa: E402
from gym_gridverse.envs import terminating_functions as terminating_fs  # noqa: E402
from gym_gridverse.envs import transition_functions as transition_fs  # noqa: E402
from gym_gridverse.envs.gridworld import GridWorld  # noqa: E402
from gym_gridverse.geometry import Area, Orientation, Position, Shape  # noqa: E402
from gym_gridverse.grid import Grid  # noqa: E402
from gym_gridverse.grid_object import (  # noqa: E402
    Color,
    Door,
    Exit,
    Floor,
    Hidden,
    Key,
    NoneGridObject,
    Wall,
)
from gym_gridverse.outer_env import OuterEnv  # noqa: E402
from gym_gridverse.representations.observation_representations import (  # noqa: E402
    make_observation_representation,
)
from gym_gridverse.representations.state_representations import (  # noqa: E402
    make_state_representation,
)
from gym_gridverse.spaces import ActionSpace, ObservationSpace, StateSpace  # noqa: E402
from gym_gridverse.state import State  # noqa: E402

checks = 0


def ok(condition, message=''):
    global checks
    checks += 1
    if not condition:
        raise AssertionError(message)


# --------------------------------------------------------------------------
# 1. derived quantities of StateSpace / ObservationSpace against a reference
# --------------------------------------------------------------------------

from gym_gridverse.grid_object import (  # noqa: E402
    Beacon,
    Box,
    MovingObstacle,
    Telepod,
    grid_object_registry,
)
from gym_gridverse.observation import Observation  # noqa: E402

# the registry order is what `type_index` denotes
REGISTRY = [
    ('NoneGridObject', 0, 1),
    ('Hidden', 1, 1),
    ('Floor', 2, 1),
    ('Wall', 3, 1),
    ('Exit', 4, 1),
    ('Door', 5, 3),
    ('Key', 6, 1),
    ('MovingObstacle', 7, 1),
    ('Box', 8, 1),
    ('Telepod', 9, 1),
    ('Beacon', 10, 1),
]
ok(
    [
        (t.__name__, t.type_index(), t.num_states())
        for t in list(grid_object_registry)[: len(REGISTRY)]
    ]
    == REGISTRY
)
TYPE_INDEX = {name: index for name, index, _ in REGISTRY}
NUM_STATES = {name: num for name, _, num in REGISTRY}
COLOR_INDEX = {'NONE': 0, 'RED': 1, 'GREEN': 2, 'BLUE': 3, 'YELLOW': 4}
ok({c.name: c.value for c in Color} == COLOR_INDEX)


class Raises:
    """marker for `the reference computation is a max over nothing`"""


def reference_max(values):
    values = list(values)
    return max(values) if values else Raises


def reference_quantities(kind, shape, object_types, colors):
    """spelled out from the documentation of the spaces, not from their code"""
    names = [t.__name__ for t in object_types]
    color_names = {c.name for c in colors} | {'NONE'}
    grid_names = names + (['Hidden'] if kind == 'observation' else [])
    agent_names = names + ['NoneGridObject']

    q = {}
    q['max_object_color'] = reference_max(COLOR_INDEX[c] for c in color_names)
    q['max_grid_object_type'] = reference_max(TYPE_INDEX[n] for n in grid_names)
    q['max_grid_object_status'] = reference_max(
        NUM_STATES[n] for n in grid_names
    )
    q['max_agent_object_type'] = reference_max(
        TYPE_INDEX[n] for n in agent_names
    )
    q['max_agent_object_status'] = reference_max(
        NUM_STATES[n] for n in agent_names
    )
    for total, a, b in [
        ('max_type_index', 'max_grid_object_type', 'max_agent_object_type'),
        ('max_state_index', 'max_grid_object_status', 'max_agent_object_status'),
    ]:
        q[total] = Raises if Raises in (q[a], q[b]) else max(q[a], q[b])
    q['agent_state_size'] = (
        shape.height,
        # (the state space reports the height twice; long-standing behaviour)
        shape.width if kind == 'observation' else shape.height,
        q['max_agent_object_type'],
        q['max_agent_object_status'],
        q['max_object_color'],
    )
    q['agent_state_shape'] = 5
    q['grid_state_shape'] = shape
    return q


def check_quantities(space, kind, shape, object_types, colors):
    expected = reference_quantities(kind, shape, object_types, colors)
    for _ in range(2):  # repeated reads give the same answers
        for name, value in expected.items():
            if value is Raises:
                try:
                    getattr(space, name)
                except ValueError:
                    ok(True)
                else:
                    ok(False, f'{name} should raise ValueError')
            else:
                actual = getattr(space, name)
                ok(type(actual) is type(value), (name, actual, value))
                ok(actual == value, (kind, name, actual, value))


all_types = [Floor, Wall, Exit, Door, Key, MovingObstacle, Box, Telepod, Beacon]
type_lists = (
    [[]]
    + [[t] for t in all_types]
    + [list(pair) for pair in itertools.permutations(all_types[:6], 2)]
    + [
        [Wall, Floor, Exit],
        [Wall, Floor, Exit, Door, Key],
        [Key, Door, Exit, Floor, Wall],
        [Wall, Wall, Floor, Wall],  # duplicates
        [Hidden],
        [NoneGridObject],
        [Hidden, NoneGridObject, Door],
        all_types,
        all_types[::-1],
    ]
)
color_lists = [
    [],
    [Color.NONE],
    [Color.RED],
    [Color.YELLOW, Color.NONE],
    [Color.GREEN, Color.GREEN, Color.BLUE],
    list(Color),
]
num_spaces = 0
for object_types in type_lists:
    for colors in color_lists:
        for kind, cls, shape in [
            ('state', StateSpace, Shape(2, 5)),
            ('state', StateSpace, Shape(1, 1)),
            ('state', StateSpace, Shape(6, 3)),
            ('observation', ObservationSpace, Shape(7, 7)),
            ('observation', ObservationSpace, Shape(2, 5)),
            ('observation', ObservationSpace, Shape(4, 1)),
        ]:
            # sequences of any kind are accepted by the constructors
            for convert in (list, tuple):
                space = cls(shape, convert(object_types), convert(colors))
                ok(space.grid_shape is shape)
                ok(type(space.object_types) is list)
                ok(space.object_types == list(object_types))
                ok(space.colors == set(colors) | {Color.NONE})
                check_quantities(space, kind, shape, object_types, colors)
                num_spaces += 1

# the quantities are derived at read time from the public attributes
for kind, cls, shape in [
    ('state', StateSpace, Shape(3, 4)),
    ('observation', ObservationSpace, Shape(3, 5)),
]:
    space = cls(shape, [Floor], [])
    check_quantities(space, kind, shape, [Floor], [])
    space.object_types.append(Door)
    space.colors.add(Color.BLUE)
    check_quantities(space, kind, shape, [Floor, Door], [Color.BLUE])
    space.object_types = [Beacon, Wall]
    space.colors = {Color.NONE, Color.RED}
    check_quantities(space, kind, shape, [Beacon, Wall], [Color.RED])
    # several spaces in one process do not share anything
    other = cls(shape, [Key], [Color.GREEN])
    check_quantities(other, kind, shape, [Key], [Color.GREEN])
    check_quantities(space, kind, shape, [Beacon, Wall], [Color.RED])

# hard-coded expectations
state_space = StateSpace(
    Shape(5, 6), [Wall, Floor, Exit, Door, Key], [Color.NONE, Color.YELLOW]
)
observation_space = ObservationSpace(
    Shape(7, 7), [Wall, Floor, Exit, Door, Key], [Color.NONE, Color.YELLOW]
)
ok(state_space.agent_state_size == (5, 5, 6, 3, 4))
ok(observation_space.agent_state_size == (7, 7, 6, 3, 4))
for space in (state_space, observation_space):
    ok(
        (
            space.agent_state_shape,
            space.max_object_color,
            space.max_type_index,
            space.max_state_index,
            space.max_grid_object_type,
            space.max_grid_object_status,
            space.max_agent_object_type,
            space.max_agent_object_status,
        )
        == (5, 4, 6, 3, 6, 3, 6, 3)
    )
ok(state_space.grid_state_shape == Shape(5, 6))
ok(observation_space.grid_state_shape == Shape(7, 7))
expected_item_upper_bounds = {
    'default': ([6, 3, 4], [6, 3, 4]),
    'no-overlap': ([6, 10, 15], [6, 10, 15]),
    'compact': ([6, 15, 17], [5, 13, 15]),
}
for name, (expected_o, expected_s) in expected_item_upper_bounds.items():
    o_space = make_observation_representation(name, observation_space).space
    s_space = make_state_representation(name, state_space).space
    ok(o_space['item'].upper_bound.tolist() == expected_o)
    ok(s_space['item'].upper_bound.tolist() == expected_s)
    ok(o_space['item'].lower_bound.tolist() == [0, 0, 0])
    ok(o_space['grid'].shape == (7, 7, 3))
    ok(s_space['grid'].shape == (5, 6, 3))
    ok(o_space['grid'].upper_bound[6, 0].tolist() == expected_o)
    ok(s_space['grid'].upper_bound[4, 5].tolist() == expected_s)

empty_state_space = StateSpace(Shape(2, 3), [], [])
ok(empty_state_space.colors == {Color.NONE})
ok(empty_state_space.max_agent_object_type == 0)
ok(empty_state_space.max_agent_object_status == 1)
ok(empty_state_space.max_object_color == 0)
for name in ['max_grid_object_type', 'max_grid_object_status', 'max_type_index']:
    try:
        getattr(empty_state_space, name)
    except ValueError:
        ok(True)
    else:
        ok(False)
empty_observation_space = ObservationSpace(Shape(2, 3), [], [])
ok(empty_observation_space.max_grid_object_type == 1)
ok(empty_observation_space.max_type_index == 1)
ok(empty_observation_space.max_state_index == 1)
ok(empty_observation_space.agent_state_size == (2, 3, 0, 1, 0))
ok(
    make_observation_representation('compact', empty_observation_space)
    .space['item']
    .upper_bound.tolist()
    == [1, 3, 4]
)

# --------------------------------------------------------------------------
# 2. the compact representation, whose tables are sized by these quantities,
#    against a reference computed here; every value lies in the space
# --------------------------------------------------------------------------


def reference_compact(kind, object_types, colors, grid_object):
    """types first, then (type, status) pairs, then colors, numbered without
    gaps in increasing index order"""
    names = {t.__name__ for t in object_types} | {'NoneGridObject'}
    if kind == 'observation':
        names |= {'Hidden'}
    names = sorted(names, key=TYPE_INDEX.__getitem__)
    color_names = sorted(
        {c.name for c in colors} | {'NONE'}, key=COLOR_INDEX.__getitem__
    )
    codes = {}
    for name in names:
        codes['type', name] = len(codes)
    for name in names:
        for status in range(NUM_STATES[name]):
            codes['status', name, status] = len(codes)
    for color_name in color_names:
        codes['color', color_name] = len(codes)
    name = type(grid_object).__name__
    return [
        codes['type', name],
        codes['status', name, grid_object.state_index],
        codes['color', grid_object.color.name],
    ], [
        len(names) - 1,
        len(names) + sum(NUM_STATES[n] for n in names) - 1,
        len(codes) - 1,
    ]


def instances(object_types, colors):
    result = [NoneGridObject()]
    all_colors = sorted(set(colors) | {Color.NONE}, key=lambda c: c.value)
    for t in object_types:
        if t in (Floor, Wall, Hidden, NoneGridObject):
            result.append(t())
        elif t is Exit:
            result.extend(Exit(c) for c in all_colors)
        elif t is Key:
            result.extend(Key(c) for c in all_colors)
        elif t is Door:
            result.extend(Door(s, c) for s in Door.Status for c in all_colors)
        elif t is MovingObstacle:
            result.append(MovingObstacle())
        elif t is Beacon:
            result.extend(Beacon(c) for c in all_colors)
    return result


for object_types in [
    [Floor],
    [Door],
    [Wall, Floor, Exit, Door, Key],
    [Key, Door, Exit, Floor, Wall],
    [Beacon, Floor, MovingObstacle],
    [Wall, Wall, Door],
]:
    for colors in [[], [Color.YELLOW], list(Color)]:
        for kind in ['state', 'observation']:
            if kind == 'state':
                space = StateSpace(Shape(3, 4), object_types, colors)
                representation = make_state_representation('compact', space)
            else:
                space = ObservationSpace(Shape(3, 5), object_types, colors)
                representation = make_observation_representation(
                    'compact', space
                )
            item = representation.representations['item']
            item_space = representation.space['item']
            objs = instances(object_types, colors)
            if kind == 'observation':
                objs.append(Hidden())
            for obj in objs:
                expected, expected_upper = reference_compact(
                    kind, object_types, colors, obj
                )
                actual = item.grid_object_representation.convert(obj)
                ok(actual.tolist() == expected, (obj, actual, expected))
                ok(item_space.upper_bound.tolist() == expected_upper)
                ok(item_space.contains(actual))

# `contains` of the spaces (used at every step when debugging is on) is not
# affected
grid = Grid.from_shape((3, 4))
grid[0, 3] = Key(Color.YELLOW)
state = State(grid, Agent(Position(2, 0), Orientation.L, Key(Color.YELLOW)))
ok(StateSpace(Shape(3, 4), [Floor, Key], [Color.YELLOW]).contains(state))
ok(not StateSpace(Shape(3, 4), [Floor, Key], []).contains(state))
ok(not StateSpace(Shape(3, 4), [Floor], [Color.YELLOW]).contains(state))
ok(not StateSpace(Shape(4, 3), [Floor, Key], [Color.YELLOW]).contains(state))
observation = Observation(
    Grid([[Hidden(), Floor(), Key(Color.YELLOW)]]),
    Agent(Position(0, 1), Orientation.F),
)
ok(ObservationSpace(Shape(1, 3), [Floor, Key], [Color.YELLOW]).contains(observation))
ok(not ObservationSpace(Shape(1, 3), [Floor], [Color.YELLOW]).contains(observation))
ok(not ObservationSpace(Shape(1, 3), [Floor, Key], []).contains(observation))

# --------------------------------------------------------------------------
# 3. property C20 at the gym layer
# --------------------------------------------------------------------------

import gym  # noqa: E402

import gym_gridverse.gym as gv_gym  # noqa: E402
from gym_gridverse.envs.yaml.factory import factory_env_from_data  # noqa: E402
from gym_gridverse.gym import (  # noqa: E402
    GymEnvironment,
    GymStateWrapper,
    outer_space_to_gym_space,
)

REPRESENTATIONS = ['default', 'no-overlap', 'compact']


def assert_same_dict(a, b):
    ok(list(a.keys()) == list(b.keys()), (list(a), list(b)))
    for key in a:
        ok(type(a[key]) is np.ndarray and type(b[key]) is np.ndarray)
        ok(a[key].dtype == b[key].dtype, key)
        ok(a[key].shape == b[key].shape, key)
        ok(np.array_equal(a[key], b[key]), key)


def assert_advertised(gym_space, representation):
    """the advertised gym space is the image of the representation space"""
    space = representation.space
    ok(isinstance(gym_space, gym.spaces.Dict))
    ok(sorted(gym_space.spaces.keys()) == sorted(space.keys()))
    for key, inner_space in space.items():
        box = gym_space.spaces[key]
        ok(isinstance(box, gym.spaces.Box))
        ok(box.shape == inner_space.lower_bound.shape)
        ok(np.array_equal(box.low, inner_space.lower_bound))
        ok(np.array_equal(box.high, inner_space.upper_bound))
    ok(gym_space == outer_space_to_gym_space(space))


def action_sequences(num_actions, length, seed):
    rng = np.random.default_rng(seed)
    yield list(range(num_actions)) * 2  # every index, in order, twice
    yield list(range(num_actions - 1, -1, -1))  # every index, reversed
    yield [int(i) for i in rng.integers(num_actions, size=length)]
    yield []


def check_gym_env(
    make_inner, seeds, length=25, through=None, allow_state=True
):
    """the gym view of the environment against a twin inner environment
    driven directly with Action objects"""
    for observation_name, state_name in [
        ('default', 'default'),
        ('no-overlap', 'compact'),
        ('compact', 'no-overlap'),
    ]:
        twin = make_inner()
        if through is None:
            inner = make_inner()
            genv = GymEnvironment(
                OuterEnv(
                    inner,
                    observation_representation=make_observation_representation(
                        'default', inner.observation_space
                    ),
                )
            )
            top = genv
        else:
            top = through()
            genv = top.unwrapped
            ok(type(genv) is GymEnvironment)
            inner = genv.outer_env.inner_env

        # as shipped: default observation representation, no state
        ok(genv.state_space is None)
        assert_advertised(
            genv.observation_space,
            make_observation_representation('default', twin.observation_space),
        )
        actions = twin.action_space.actions
        ok(isinstance(genv.action_space, gym.spaces.Discrete))
        ok(genv.action_space.n == len(actions))
        ok(genv.action_space.n == inner.action_space.num_actions)
        for i, action in enumerate(actions):
            ok(inner.action_space.int_to_action(i) is action)

        # switching representations updates the advertised spaces
        twin_orep = make_observation_representation(
            observation_name, twin.observation_space
        )
        genv.set_observation_representation(observation_name)
        assert_advertised(genv.observation_space, twin_orep)

        representable = twin.state_space.can_be_represented
        # (the agent part of the state representation is undefined on grids
        # with a single row or column)
        has_state = representable and allow_state
        if has_state:
            twin_srep = make_state_representation(state_name, twin.state_space)
            genv.set_state_representation(state_name)
            assert_advertised(genv.state_space, twin_srep)
            wrapped = GymStateWrapper(genv)
            ok(wrapped.observation_space is genv.state_space)
            ok(wrapped.action_space is genv.action_space)
        elif not representable:
            try:
                genv.set_state_representation(state_name)
            except ValueError:
                pass
            else:
                ok(False, 'state representation should not be available')
            ok(genv.state_space is None)

        for seed in seeds:
            for sequence in action_sequences(len(actions), length, seed):
                inner.set_seed(seed)
                twin.set_seed(seed)

                use_wrapper = has_state and (seed + len(sequence)) % 2 == 0
                env = wrapped if use_wrapper else genv

                counter = [0]

                def check_output(output, info=None):
                    counter[0] += 1
                    expected_o = twin_orep.convert(twin.observation)
                    if use_wrapper:
                        expected_s = twin_srep.convert(twin.state)
                        assert_same_dict(output, expected_s)
                        ok(genv.state_space.contains(output))
                        ok(wrapped.observation_space.contains(output))
                        if info is not None:
                            ok(list(info.keys()) == ['observation'])
                            assert_same_dict(info['observation'], expected_o)
                            ok(
                                genv.observation_space.contains(
                                    info['observation']
                                )
                            )
                    else:
                        assert_same_dict(output, expected_o)
                        ok(genv.observation_space.contains(output))
                        if info is not None:
                            ok(info == {})
                    if info is not None and counter[0] % 4 != 0:
                        return
                    # the properties show the same thing
                    assert_same_dict(genv.observation, expected_o)
                    if has_state:
                        assert_same_dict(
                            genv.state, twin_srep.convert(twin.state)
                        )
                    ok(inner.state == twin.state)
                    ok(inner.observation == twin.observation)

                twin.reset()
                check_output(env.reset())
                for index in sequence:
                    output, reward, done, info = env.step(index)
                    expected_reward, expected_done = twin.step(actions[index])
                    ok(type(reward) is type(expected_reward))
                    ok(reward == expected_reward)
                    ok(done is expected_done)
                    check_output(output, info)
                    if done:
                        twin.reset()
                        check_output(env.reset())

        if through is not None:
            # driving through the wrappers installed by gym.make
            inner.set_seed(seeds[0])
            twin.set_seed(seeds[0])
            twin.reset()
            assert_same_dict(
                top.reset(), twin_orep.convert(twin.observation)
            )
            output = top.step(len(actions) - 1)
            expected_reward, expected_done = twin.step(actions[-1])
            ok(len(output) == 4)
            assert_same_dict(output[0], twin_orep.convert(twin.observation))
            ok(output[1] == expected_reward and output[2] is expected_done)
            ok(output[3] == {})


# -- shipped configurations ------------------------------------------------

registered_dir = os.path.join(
    os.path.dirname(gv_gym.__file__), 'registered_envs'
)
ok(len(gv_gym.STRING_TO_YAML_FILE) == 21)
for env_id, filename in gv_gym.STRING_TO_YAML_FILE.items():
    path = os.path.join(registered_dir, filename)

    def make_inner(path=path):
        with open(path) as f:
            return factory_env_from_data(_yaml.safe_load(f))

    def through(env_id=env_id):
        return gym.make(env_id, disable_env_checker=True)

    big = any(size in env_id for size in ['9x9', '10x10', '13x13'])
    seeds = [7] if big else [0, 1337]
    check_gym_env(make_inner, seeds, length=6 if big else 12)
    check_gym_env(make_inner, seeds[:1], length=5, through=through)


# -- hand-built awkward environments ----------------------------------------


def make_awkward_inner(shape, area, start, orientation, object_types, colors):
    """non-square walled room with a locked door, its key and an exit, seen
    through an arbitrary (possibly asymmetric) view area"""
    height, width = shape

    def reset_function(*, rng=None):
        grid = Grid.from_shape((height, width))
        if width > 2:
            grid[0, width - 1] = Exit()
            grid[height - 1, width - 2] = Door(Door.Status.LOCKED, Color.YELLOW)
            grid[height - 1, 0] = Key(Color.YELLOW)
        if height > 2:
            grid[1, width - 1] = Wall()
        return State(grid, Agent(Position(*start), orientation))

    transition_function = transition_fs.factory(
        'chain',
        transition_functions=[
            transition_fs.factory('move_agent'),
            transition_fs.factory('turn_agent'),
            transition_fs.factory('actuate_door'),
            transition_fs.factory('pickndrop'),
        ],
    )
    reward_function = reward_fs.factory(
        'reduce_sum',
        reward_functions=[
            reward_fs.factory('reach_exit', reward_on=5.0, reward_off=0.0),
            reward_fs.factory('living_reward', reward=-0.05),
            reward_fs.factory(
                'pickndrop', object_type=Key, reward_pick=1.0, reward_drop=-1.0
            ),
        ],
    )
    # `partially_occluded` needs the agent on the bottom row of the view
    observation_function = observation_fs.factory(
        'partially_occluded' if area.ymax == 0 else 'raytracing', area=area
    )
    terminating_function = terminating_fs.factory('reach_exit')
    return GridWorld(
        StateSpace(Shape(height, width), object_types, colors),
        ActionSpace(list(Action)),
        ObservationSpace(Shape(area.height, area.width), object_types, colors),
        reset_function,
        transition_function,
        observation_function,
        reward_function,
        terminating_function,
    )


object_types_spellings = [
    [Wall, Floor, Exit, Door, Key],
    (Key, Door, Exit, Floor, Wall),
    [Wall, Key, Wall, Floor, Door, Exit, Key],
]
color_spellings = [[Color.NONE, Color.YELLOW], (Color.YELLOW,)]
spelling = 0
for shape, area, orientations in [
    ((2, 7), Area((-6, 0), (-3, 3)), list(Orientation)[:4]),
    ((6, 3), Area((-3, 1), (-1, 3)), list(Orientation)[:4]),
    ((3, 4), Area((-1, 2), (-4, 0)), [Orientation.L, Orientation.B]),
    ((1, 5), Area((0, 0), (0, 0)), [Orientation.R]),
    ((4, 4), Area((-2, 2), (0, 2)), [Orientation.F, Orientation.R]),
]:
    height, width = shape
    corners = [
        (0, 0),
        (0, width - 1),
        (height - 1, 0),
        (height - 1, width - 1),
    ]
    for start, orientation in zip(
        itertools.cycle(corners), orientations
    ):
        if shape[1] > 2 and start == (0, width - 1):
            start = (0, 1 % width)  # not on the exit
        spelling += 1
        check_gym_env(
            lambda: make_awkward_inner(
                shape,
                area,
                start,
                orientation,
                object_types_spellings[spelling % 3],
                color_spellings[spelling % 2],
            ),
            seeds=[3],
            length=30,
            allow_state=min(shape) > 1,
        )

# several environments alive in one process, interleaved
path_a = os.path.join(registered_dir, 'gv_keydoor.5x5.yaml')
path_b = os.path.join(registered_dir, 'gv_dynamic_obstacles.7x7.yaml')
envs = []
for path in [path_a, path_b, path_a]:
    with open(path) as f:
        inner = factory_env_from_data(_yaml.safe_load(f))
    with open(path) as f:
        twin = factory_env_from_data(_yaml.safe_load(f))
    genv = GymEnvironment(
        OuterEnv(
            inner,
            observation_representation=make_observation_representation(
                'compact', inner.observation_space
            ),
        )
    )
    inner.set_seed(11)
    twin.set_seed(11)
    envs.append(
        (
            genv,
            twin,
            make_observation_representation('compact', twin.observation_space),
        )
    )
for genv, twin, rep in envs:
    twin.reset()
    assert_same_dict(genv.reset(), rep.convert(twin.observation))
for t in range(20):
    for k, (genv, twin, rep) in enumerate(envs):
        index = (t + k) % genv.action_space.n
        output, reward, done, info = genv.step(index)
        expected_reward, expected_done = twin.step(
            twin.action_space.actions[index]
        )
        assert_same_dict(output, rep.convert(twin.observation))
        ok(genv.observation_space.contains(output))
        ok(reward == expected_reward and done is expected_done)
        if done:
            twin.reset()
            assert_same_dict(genv.reset(), rep.convert(twin.observation))

print(f'OK ({num_spaces} spaces, {checks} checks)')
