"""C19 demo (change A): rays of gym_gridverse.utils.raytracing.

Checks, against a reference implementation embedded here (the generator
pipeline spelling) and against the property itself:

* every ray starts at its origin, stays inside the area, has no repeated cell,
  moves between adjacent cells and ends on the border of the area;
* the fan of rays (both fans) reaches every cell of the area;
* results are deterministic and the cached variants return the same rays in
  any order of queries.

Exits 0 when everything holds.
"""
import itertools as itt
import math
import os
import sys

sys.path.insert(0, os.getcwd())  # run from the worktree root

import numpy as np

from gym_gridverse.geometry import Area, Position
from gym_gridverse.utils import raytracing as rt

# ---------------------------------------------------------------- reference


def ref_compute_ray(position, area, *, radians, step_size, unique=True):
    if not area.contains(position):
        raise ValueError('outside')

    y0, x0 = float(position.y), float(position.x)
    dy = step_size * math.sin(radians)
    dx = step_size * math.cos(radians)

    ys = (y0 + i * dy for i in itt.count())
    xs = (x0 + i * dx for i in itt.count())
    positions = (Position(round(y), round(x)) for y, x in zip(ys, xs))
    positions = itt.takewhile(area.contains, positions)

    if not unique:
        return list(positions)

    result = []
    for p in positions:
        if p not in result:  # quadratic on purpose: no hashing involved
            result.append(p)
    return result


def ref_directions_degrees():
    radians_over_degrees = math.pi / 180.0
    return [deg * radians_over_degrees for deg in range(360)]


def ref_directions_fancy(position, area):
    ys = np.linspace(area.ymin, area.ymax + 1, num=area.height + 1) - 0.5
    xs = np.linspace(area.xmin, area.xmax + 1, num=area.width + 1) - 0.5
    ys = ys - position.y
    xs = xs - position.x
    yys, xxs = np.meshgrid(ys, xs)
    radians = np.arctan2(yys, xxs)
    return np.sort(radians, axis=None)


def ref_compute_rays(position, area):
    return [
        ref_compute_ray(position, area, radians=rad, step_size=0.01)
        for rad in ref_directions_degrees()
    ]


def ref_compute_rays_fancy(position, area):
    return [
        ref_compute_ray(position, area, radians=rad, step_size=0.01)
        for rad in ref_directions_fancy(position, area)
    ]


# ----------------------------------------------------------------- property

failures = []


def check(condition, message):
    if not condition:
        failures.append(message)
        if len(failures) <= 20:
            print('FAIL', message)


def on_border(area, p):
    return p.y in (area.ymin, area.ymax) or p.x in (area.xmin, area.xmax)


def check_fan(rays, position, area, label, expected_number):
    check(isinstance(rays, list), f'{label}: not a list')
    check(
        len(rays) == expected_number,
        f'{label}: {len(rays)} rays, expected {expected_number}',
    )
    reached = set()
    for k, ray in enumerate(rays):
        tag = f'{label} ray {k}'
        check(isinstance(ray, list) and len(ray) >= 1, f'{tag}: empty')
        if not ray:
            continue
        check(
            all(type(p) is Position for p in ray), f'{tag}: not Positions'
        )
        check(
            all(type(p.y) is int and type(p.x) is int for p in ray),
            f'{tag}: non-int coordinates',
        )
        check(ray[0] == position, f'{tag}: starts at {ray[0]}')
        check(all(area.contains(p) for p in ray), f'{tag}: leaves the area')
        check(len(set(ray)) == len(ray), f'{tag}: repeated cell')
        check(
            all(
                max(abs(a.y - b.y), abs(a.x - b.x)) == 1
                for a, b in zip(ray, ray[1:])
            ),
            f'{tag}: jump between non-adjacent cells',
        )
        check(on_border(area, ray[-1]), f'{tag}: ends inside at {ray[-1]}')
        reached.update(ray)
    check(
        reached == set(area.positions()),
        f'{label}: {len(reached)} cells reached '
        f'of {area.height * area.width}',
    )


# ---------------------------------------------------------------- scenarios


def areas_up_to(hmax, wmax):
    for h in range(1, hmax + 1):
        for w in range(1, wmax + 1):
            yield Area((0, h - 1), (0, w - 1))


# 1. directions of the 1-degree fan: bitwise the historical spelling
check(
    [math.radians(d) for d in range(360)] == ref_directions_degrees(),
    'math.radians differs from deg * (pi / 180)',
)
check(
    [d.hex() for d in ref_directions_degrees()]
    == [(d * (math.pi / 180.0)).hex() for d in range(360)],
    'directions not bitwise equal',
)

# 2. hard-coded rays
area = Area((0, 2), (0, 4))
check(
    rt.compute_ray(Position(1, 0), area, radians=0.0, step_size=0.01)
    == [Position(1, x) for x in range(5)],
    'ray to the east',
)
check(
    rt.compute_ray(Position(2, 4), area, radians=math.pi, step_size=0.01)
    == [Position(2, x) for x in (4, 3, 2, 1, 0)],
    'ray to the west',
)
check(
    rt.compute_ray(
        Position(0, 0), area, radians=math.pi / 4.0, step_size=0.01
    )
    == [Position(0, 0), Position(1, 1), Position(2, 2)],
    'diagonal ray',
)
check(
    rt.compute_ray(
        Position(2, 2), area, radians=-math.pi / 2.0, step_size=0.01
    )
    == [Position(2, 2), Position(1, 2), Position(0, 2)],
    'ray to the north',
)
check(
    rt.compute_ray(
        Position(0, 0), Area((0, 0), (0, 0)), radians=1.0, step_size=0.01
    )
    == [Position(0, 0)],
    'single-cell area',
)
nonunique = rt.compute_ray(
    Position(0, 0), Area((0, 0), (0, 1)), radians=0.0, step_size=0.25,
    unique=False,
)
check(
    nonunique == [Position(0, 0)] * 3 + [Position(0, 1)] * 3
    or nonunique == ref_compute_ray(
        Position(0, 0), Area((0, 0), (0, 1)), radians=0.0, step_size=0.25,
        unique=False,
    ),
    'non-unique ray',
)

# 3. origin outside: ValueError, for all entry points
for outside, area in [
    (Position(-1, 0), Area((0, 2), (0, 2))),
    (Position(0, 3), Area((0, 2), (0, 2))),
    (Position(0, 0), Area((1, 2), (0, 2))),
    (Position(5, 5), Area((-2, 2), (-2, 2))),
]:
    for name, f in [
        (
            'compute_ray',
            lambda p, a: rt.compute_ray(p, a, radians=0.3, step_size=0.01),
        ),
        ('compute_rays', rt.compute_rays),
        ('compute_rays_fancy', rt.compute_rays_fancy),
        ('cached_compute_rays', rt.cached_compute_rays),
        ('cached_compute_rays_fancy', rt.cached_compute_rays_fancy),
    ]:
        try:
            f(outside, area)
        except ValueError:
            pass
        else:
            check(False, f'{name}({outside}, {area}) did not raise ValueError')

# 4. single rays against the reference: odd angles, step sizes, both modes
rng = np.random.default_rng(19)
single_areas = [
    Area((0, 4), (0, 6)),
    Area((-3, 3), (-2, 5)),
    Area((2, 2), (-4, 4)),
    Area((-6, 0), (1, 1)),
]
angles = (
    [k * math.pi / 8.0 for k in range(-16, 17)]
    + [math.atan2(a, b) for a in (-3, -1, 1, 2) for b in (-2, 1, 3)]
    + [float(x) for x in rng.uniform(-10.0, 10.0, size=20)]
    + [np.float64(0.75), 7, -0.0, 1e-12, 2.0 * math.pi, 100.0]
)
for area in single_areas:
    origins = list(area.positions())
    for origin in origins[:: max(1, len(origins) // 7)]:
        for radians in angles:
            for step_size in (0.01, 0.3, 1.0, 1.5, -0.2):
                for unique in (True, False):
                    got = rt.compute_ray(
                        origin,
                        area,
                        radians=radians,
                        step_size=step_size,
                        unique=unique,
                    )
                    want = ref_compute_ray(
                        origin,
                        area,
                        radians=radians,
                        step_size=step_size,
                        unique=unique,
                    )
                    check(
                        got == want and type(got) is list,
                        f'compute_ray({origin}, {area}, radians={radians}, '
                        f'step_size={step_size}, unique={unique})',
                    )

# default of `unique` is True
check(
    rt.compute_ray(Position(1, 1), Area((0, 3), (0, 3)), radians=0.4, step_size=0.01)
    == ref_compute_ray(
        Position(1, 1), Area((0, 3), (0, 3)), radians=0.4, step_size=0.01
    ),
    'default unique',
)

# 5. the two fans, all origins: property + equality with the reference
fan_areas = list(areas_up_to(4, 4))
fan_areas += [
    Area((0, 6), (0, 6)),  # default view size
    Area((0, 1), (0, 8)),
    Area((0, 8), (0, 1)),
    Area((0, 0), (0, 10)),
    Area((0, 10), (0, 0)),
    Area((-6, 0), (-3, 3)),  # view area as declared in the YAML files
    Area((-2, 4), (-1, 2)),  # asymmetric, origin strictly inside
    Area((3, 5), (10, 14)),  # away from (0, 0)
]
big_areas = [Area((0, 8), (0, 10)), Area((0, 10), (0, 8))]

queries = []
for area in fan_areas:
    for origin in area.positions():
        queries.append((origin, area))
for area in big_areas:  # corners, borders and centre only
    for origin in [
        Position(area.ymin, area.xmin),
        Position(area.ymin, area.xmax),
        Position(area.ymax, area.xmin),
        Position(area.ymax, area.xmax),
        Position(area.ymax, (area.xmin + area.xmax) // 2),
        Position((area.ymin + area.ymax) // 2, (area.xmin + area.xmax) // 2),
    ]:
        queries.append((origin, area))

uncached = {}
for origin, area in queries:
    fancy = rt.compute_rays_fancy(origin, area)
    check_fan(
        fancy,
        origin,
        area,
        f'compute_rays_fancy({origin}, {area})',
        (area.height + 1) * (area.width + 1),
    )
    check(
        fancy == ref_compute_rays_fancy(origin, area),
        f'compute_rays_fancy({origin}, {area}) differs from the reference',
    )
    uncached['fancy', origin, area] = fancy

    if area.height * area.width <= 9 or (origin.y + 2 * origin.x) % 7 == 0:
        plain = rt.compute_rays(origin, area)
        check_fan(plain, origin, area, f'compute_rays({origin}, {area})', 360)
        check(
            plain == ref_compute_rays(origin, area),
            f'compute_rays({origin}, {area}) differs from the reference',
        )
        uncached['plain', origin, area] = plain

# 6. determinism + caching, in a scrambled order, with repeated queries
keys = list(uncached)
order = rng.permutation(len(keys)).tolist()[:100]
order = order + order[::3]
for i in order:
    kind, origin, area = keys[i]
    if kind == 'fancy':
        cached, again = rt.cached_compute_rays_fancy, rt.compute_rays_fancy
    else:
        cached, again = rt.cached_compute_rays, rt.compute_rays
    # equal-but-distinct argument objects must hit the same results
    origin2 = Position(origin.y, origin.x)
    area2 = Area((area.ymin, area.ymax), (area.xmin, area.xmax))
    check(
        cached(origin2, area2) == uncached[keys[i]],
        f'cached {kind} rays differ for {origin}, {area}',
    )
    if i % 11 == 0:
        check(
            again(origin, area) == uncached[keys[i]],
            f'{kind} rays not deterministic for {origin}, {area}',
        )

# repeated cached queries: same rays, with and without a cache hit
for cached, plain in [
    (rt.cached_compute_rays, rt.compute_rays),
    (rt.cached_compute_rays_fancy, rt.compute_rays_fancy),
]:
    origin, area = Position(6, 3), Area((0, 6), (0, 6))
    want = plain(origin, area)
    hits = cached.cache_info().hits
    first = cached(origin, area)
    second = cached(Position(6, 3), Area((0, 6), (0, 6)))
    check(first == want and second == want, 'repeated cached query differs')
    check(cached.cache_info().hits > hits, 'cache not hit by a repeated query')
    cached.cache_clear()
    check(cached(origin, area) == want, 'cached query differs after clearing')
check(
    rt.cached_compute_rays.__wrapped__ is rt.compute_rays
    and rt.cached_compute_rays_fancy.__wrapped__ is rt.compute_rays_fancy,
    'cached variants wrap something else',
)

# fresh lists for uncached calls (callers may mutate what they get)
a = rt.compute_rays_fancy(Position(1, 1), Area((0, 2), (0, 2)))
b = rt.compute_rays_fancy(Position(1, 1), Area((0, 2), (0, 2)))
check(a == b and a is not b and a[0] is not b[0], 'uncached lists shared')

# 7. an unobstructed ray-traced view shows everything
from gym_gridverse.envs.visibility_functions import raytracing
from gym_gridverse.grid import Grid

for h, w in [(1, 1), (1, 5), (5, 1), (3, 4), (7, 7), (2, 9)]:
    grid = Grid.from_shape((h, w))
    for origin in list(grid.area.positions())[::2]:
        check(
            bool(raytracing(grid, origin).all()),
            f'unobstructed view from {origin} in {h}x{w} hides cells',
        )

if failures:
    print(f'{len(failures)} failures')
    sys.exit(1)
print(f'ok: {len(queries)} origin/area pairs, {len(uncached)} fans compared')
