"""Demo for change A (`Area.contains` accepts (y, x) tuples, `Grid.subgrid` uses it).

Checks property C10 -- doors, keys and boxes respond only to a faced ACTUATE,
and only as documented -- against a reference model embedded in this file.
Runs (and must exit 0) on the pristine tree and with the patch applied.

Run from the worktree root:  /venv/bin/python _seed/A/demo.py
"""
import itertools as itt
import os
import random
import sys
from functools import partial

sys.path.insert(0, os.getcwd())

from gym_gridverse.action import Action  # noqa: E402
from gym_gridverse.agent import Agent  # noqa: E402
from gym_gridverse.envs import reset_functions  # noqa: E402
from gym_gridverse.envs import transition_functions as tf  # noqa: E402
from gym_gridverse.envs.gridworld import GridWorld  # noqa: E402
from gym_gridverse.envs import (  # noqa: E402
    observation_functions,
    reward_functions,
    terminating_functions,
)
from gym_gridverse.geometry import (  # noqa: E402
    Area,
    Orientation,
    Position,
    Shape,
)
from gym_gridverse.grid import Grid  # noqa: E402
from gym_gridverse.grid_object import (  # noqa: E402
    Beacon,
    Box,
    Color,
    Door,
    Exit,
    Floor,
    Hidden,
    Key,
    MovingObstacle,
    NoneGridObject,
    Telepod,
    Wall,
)
from gym_gridverse.rng import make_rng  # noqa: E402
from gym_gridverse.spaces import (  # noqa: E402
    ActionSpace,
    ObservationSpace,
    StateSpace,
)
from gym_gridverse.state import State  # noqa: E402

OPEN, CLOSED, LOCKED = Door.Status.OPEN, Door.Status.CLOSED, Door.Status.LOCKED
ORIENTATIONS = [Orientation.F, Orientation.R, Orientation.B, Orientation.L]
ACTIONS = list(Action)
COLORS = list(Color)

CHECKS = 0


def check(condition, *info):
    global CHECKS
    CHECKS += 1
    if not condition:
        print('FAILED:', *info)
        sys.exit(1)


# --------------------------------------------------------------------------
# reference model (independent of the library's geometry / transition code)
# --------------------------------------------------------------------------

# heading -> (dy, x) of the faced cell;  F is north, R east, B south, L west
REF_FRONT = {
    Orientation.F: (-1, 0),
    Orientation.R: (0, 1),
    Orientation.B: (1, 0),
    Orientation.L: (0, -1),
}


def ref_faced(agent_yx, orientation, height, width):
    """(y, x) of the faced cell, or None if the agent faces out of the grid"""
    dy, dx = REF_FRONT[orientation]
    y, x = agent_yx[0] + dy, agent_yx[1] + dx
    if 0 <= y < height and 0 <= x < width:
        return y, x
    return None


def ref_door_status(status, door_color, held, faced, action):
    """documented status of a door after one step"""
    if action is not Action.ACTUATE or not faced:
        return status
    if status is OPEN:
        return OPEN
    if status is CLOSED:
        return OPEN
    # locked:  opens iff the agent holds a key of the door's colour
    if type(held) is Key and held.color is door_color:
        return OPEN
    return LOCKED


def held_items(door_color):
    """none, a key of every colour, and assorted non-keys (some door coloured)"""
    items = [None]
    items += [Key(color) for color in COLORS]
    items += [
        Box(Key(door_color)),
        MovingObstacle(),
        Beacon(door_color),
        Telepod(door_color),
        Door(OPEN, door_color),
        Exit(door_color),
        Wall(),
    ]
    return items


def snapshot(state):
    """identity + value snapshot of the whole state"""
    cells = {}
    for y in range(state.grid.shape.height):
        for x in range(state.grid.shape.width):
            obj = state.grid.objects[y][x]
            cells[y, x] = (
                id(obj),
                type(obj),
                obj.state_index,
                obj.color,
                id(obj.content) if isinstance(obj, Box) else None,
            )
    held = state.agent.grid_object
    return cells, (
        state.agent.position.yx,
        state.agent.orientation,
        id(held),
        type(held),
        held.color,
    )


# --------------------------------------------------------------------------
# 1. exhaustive single door:  statuses x colours x held items x poses x actions
# --------------------------------------------------------------------------


def exhaustive_single_door():
    shapes = [(1, 1), (1, 3), (3, 1), (2, 5), (4, 3)]
    for height, width in shapes:
        cells = list(itt.product(range(height), range(width)))
        for door_yx in cells:
            for door_color in COLORS:
                helds = held_items(door_color)
                for status in (OPEN, CLOSED, LOCKED):
                    door = Door(status, door_color)
                    grid = Grid.from_shape((height, width))
                    grid[door_yx] = door
                    for agent_yx, orientation in itt.product(
                        cells, ORIENTATIONS
                    ):
                        faced = (
                            ref_faced(agent_yx, orientation, height, width)
                            == door_yx
                        )
                        for held in helds:
                            for action in ACTIONS:
                                door.state = status
                                agent = Agent(
                                    Position(*agent_yx), orientation, held
                                )
                                state = State(grid, agent)
                                held_before = agent.grid_object
                                tf.actuate_door(state, action)
                                expected = ref_door_status(
                                    status, door_color, held, faced, action
                                )
                                check(
                                    grid[door_yx] is door
                                    and door.state is expected,
                                    'single door',
                                    (height, width),
                                    door_yx,
                                    status,
                                    door_color,
                                    agent_yx,
                                    orientation,
                                    held,
                                    action,
                                    '->',
                                    door.state,
                                    'expected',
                                    expected,
                                )
                                # keys are not consumed, pose does not change
                                check(
                                    agent.grid_object is held_before
                                    and agent.position.yx == agent_yx
                                    and agent.orientation is orientation
                                    and door.color is door_color,
                                    'agent or door colour changed',
                                )


# --------------------------------------------------------------------------
# 2. exhaustive single box
# --------------------------------------------------------------------------


def exhaustive_single_box():
    shapes = [(1, 2), (2, 1), (3, 4)]
    for height, width in shapes:
        cells = list(itt.product(range(height), range(width)))
        for box_yx in cells:
            contents = [
                Floor(),
                Key(Color.RED),
                Door(LOCKED, Color.BLUE),
                Box(Key(Color.NONE)),
                Wall(),
            ]
            for content in contents:
                for agent_yx, orientation in itt.product(cells, ORIENTATIONS):
                    faced = (
                        ref_faced(agent_yx, orientation, height, width)
                        == box_yx
                    )
                    for held in (None, Key(Color.RED), Box(Floor())):
                        for action in ACTIONS:
                            box = Box(content)
                            grid = Grid.from_shape((height, width))
                            grid[box_yx] = box
                            agent = Agent(
                                Position(*agent_yx), orientation, held
                            )
                            state = State(grid, agent)
                            held_before = agent.grid_object
                            before, _ = snapshot(state)
                            tf.actuate_box(state, action)
                            # doors are untouched by actuate_box, boxes by
                            # actuate_door
                            tf.actuate_door(state, action)
                            after, _ = snapshot(state)
                            if faced and action is Action.ACTUATE:
                                check(
                                    grid[box_yx] is content,
                                    'box not replaced by its content',
                                )
                                # a nested door / box is not actuated as well
                                if isinstance(content, Door):
                                    check(content.state is LOCKED)
                                if isinstance(content, Box):
                                    check(isinstance(content.content, Key))
                            else:
                                check(
                                    grid[box_yx] is box
                                    and box.content is content,
                                    'box changed',
                                    agent_yx,
                                    orientation,
                                    action,
                                )
                            for yx in cells:
                                if yx != box_yx:
                                    check(before[yx] == after[yx])
                            check(agent.grid_object is held_before)


# --------------------------------------------------------------------------
# 3. random crowded grids, full transition chain, compared cell by cell
# --------------------------------------------------------------------------


def random_object(rnd):
    kind = rnd.randrange(8)
    if kind == 0:
        return Door(rnd.choice([OPEN, CLOSED, LOCKED]), rnd.choice(COLORS))
    if kind == 1:
        return Box(rnd.choice([Floor(), Key(rnd.choice(COLORS)), Wall()]))
    if kind == 2:
        return Key(rnd.choice(COLORS))
    if kind == 3:
        return Wall()
    if kind == 4:
        return Door(LOCKED, rnd.choice(COLORS))
    return Floor()


def random_crowded(chain_functions, trials, seed):
    rnd = random.Random(seed)
    # boxes only respond if `actuate_box` is part of the dynamics at all
    boxes_respond = tf.actuate_box in chain_functions
    for _ in range(trials):
        height, width = rnd.randint(1, 5), rnd.randint(1, 6)
        grid = Grid(
            [[random_object(rnd) for _ in range(width)] for _ in range(height)]
        )
        agent_yx = rnd.randrange(height), rnd.randrange(width)
        orientation = rnd.choice(ORIENTATIONS)
        held = rnd.choice(
            [None, None]
            + [Key(color) for color in COLORS]
            + [Box(Floor()), Beacon(rnd.choice(COLORS))]
        )
        agent = Agent(Position(*agent_yx), orientation, held)
        state = State(grid, agent)
        action = rnd.choice(ACTIONS + [Action.ACTUATE] * 4)

        objects_before = {
            (y, x): grid.objects[y][x]
            for y in range(height)
            for x in range(width)
        }
        status_before = {
            yx: obj.state
            for yx, obj in objects_before.items()
            if isinstance(obj, Door)
        }
        content_before = {
            yx: obj.content
            for yx, obj in objects_before.items()
            if isinstance(obj, Box)
        }
        held_before = agent.grid_object
        faced_yx = ref_faced(agent_yx, orientation, height, width)

        for function in chain_functions:
            function(state, action)

        for yx, obj in objects_before.items():
            faced = yx == faced_yx
            if isinstance(obj, Door):
                # doors never move, are never replaced, never change colour
                check(grid[yx] is obj, 'door replaced', yx, action)
                expected = ref_door_status(
                    status_before[yx], obj.color, held, faced, action
                )
                check(
                    obj.state is expected,
                    'crowded door',
                    yx,
                    status_before[yx],
                    held,
                    action,
                    faced,
                    obj.state,
                )
            elif isinstance(obj, Box):
                check(obj.content is content_before[yx])
                if faced and action is Action.ACTUATE and boxes_respond:
                    check(grid[yx] is content_before[yx], 'box content')
                else:
                    check(grid[yx] is obj, 'box changed', yx, action)
        if action is Action.ACTUATE:
            check(agent.grid_object is held_before, 'held item changed')
            check(agent.position.yx == agent_yx)
            check(agent.orientation is orientation)


# --------------------------------------------------------------------------
# 4. key-door environments:  exhaustive reachability + GridWorld random walks
# --------------------------------------------------------------------------

KEYDOOR_CHAIN = [tf.move_agent, tf.turn_agent, tf.actuate_door, tf.pickndrop]


def keydoor_transition(state, action, *, rng=None):
    tf.chain(state, action, transition_functions=KEYDOOR_CHAIN, rng=rng)


def find_door(state):
    doors = [
        (position, state.grid[position])
        for position in state.grid.area.positions()
        if isinstance(state.grid[position], Door)
    ]
    check(len(doors) == 1, 'keydoor has exactly one door')
    return doors[0]


def state_key(state):
    cells = tuple(
        (type(obj).__name__, obj.state_index, obj.color.name)
        for row in state.grid.objects
        for obj in row
    )
    held = state.agent.grid_object
    return (
        cells,
        state.agent.position.yx,
        state.agent.orientation.name,
        type(held).__name__,
        held.color.name,
    )


def keydoor_reachability(shape, seed):
    """breadth-first search over every reachable state;  every transition must
    follow the documented door dynamics"""
    state = reset_functions.keydoor(shape, rng=make_rng(seed))
    door_position, door = find_door(state)
    check(door.state is LOCKED and door.color is Color.YELLOW)

    seen = {state_key(state)}
    frontier = [state]
    n_open = 0
    while frontier:
        next_frontier = []
        for state in frontier:
            door = state.grid[door_position]
            held = state.agent.grid_object
            faced = (
                ref_faced(
                    state.agent.position.yx,
                    state.agent.orientation,
                    shape.height,
                    shape.width,
                )
                == door_position.yx
            )
            for action in ACTIONS:
                next_state = tf.transition_with_copy(
                    keydoor_transition, state, action
                )
                next_door = next_state.grid[door_position]
                check(isinstance(next_door, Door))
                check(next_door.color is Color.YELLOW)
                expected = ref_door_status(
                    door.state, door.color, held, faced, action
                )
                check(
                    next_door.state is expected,
                    'keydoor reachability',
                    shape,
                    seed,
                    state_key(state)[1:],
                    action,
                    next_door.state,
                    expected,
                )
                # the original state is not modified by the copy-transition
                check(door.state is state.grid[door_position].state)
                if action is Action.ACTUATE:
                    # key not consumed
                    check(
                        type(next_state.agent.grid_object) is type(held)
                        and next_state.agent.grid_object.color is held.color
                    )
                if next_door.state is OPEN and door.state is LOCKED:
                    check(
                        action is Action.ACTUATE
                        and faced
                        and isinstance(held, Key)
                        and held.color is Color.YELLOW
                    )
                    n_open += 1
                key = state_key(next_state)
                if key not in seen:
                    seen.add(key)
                    next_frontier.append(next_state)
        frontier = next_frontier
    check(n_open > 0, 'door can be opened at all', shape, seed)
    return len(seen)


def make_keydoor_gridworld(shape, observation_function, observation_area):
    objects = [Wall, Floor, Exit, Door, Key]
    colors = [Color.NONE, Color.YELLOW]
    return GridWorld(
        StateSpace(shape, objects, colors),
        ActionSpace(list(Action)),
        ObservationSpace(
            Shape(observation_area.height, observation_area.width),
            objects,
            colors,
        ),
        partial(reset_functions.keydoor, shape),
        keydoor_transition,
        partial(observation_function, area=observation_area),
        partial(
            reward_functions.reduce_sum,
            reward_functions=[
                reward_functions.reach_exit,
                partial(reward_functions.actuate_door),
                partial(reward_functions.living_reward, reward=-0.05),
            ],
        ),
        terminating_functions.reach_exit,
    )


def gridworld_walk(env, seed, steps, policy_rnd):
    """random walk;  returns the trace of (pose, door status) and checks the
    door only opens by a faced ACTUATE with the yellow key"""
    env.set_seed(seed)
    env.reset()
    door_position, _ = find_door(env.state)
    trace = []
    for _ in range(steps):
        state = env.state
        door = state.grid[door_position]
        status = door.state
        held = state.agent.grid_object
        shape = state.grid.shape
        faced = (
            ref_faced(
                state.agent.position.yx,
                state.agent.orientation,
                shape.height,
                shape.width,
            )
            == door_position.yx
        )
        action = policy_rnd.choice(ACTIONS + [Action.ACTUATE, Action.PICK_N_DROP])
        _, done = env.step(action)
        env.observation  # observation generation must not touch the state
        next_door = env.state.grid[door_position]
        check(isinstance(next_door, Door))
        check(
            next_door.state
            is ref_door_status(status, Color.YELLOW, held, faced, action),
            'gridworld walk',
            seed,
            action,
        )
        check(door.state is status, 'previous state was modified')
        trace.append(
            (
                env.state.agent.position.yx,
                env.state.agent.orientation.name,
                next_door.state.name,
                type(env.state.agent.grid_object).__name__,
            )
        )
        if done:
            env.reset()
            door_position, _ = find_door(env.state)
    return trace


def gridworld_walks():
    shapes = [Shape(4, 7), Shape(7, 5), Shape(5, 5), Shape(4, 6)]
    # asymmetric view areas (odd width):  off-centre agent, rows behind the agent
    views = [
        (observation_functions.partially_occluded, Area((-4, 0), (-1, 3))),
        (observation_functions.fully_transparent, Area((-3, 2), (-4, 0))),
        (observation_functions.raytracing, Area((-2, 1), (-1, 1))),
        (observation_functions.partially_occluded, Area((-6, 0), (-3, 3))),
    ]
    envs = [
        make_keydoor_gridworld(shape, *view)
        for shape, view in zip(shapes, views)
    ]
    # several environments in one process, interleaved, and re-seeded
    for seed in (0, 1, 17):
        traces = [
            gridworld_walk(env, seed, 300, random.Random(seed)) for env in envs
        ]
        traces_again = [
            gridworld_walk(env, seed, 300, random.Random(seed))
            for env in reversed(envs)
        ]
        check(traces == traces_again[::-1], 're-seeding reproduces walks')


# --------------------------------------------------------------------------
# 5. hard-coded expectations:  the documented table, spelled out
# --------------------------------------------------------------------------


def hard_coded_table():
    # (status, holds matching key) -> status after a faced ACTUATE
    table = {
        (OPEN, False): OPEN,
        (CLOSED, False): OPEN,
        (LOCKED, False): LOCKED,
        (OPEN, True): OPEN,
        (CLOSED, True): OPEN,
        (LOCKED, True): OPEN,
    }
    for (status, has_key), expected in table.items():
        for color in COLORS:
            # agent in the top-right corner of a 2x3 grid, looking west
            grid = Grid.from_shape((2, 3))
            door = Door(status, color)
            grid[0, 1] = door
            held = Key(color) if has_key else None
            state = State(grid, Agent(Position(0, 2), Orientation.L, held))
            for repeat in range(3):  # repeated calls:  open stays open
                tf.actuate_door(state, Action.ACTUATE)
                check(door.state is expected, 'table', status, has_key, color)
                check(door.state_index == expected.value)
                check(door.blocks_movement == (expected is not OPEN))
            if has_key:
                check(
                    isinstance(state.agent.grid_object, Key)
                    and state.agent.grid_object.color is color
                )
            else:
                check(isinstance(state.agent.grid_object, NoneGridObject))

    # same colour, wrong kind of object;  right kind, every wrong colour
    for color in COLORS:
        for held in [Beacon(color), Telepod(color), Exit(color)] + [
            Key(other) for other in COLORS if other is not color
        ]:
            grid = Grid.from_shape((3, 1))
            door = Door(LOCKED, color)
            grid[2, 0] = door
            state = State(grid, Agent(Position(1, 0), Orientation.B, held))
            tf.actuate_door(state, Action.ACTUATE)
            check(door.state is LOCKED, 'wrong item opened door', color, held)

    # registry and factory still hand out the same functions
    check(tf.transition_function_registry['actuate_door'] is tf.actuate_door)
    check(tf.transition_function_registry['actuate_box'] is tf.actuate_box)
    function = tf.factory('actuate_door')
    grid = Grid.from_shape((1, 2))
    grid[0, 0] = Door(CLOSED, Color.NONE)
    state = State(grid, Agent(Position(0, 1), Orientation.L))
    function(state, Action.ACTUATE, rng=make_rng(3))
    check(grid[0, 0].state is OPEN)
    check(Door.num_states() == 3)
    check([s.value for s in Door.Status] == [0, 1, 2])


# --------------------------------------------------------------------------
# 6. `Area.contains` and `Grid.subgrid` against reference implementations
# --------------------------------------------------------------------------


class DuckPosition:
    """anything with `y` and `x` attributes was accepted by `Area.contains`"""

    def __init__(self, y, x):
        self.y = y
        self.x = x


def area_contains_reference():
    bounds = [(0, 0), (0, 3), (-2, 1), (-3, -3), (2, 5), (-1, 0)]
    tuples_supported = None
    for ys, xs in itt.product(bounds, bounds):
        area = Area(ys, xs)
        inside = {
            (y, x)
            for y in range(ys[0], ys[1] + 1)
            for x in range(xs[0], xs[1] + 1)
        }
        check({p.yx for p in area.positions()} == inside)
        for y in range(-5, 8):
            for x in range(-5, 8):
                expected = (y, x) in inside
                result = area.contains(Position(y, x))
                check(
                    result is expected,
                    'Area.contains(Position)',
                    area,
                    (y, x),
                    result,
                )
                check(area.contains(DuckPosition(y, x)) is expected)
                # tuples:  an AttributeError on the pristine tree, the same
                # answer as for positions with the change
                try:
                    result = area.contains((y, x))
                except AttributeError:
                    check(tuples_supported is not True, 'inconsistent support')
                    tuples_supported = False
                else:
                    check(tuples_supported is not False, 'inconsistent support')
                    tuples_supported = True
                    check(result is expected, 'Area.contains(tuple)', area, (y, x))

    # things which are neither positions nor pairs are still rejected
    for bad in [None, 3, (1,), (1, 2, 3), 'abc']:
        try:
            Area((0, 2), (0, 2)).contains(bad)
        except (AttributeError, TypeError, ValueError):
            pass
        else:
            check(False, 'Area.contains accepted', bad)
    return tuples_supported


def subgrid_reference():
    rnd = random.Random(11)
    for height, width in [(1, 1), (1, 4), (3, 2), (4, 7), (5, 5)]:
        grid = Grid(
            [[random_object(rnd) for _ in range(width)] for _ in range(height)]
        )
        spans_y = [
            (a, b) for a in range(-2, height + 2) for b in range(a, height + 2)
        ]
        spans_x = [
            (a, b) for a in range(-2, width + 2) for b in range(a, width + 2)
        ]
        for ys, xs in itt.product(spans_y, spans_x):
            subgrid = grid.subgrid(Area(ys, xs))
            check(
                subgrid.shape.as_tuple
                == (ys[1] - ys[0] + 1, xs[1] - xs[0] + 1)
            )
            for y in range(ys[0], ys[1] + 1):
                for x in range(xs[0], xs[1] + 1):
                    obj = subgrid.objects[y - ys[0]][x - xs[0]]
                    if 0 <= y < height and 0 <= x < width:
                        # the very same object, never the wrapped-around one
                        check(
                            obj is grid.objects[y][x],
                            'subgrid object',
                            (height, width),
                            ys,
                            xs,
                            (y, x),
                        )
                    else:
                        check(
                            type(obj) is Hidden,
                            'subgrid outside',
                            (height, width),
                            ys,
                            xs,
                            (y, x),
                        )


def faced_cell_guard():
    """the guard used by actuate_door / actuate_box:  facing out of the grid
    (negative or too large coordinates) never actuates a wrapped-around cell"""
    for height, width in [(1, 1), (1, 4), (3, 2), (4, 7)]:
        for y, x, orientation in itt.product(
            range(height), range(width), ORIENTATIONS
        ):
            grid = Grid(
                [
                    [Door(CLOSED, Color.GREEN) for _ in range(width)]
                    for _ in range(height)
                ]
            )
            boxes = Grid(
                [
                    [Box(Floor()) for _ in range(width)]
                    for _ in range(height)
                ]
            )
            agent = Agent(Position(y, x), orientation, Key(Color.GREEN))
            front = agent.front()
            faced = ref_faced((y, x), orientation, height, width)
            check(grid.area.contains(front) is (faced is not None))
            if faced is not None:
                check(front.yx == faced)
            tf.actuate_door(State(grid, agent), Action.ACTUATE)
            tf.actuate_box(State(boxes, agent), Action.ACTUATE)
            for yy, xx in itt.product(range(height), range(width)):
                is_faced = (yy, xx) == faced
                check(
                    grid[yy, xx].state is (OPEN if is_faced else CLOSED),
                    'guard door',
                    (height, width),
                    (y, x),
                    orientation,
                    (yy, xx),
                )
                check(
                    type(boxes[yy, xx]) is (Floor if is_faced else Box),
                    'guard box',
                    (height, width),
                    (y, x),
                    orientation,
                    (yy, xx),
                )


def main():
    tuples_supported = area_contains_reference()
    subgrid_reference()
    faced_cell_guard()
    hard_coded_table()
    exhaustive_single_door()
    exhaustive_single_box()
    full_chain = [
        tf.move_agent,
        tf.turn_agent,
        tf.actuate_door,
        tf.actuate_box,
        tf.pickndrop,
    ]
    random_crowded([tf.actuate_door], 4000, seed=1)
    random_crowded([tf.actuate_box, tf.actuate_door], 4000, seed=2)
    random_crowded(full_chain, 8000, seed=3)
    sizes = [
        keydoor_reachability(shape, seed)
        for shape, seed in [
            (Shape(4, 6), 0),
            (Shape(4, 5), 1),
            (Shape(5, 6), 2),
            (Shape(4, 7), 3),
        ]
    ]
    gridworld_walks()
    print(
        f'OK: {CHECKS} checks, reachable keydoor states {sizes}, '
        f'Area.contains accepts tuples: {tuples_supported}'
    )


if __name__ == '__main__':
    main()
