"""C19 demo (change A): rays are connected paths that sweep the whole area.

Runs from the worktree root:  /venv/bin/python _seed/A/demo.py

Exits 0 on the pristine tree and with the patch applied.  The library's ray
functions are compared with a reference implementation embedded below (a
verbatim copy of the pristine algorithm), the structural ray property is
checked on every ray, and the documented ``ValueError`` is checked (type,
message, no cache poisoning) for every entry point.
"""
import itertools as itt
import math
import os
import random
import sys

# run from the worktree root: make sure *its* gym_gridverse is the one imported
sys.path.insert(0, os.getcwd())

import numpy as np  # noqa: E402

from gym_gridverse.envs.visibility_functions import (
    raytracing,
    stochastic_raytracing,
)
from gym_gridverse.geometry import Area, Position
from gym_gridverse.grid import Grid
from gym_gridverse.grid_object import Floor, Wall
from gym_gridverse.utils import raytracing as rt

# ---------------------------------------------------------------- reference


def unique_everseen(iterable):
    seen = set()
    for element in iterable:
        if element not in seen:
            seen.add(element)
            yield element


def ref_compute_ray(position, area, *, radians, step_size, unique=True):
    if not area.contains(position):
        raise ValueError(f'Position {position} is not inside area {area}')

    y0, x0 = float(position.y), float(position.x)
    dy = step_size * math.sin(radians)
    dx = step_size * math.cos(radians)

    ys = (y0 + i * dy for i in itt.count())
    xs = (x0 + i * dx for i in itt.count())
    positions = (Position(round(y), round(x)) for y, x in zip(ys, xs))
    positions = itt.takewhile(area.contains, positions)
    positions = unique_everseen(positions) if unique else positions
    return list(positions)


def ref_compute_rays(position, area):
    radians_over_degrees = math.pi / 180.0
    radians = (deg * radians_over_degrees for deg in range(360))
    return [
        ref_compute_ray(position, area, radians=rad, step_size=0.01)
        for rad in radians
    ]


def ref_compute_rays_fancy(position, area):
    ys = np.linspace(area.ymin, area.ymax + 1, num=area.height + 1) - 0.5
    xs = np.linspace(area.xmin, area.xmax + 1, num=area.width + 1) - 0.5
    ys = ys - position.y
    xs = xs - position.x
    yys, xxs = np.meshgrid(ys, xs)
    radians = np.arctan2(yys, xxs)
    radians = np.sort(radians, axis=None)
    return [
        ref_compute_ray(position, area, radians=rad, step_size=0.01)
        for rad in radians
    ]


# ----------------------------------------------------------------- property

checks = 0


def check(condition, message):
    global checks
    checks += 1
    if not condition:
        print('FAIL:', message)
        sys.exit(1)


def on_border(position, area):
    return (
        position.y in (area.ymin, area.ymax)
        or position.x in (area.xmin, area.xmax)
    )


def check_ray(ray, position, area, what):
    check(isinstance(ray, list), f'{what}: ray is not a list')
    check(len(ray) >= 1, f'{what}: empty ray')
    check(ray[0] == position, f'{what}: ray does not start at origin')
    check(all(area.contains(p) for p in ray), f'{what}: ray leaves area')
    check(len(set(ray)) == len(ray), f'{what}: ray revisits a cell')
    check(
        all(
            max(abs(p.y - q.y), abs(p.x - q.x)) == 1
            for p, q in zip(ray, ray[1:])
        ),
        f'{what}: ray jumps between non-adjacent cells',
    )
    check(on_border(ray[-1], area), f'{what}: ray does not end on border')
    check(
        len(ray) <= area.height + area.width - 1,
        f'{what}: ray is too long',
    )


def check_fan(rays, position, area, what, *, sweeps=True):
    for i, ray in enumerate(rays):
        check_ray(ray, position, area, f'{what} ray#{i}')
    if sweeps:
        covered = set(itt.chain.from_iterable(rays))
        check(
            covered == set(area.positions()),
            f'{what}: fan misses {set(area.positions()) - covered}',
        )


def origins_of(area, selection):
    if selection == 'all':
        return list(area.positions())
    ymid = (area.ymin + area.ymax) // 2
    xmid = (area.xmin + area.xmax) // 2
    picks = {
        Position(area.ymin, area.xmin),
        Position(area.ymin, area.xmax),
        Position(area.ymax, area.xmin),
        Position(area.ymax, area.xmax),
        Position(area.ymax, xmid),  # where the agent sits in its view
        Position(area.ymin, xmid),
        Position(ymid, area.xmin),
        Position(ymid, area.xmax),
        Position(ymid, xmid),
    }
    return sorted(picks, key=lambda p: p.yx)


# ------------------------------------------------------------------ scenario


def main():
    # 1. single rays: equality with the reference, unique and non-unique
    area = Area((-1, 1), (-2, 2))
    for position in area.positions():
        for deg in range(0, 360, 7):
            rad = deg * math.pi / 180.0
            for step_size in (0.01, 0.05, 0.3):
                for unique in (True, False):
                    got = rt.compute_ray(
                        position,
                        area,
                        radians=rad,
                        step_size=step_size,
                        unique=unique,
                    )
                    expected = ref_compute_ray(
                        position,
                        area,
                        radians=rad,
                        step_size=step_size,
                        unique=unique,
                    )
                    check(
                        got == expected,
                        f'compute_ray {position} {deg} {step_size} {unique}',
                    )
            # default of `unique` is True
            got = rt.compute_ray(position, area, radians=1.0, step_size=0.01)
            check(
                got
                == ref_compute_ray(
                    position, area, radians=1.0, step_size=0.01, unique=True
                ),
                'compute_ray default unique',
            )
            check_ray(got, position, area, f'compute_ray {position}')

    # hard-coded expectations (from the documented behaviour)
    check(
        rt.compute_ray(Position(0, 0), area, radians=0.0, step_size=0.01)
        == [Position(0, 0), Position(0, 1), Position(0, 2)],
        'compute_ray hard-coded 0 degrees',
    )
    check(
        rt.compute_ray(
            Position(0, 0), area, radians=math.pi / 4, step_size=0.01
        )
        == [Position(0, 0), Position(1, 1)],
        'compute_ray hard-coded 45 degrees',
    )

    # 2. fans: every small area (non-square, 1-wide, shifted) x every origin
    small_areas = []
    for height, width in itt.product(range(1, 5), repeat=2):
        small_areas.append(Area((0, height - 1), (0, width - 1)))
    small_areas += [
        Area((-3, 0), (-1, 1)),  # asymmetric view area
        Area((-2, 1), (3, 7)),
        Area((5, 5), (-4, 0)),
        Area((-4, 0), (2, 2)),
    ]
    for area in small_areas:
        for position in area.positions():
            fancy = rt.compute_rays_fancy(position, area)
            check(
                len(fancy) == (area.height + 1) * (area.width + 1),
                f'fancy count {position} {area}',
            )
            check(
                fancy == ref_compute_rays_fancy(position, area),
                f'fancy equality {position} {area}',
            )
            check_fan(fancy, position, area, f'fancy {position} {area}')

    # bigger areas (the view sizes in use and beyond), awkward origins
    big_areas = [
        Area((-6, 0), (-3, 3)),  # default 7x7 view, agent at the bottom centre
        Area((0, 6), (0, 6)),
        Area((-4, 0), (-4, 4)),  # 5x9
        Area((0, 8), (0, 2)),  # 9x3
        Area((-1, 1), (-5, 5)),  # 3x11
        Area((0, 9), (0, 9)),
    ]
    for area in big_areas:
        selection = 'all' if area.height * area.width <= 27 else 'some'
        for position in origins_of(area, selection):
            fancy = rt.compute_rays_fancy(position, area)
            check(
                fancy == ref_compute_rays_fancy(position, area),
                f'fancy equality {position} {area}',
            )
            check_fan(fancy, position, area, f'fancy {position} {area}')

    # the 1-degree fan
    for area in [Area((-1, 1), (-2, 2)), Area((0, 0), (0, 3)), Area((0, 4), (0, 4))]:
        for position in origins_of(area, 'some'):
            rays = rt.compute_rays(position, area)
            check(len(rays) == 360, 'compute_rays count')
            check(
                rays == ref_compute_rays(position, area),
                f'compute_rays equality {position} {area}',
            )
            check_fan(rays, position, area, f'rays {position} {area}')

    # 3. the documented error: every entry point, exact type and message,
    # raised for every outside origin, and the caches are not poisoned
    area = Area((-1, 1), (-2, 2))
    outside = [
        Position(2, 0),
        Position(-2, 0),
        Position(0, 3),
        Position(0, -3),
        Position(2, 3),
        Position(-100, 100),
    ]
    entry_points = {
        'compute_ray': lambda p, a: rt.compute_ray(
            p, a, radians=0.0, step_size=0.01
        ),
        'compute_ray non-unique': lambda p, a: rt.compute_ray(
            p, a, radians=2.0, step_size=0.01, unique=False
        ),
        'compute_rays': rt.compute_rays,
        'compute_rays_fancy': rt.compute_rays_fancy,
        'cached_compute_rays': rt.cached_compute_rays,
        'cached_compute_rays_fancy': rt.cached_compute_rays_fancy,
    }
    for name, function in entry_points.items():
        for position in outside:
            for _ in range(2):  # repeated: errors are never cached
                try:
                    function(position, area)
                except ValueError as error:
                    check(
                        type(error) is ValueError,
                        f'{name}: wrong error type {type(error)}',
                    )
                    check(
                        str(error)
                        == f'Position {position} is not inside area {area}',
                        f'{name}: wrong message {error}',
                    )
                else:
                    check(False, f'{name}: no error for {position}')
        # the same entry point still works for inside origins afterwards
        inside = Position(1, -2)
        result = function(inside, area)
        check(result, f'{name}: falsy result after errors')

    # a degenerate 1x1 area: all rays are the origin alone
    area = Area((3, 3), (-2, -2))
    position = Position(3, -2)
    check(
        rt.compute_rays_fancy(position, area) == [[position]] * 4,
        '1x1 fancy fan',
    )
    check(rt.compute_rays(position, area) == [[position]] * 360, '1x1 fan')

    # 4. caching: any order of earlier queries, repeated calls, same results
    area = Area((-3, 0), (-2, 2))
    queries = list(area.positions())
    fresh = {p: ref_compute_rays_fancy(p, area) for p in queries}
    rnd = random.Random(19)
    for _ in range(3):
        rnd.shuffle(queries)
        for position in queries:
            check(
                rt.cached_compute_rays_fancy(position, area)
                == fresh[position],
                f'cached fancy {position}',
            )
            check(
                rt.compute_rays_fancy(position, area) == fresh[position],
                f'uncached fancy {position}',
            )
        rt.cached_compute_rays_fancy.cache_clear()
    position = Position(0, 0)
    check(
        rt.cached_compute_rays(position, area)
        == rt.cached_compute_rays(position, area)
        == ref_compute_rays(position, area),
        'cached compute_rays',
    )
    # equal-but-distinct keys hit the same entry and give equal results
    check(
        rt.cached_compute_rays_fancy(Position(0, 0), Area((-3, 0), (-2, 2)))
        == fresh[Position(0, 0)],
        'cached fancy, fresh key objects',
    )

    # 5. the unobstructed ray-traced view shows everything
    for height, width in [(1, 1), (1, 4), (5, 1), (3, 5), (7, 7), (4, 9)]:
        grid = Grid.from_shape((height, width), factory=Floor)
        for position in origins_of(grid.area, 'some'):
            visibility = raytracing(grid, position)
            check(
                visibility.shape == (height, width) and visibility.all(),
                f'unobstructed raytracing {height}x{width} {position}',
            )
            rng = np.random.default_rng(3)
            visibility = stochastic_raytracing(grid, position, rng=rng)
            check(
                visibility.all(),
                f'unobstructed stochastic raytracing {height}x{width}',
            )
        outside_position = Position(height, 0)
        try:
            raytracing(grid, outside_position)
        except ValueError as error:
            check(
                str(error)
                == f'Position {outside_position} is not inside area {grid.area}',
                'raytracing error message',
            )
        else:
            check(False, 'raytracing outside origin: no error')

    # an obstructed view, compared with the counts from the reference rays
    grid = Grid.from_shape((7, 7), factory=Floor)
    for wall in [Position(4, 3), Position(5, 1), Position(2, 5), Position(6, 4)]:
        grid[wall] = Wall()
    position = Position(6, 3)
    counts = np.zeros((7, 7), dtype=int)
    for ray in ref_compute_rays_fancy(position, grid.area):
        light = True
        for pos in ray:
            counts[pos.y, pos.x] += int(light)
            light = light and not grid[pos].blocks_vision
    for _ in range(2):
        check(
            np.array_equal(raytracing(grid, position), counts >= 1),
            'obstructed raytracing',
        )
        check(
            np.array_equal(raytracing(grid, position, threshold=3), counts >= 3),
            'obstructed raytracing, threshold 3',
        )

    print(f'OK ({checks} checks)')


if __name__ == '__main__':
    main()
