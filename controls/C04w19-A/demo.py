"""Demo for change A (InnerEnv._set_state helper).

Checks property C04 -- the stateful interface mirrors the functional one and
observations are never stale -- on a broad set of configurations, seeds, action
sequences and read patterns.  Runs (and exits 0) both on the pristine tree and
with the change applied; it does not depend on the patch.

Run from the worktree root:  /venv/bin/python _seed/A/demo.py
"""
import copy
import itertools
import os
import sys
from typing import List, Optional, Tuple

# run from the worktree root: make `import gym_gridverse` pick up the worktree
sys.path.insert(0, os.getcwd())

import numpy as np

from gym_gridverse.action import Action
from gym_gridverse.agent import Agent
from gym_gridverse.envs import (
    observation_functions as observation_fs,
    reset_functions as reset_fs,
    reward_functions as reward_fs,
    terminating_functions as terminating_fs,
    transition_functions as transition_fs,
)
from gym_gridverse.envs.gridworld import GridWorld
from gym_gridverse.envs.inner_env import InnerEnv
from gym_gridverse.geometry import Area, Orientation, Position, Shape
from gym_gridverse.grid import Grid
from gym_gridverse.grid_object import (
    Beacon,
    Color,
    Door,
    Exit,
    Floor,
    Key,
    MovingObstacle,
    Telepod,
    Wall,
)
from gym_gridverse.observation import Observation
from gym_gridverse.outer_env import OuterEnv
from gym_gridverse.representations.observation_representations import (
    make_observation_representation,
)
from gym_gridverse.representations.state_representations import (
    make_state_representation,
)
from gym_gridverse.spaces import ActionSpace, ObservationSpace, StateSpace
from gym_gridverse.state import State

CHECKS = 0


def check(condition, message):
    global CHECKS
    CHECKS += 1
    if not condition:
        print(f'FAILED: {message}')
        sys.exit(1)


# ---------------------------------------------------------------------------
# environments, built through the python API (mirrors envs/yaml/factory.py)
# ---------------------------------------------------------------------------

MOVES = [
    Action.MOVE_FORWARD,
    Action.MOVE_BACKWARD,
    Action.MOVE_LEFT,
    Action.MOVE_RIGHT,
    Action.TURN_LEFT,
    Action.TURN_RIGHT,
]

DEFAULT_AREA = Area((-6, 0), (-3, 3))

REACH_EXIT_REWARDS = [
    ('reach_exit', dict(reward_on=5.0, reward_off=0.0)),
    (
        'getting_closer',
        dict(
            distance_function=Position.manhattan_distance,
            object_type=Exit,
            reward_closer=0.2,
            reward_further=-0.2,
        ),
    ),
    ('living_reward', dict(reward=-0.05)),
]
MEMORY_REWARDS = [
    ('reach_exit_memory', dict(reward_good=5.0, reward_bad=-5.0)),
    ('living_reward', dict(reward=-0.05)),
]


def make_env(
    objects,
    colors,
    reset,
    transitions,
    rewards,
    observation,
    terminating,
    actions=None,
) -> GridWorld:
    reset_name, reset_kwargs = reset
    reset_function = reset_fs.factory(reset_name, **reset_kwargs)
    transition_function = transition_fs.factory(
        'chain',
        transition_functions=[
            transition_fs.factory(name) for name in transitions
        ],
    )
    reward_function = reward_fs.factory(
        'reduce_sum',
        reward_functions=[
            reward_fs.factory(name, **kwargs) for name, kwargs in rewards
        ],
    )
    observation_name, observation_area = observation
    observation_function = observation_fs.factory(
        observation_name, area=observation_area
    )
    if len(terminating) == 1:
        terminating_function = terminating_fs.factory(terminating[0])
    else:
        terminating_function = terminating_fs.factory(
            'reduce_any',
            terminating_functions=[
                terminating_fs.factory(name) for name in terminating
            ],
        )

    state = reset_function()
    state_space = StateSpace(state.grid.shape, objects, colors)
    observation = observation_function(state)
    observation_space = ObservationSpace(
        observation.grid.shape, objects, colors
    )
    action_space = ActionSpace(list(Action) if actions is None else actions)

    return GridWorld(
        state_space,
        action_space,
        observation_space,
        reset_function,
        transition_function,
        observation_function,
        reward_function,
        terminating_function,
    )


ALL_COLORS = [Color.NONE, Color.RED, Color.GREEN, Color.BLUE, Color.YELLOW]
MEMORY_COLORS = {Color.RED, Color.GREEN, Color.BLUE, Color.YELLOW}


def configurations():
    """shipped configurations (as in yaml/*.yaml) and awkward variations"""
    # fmt: off
    yield 'empty.4x4', lambda: make_env(
        [Wall, Floor, Exit], [Color.NONE],
        ('empty', dict(shape=Shape(4, 4), random_agent=True)),
        ['move_agent', 'turn_agent'], REACH_EXIT_REWARDS,
        ('partially_occluded', DEFAULT_AREA), ['reach_exit'], MOVES)
    yield 'empty.8x8', lambda: make_env(
        [Wall, Floor, Exit], [Color.NONE],
        ('empty', dict(shape=Shape(8, 8), random_agent=True)),
        ['move_agent', 'turn_agent'], REACH_EXIT_REWARDS,
        ('partially_occluded', DEFAULT_AREA), ['reach_exit'], MOVES)
    yield 'empty.4x9.random_exit.fixed_agent', lambda: make_env(
        [Wall, Floor, Exit], [Color.NONE],
        ('empty', dict(shape=Shape(4, 9), random_agent=False, random_exit=True)),
        ['move_agent', 'turn_agent'], REACH_EXIT_REWARDS,
        ('fully_transparent', Area((-1, 1), (-1, 1))), ['reach_exit'])
    yield 'four_rooms.7x7', lambda: make_env(
        [Wall, Floor, Exit], [Color.NONE],
        ('rooms', dict(shape=Shape(7, 7), layout=(2, 2))),
        ['move_agent', 'turn_agent'], REACH_EXIT_REWARDS,
        ('partially_occluded', DEFAULT_AREA), ['reach_exit'], MOVES)
    yield 'rooms.7x13.layout2x4.asymmetric_raytracing', lambda: make_env(
        [Wall, Floor, Exit], [Color.NONE],
        ('rooms', dict(shape=Shape(7, 13), layout=(2, 4))),
        ['move_agent', 'turn_agent'], REACH_EXIT_REWARDS,
        ('raytracing', Area((-3, 1), (-1, 3))), ['reach_exit'], MOVES)
    yield 'dynamic_obstacles.5x5', lambda: make_env(
        [Wall, Floor, Exit, MovingObstacle], [Color.NONE],
        ('dynamic_obstacles', dict(shape=Shape(5, 5), num_obstacles=1, random_agent=False)),
        ['move_agent', 'turn_agent', 'move_obstacles'],
        REACH_EXIT_REWARDS + [('bump_moving_obstacle', dict(reward=-1.0)), ('bump_into_wall', dict(reward=-1.0))],
        ('partially_occluded', DEFAULT_AREA),
        ['reach_exit', 'bump_moving_obstacle', 'bump_into_wall'], MOVES)
    yield 'dynamic_obstacles.6x9.stochastic', lambda: make_env(
        [Wall, Floor, Exit, MovingObstacle], [Color.NONE],
        ('dynamic_obstacles', dict(shape=Shape(6, 9), num_obstacles=4, random_agent=True)),
        ['move_agent', 'turn_agent', 'move_obstacles'],
        REACH_EXIT_REWARDS + [('bump_moving_obstacle', dict(reward=-1.0))],
        ('stochastic_raytracing', DEFAULT_AREA),
        ['reach_exit'], MOVES)
    yield 'keydoor.5x5', lambda: make_env(
        [Wall, Floor, Exit, Door, Key], [Color.NONE, Color.YELLOW],
        ('keydoor', dict(shape=Shape(5, 5))),
        ['move_agent', 'turn_agent', 'actuate_door', 'pickndrop'],
        REACH_EXIT_REWARDS + [
            ('pickndrop', dict(object_type=Key, reward_pick=1.0, reward_drop=-1.0)),
            ('actuate_door', dict(reward_open=1.0, reward_close=-1.0))],
        ('partially_occluded', DEFAULT_AREA), ['reach_exit'])
    yield 'keydoor.6x11.stochastic_asymmetric', lambda: make_env(
        [Wall, Floor, Exit, Door, Key], [Color.NONE, Color.YELLOW],
        ('keydoor', dict(shape=Shape(6, 11))),
        ['move_agent', 'turn_agent', 'actuate_door', 'pickndrop'],
        REACH_EXIT_REWARDS + [
            ('pickndrop', dict(object_type=Key, reward_pick=1.0, reward_drop=-1.0)),
            ('actuate_door', dict(reward_open=1.0, reward_close=-1.0))],
        ('stochastic_raytracing', Area((-4, 2), (-3, 1))), ['reach_exit'])
    yield 'crossing.7x7', lambda: make_env(
        [Wall, Floor, Exit], [Color.NONE],
        ('crossing', dict(shape=Shape(7, 7), num_rivers=2, object_type=Wall)),
        ['move_agent', 'turn_agent'], REACH_EXIT_REWARDS,
        ('partially_occluded', DEFAULT_AREA), ['reach_exit'], MOVES)
    yield 'crossing.5x9.one_river', lambda: make_env(
        [Wall, Floor, Exit], [Color.NONE],
        ('crossing', dict(shape=Shape(5, 9), num_rivers=1, object_type=Wall)),
        ['move_agent', 'turn_agent'], REACH_EXIT_REWARDS,
        ('raytracing', Area((0, 0), (0, 0))), ['reach_exit'], MOVES)
    yield 'teleport.5x5', lambda: make_env(
        [Wall, Floor, Exit, Telepod], [Color.NONE, Color.RED],
        ('teleport', dict(shape=Shape(5, 5))),
        ['move_agent', 'turn_agent', 'teleport'], REACH_EXIT_REWARDS,
        ('partially_occluded', DEFAULT_AREA), ['reach_exit'], MOVES)
    yield 'teleport.6x8.stochastic', lambda: make_env(
        [Wall, Floor, Exit, Telepod], [Color.NONE, Color.RED],
        ('teleport', dict(shape=Shape(6, 8))),
        ['move_agent', 'turn_agent', 'teleport'], REACH_EXIT_REWARDS,
        ('stochastic_raytracing', Area((-2, 2), (-2, 2))), ['reach_exit'], MOVES)
    yield 'memory.5x5', lambda: make_env(
        [Wall, Floor, Exit, Beacon], ALL_COLORS,
        ('memory', dict(shape=Shape(5, 5), colors=MEMORY_COLORS)),
        ['move_agent', 'turn_agent'], MEMORY_REWARDS,
        ('partially_occluded', DEFAULT_AREA), ['reach_exit'], MOVES)
    yield 'memory.8x5.two_colors', lambda: make_env(
        [Wall, Floor, Exit, Beacon], [Color.NONE, Color.GREEN, Color.BLUE],
        ('memory', dict(shape=Shape(8, 5), colors={Color.GREEN, Color.BLUE})),
        ['move_agent', 'turn_agent'], MEMORY_REWARDS,
        ('stochastic_raytracing', DEFAULT_AREA), ['reach_exit'], MOVES)
    yield 'memory_four_rooms.7x7', lambda: make_env(
        [Wall, Floor, Exit, Beacon], ALL_COLORS,
        ('memory_rooms', dict(shape=Shape(7, 7), layout=(2, 2), colors=MEMORY_COLORS, num_beacons=1, num_exits=2)),
        ['move_agent', 'turn_agent'], MEMORY_REWARDS,
        ('partially_occluded', DEFAULT_AREA), ['reach_exit'], MOVES)
    yield 'memory_rooms.7x10.layout2x3', lambda: make_env(
        [Wall, Floor, Exit, Beacon], ALL_COLORS,
        ('memory_rooms', dict(shape=Shape(7, 10), layout=(2, 3), colors=MEMORY_COLORS, num_beacons=2, num_exits=3)),
        ['move_agent', 'turn_agent'], MEMORY_REWARDS,
        ('raytracing', Area((-5, 1), (-2, 2))), ['reach_exit'], MOVES)
    # fmt: on


# ---------------------------------------------------------------------------
# helpers
# ---------------------------------------------------------------------------


def rng_state(env: GridWorld):
    """a comparable snapshot of the environment generator"""
    assert env._rng is not None
    return copy.deepcopy(env._rng.bit_generator.state)


def functional_trajectory(env: GridWorld, seed: int, script) -> List:
    """reference: threads states through the functional interface

    `script` is a list of ('reset',) / ('step', action) / ('read', what) items;
    observations are generated exactly where the stateful interface generates
    them, i.e. at the first observation read after the state changed.
    """
    env.set_seed(seed)
    trace = []
    state: Optional[State] = None
    observation: Optional[Observation] = None

    for item in script:
        if item[0] == 'reset':
            state = env.functional_reset()
            observation = None
            trace.append(('reset',))
        elif item[0] == 'step':
            assert state is not None
            state, reward, done = env.functional_step(state, item[1])
            observation = None
            trace.append(('step', reward, done))
        elif item[1] == 'state':
            trace.append(('state', state))
        else:
            assert state is not None
            if observation is None:
                observation = env.functional_observation(state)
            trace.append(('observation', observation))

    trace.append(('rng', rng_state(env)))
    return trace


def stateful_trajectory(env: GridWorld, seed: int, script) -> List:
    """drives reset / step / state / observation"""
    env.set_seed(seed)
    trace = []

    for item in script:
        if item[0] == 'reset':
            result = env.reset()
            check(result is None, 'reset returns nothing')
            trace.append(('reset',))
        elif item[0] == 'step':
            reward, done = env.step(item[1])
            trace.append(('step', reward, done))
        elif item[1] == 'state':
            trace.append(('state', env.state))
        else:
            trace.append(('observation', env.observation))

    trace.append(('rng', rng_state(env)))
    return trace


def make_script(rng: np.random.Generator, actions, length: int, pattern: str):
    """an action sequence with a pattern of reads, with mid-way resets"""
    script: List[Tuple] = [('reset',)]
    for t in range(length):
        if pattern == 'none':
            reads = []
        elif pattern == 'every':
            reads = [('read', 'observation')]
        elif pattern == 'repeated':
            reads = [('read', 'observation')] * 3 + [('read', 'state')] * 2
        elif pattern == 'state-only':
            reads = [('read', 'state')]
        else:  # random
            reads = [
                ('read', 'observation' if rng.random() < 0.6 else 'state')
                for _ in range(rng.integers(0, 4))
            ]
        script.extend(reads)

        if rng.random() < 0.1:
            script.append(('reset',))
            if rng.random() < 0.5:
                # double reset, nothing read in between
                script.append(('reset',))
        else:
            script.append(('step', actions[rng.integers(len(actions))]))
    script.extend([('read', 'observation'), ('read', 'state')])
    return script


def traces_equal(a, b) -> bool:
    return len(a) == len(b) and all(x == y for x, y in zip(a, b))


# ---------------------------------------------------------------------------
# 1. stateful == functional, on real environments
# ---------------------------------------------------------------------------


def check_before_reset(name: str, env: InnerEnv):
    for attribute in ('state', 'observation'):
        try:
            getattr(env, attribute)
        except RuntimeError:
            check(True, '')
        else:
            check(False, f'{name}: {attribute} before reset must raise')

    try:
        env.step(Action.MOVE_FORWARD)
    except RuntimeError:
        check(True, '')
    else:
        check(False, f'{name}: step before reset must raise')

    # the failed attempts must not have installed anything
    try:
        env.state
    except RuntimeError:
        check(True, '')
    else:
        check(False, f'{name}: state still unavailable after failed step')


def check_reads(name: str, env: GridWorld, seed: int, actions):
    """observation computed at most once per state, no randomness consumed"""
    env.set_seed(seed)
    env.reset()
    control = rng_state(env)
    previous = None
    for t in range(12):
        state = env.state
        check(env.state is state, f'{name}: state reads return same object')
        check(rng_state(env) == control, f'{name}: state read consumes rng')

        # reference observation from a generator in the same condition
        reference_rng = copy.deepcopy(env._rng)
        reference = env._observation_function(state, rng=reference_rng)

        first = env.observation
        after_first = rng_state(env)
        check(
            first is not previous,
            f'{name}: observation regenerated after reset/step',
        )
        check(first == reference, f'{name}: observation of the current state')
        check(
            after_first == reference_rng.bit_generator.state,
            f'{name}: exactly one observation generated',
        )
        for _ in range(3):
            check(env.observation is first, f'{name}: memoized observation')
            check(env.state is state, f'{name}: state unaffected by reads')
            check(
                rng_state(env) == after_first,
                f'{name}: repeated reads consume randomness',
            )

        if t == 6:
            env.reset()
        else:
            env.step(actions[(seed + t) % len(actions)])
        previous = first
        control = rng_state(env)


def check_real_environments():
    script_rng = np.random.default_rng(2024)
    patterns = ['none', 'every', 'repeated', 'state-only', 'random']

    for name, factory in configurations():
        env = factory()
        other = factory()  # a second environment in the same process
        actions = env.action_space.actions

        check_before_reset(name, factory())

        for seed, pattern in itertools.product([0, 1, 17], patterns):
            script = make_script(script_rng, actions, 25, pattern)

            expected = functional_trajectory(other, seed, script)
            obtained = stateful_trajectory(env, seed, script)
            check(
                traces_equal(expected, obtained),
                f'{name}: seed {seed} pattern {pattern}: stateful != functional',
            )

            # re-seeding the very same environment replays the trajectory
            again = stateful_trajectory(env, seed, script)
            check(
                traces_equal(obtained, again),
                f'{name}: seed {seed} pattern {pattern}: re-seeding',
            )

        # reads do not influence the sequence of states, unless the
        # observation function is stochastic (lazily generated observations)
        for seed in [3, 4]:
            check_reads(name, env, seed, actions)

    print(f'real environments ok ({CHECKS} checks so far)')


# ---------------------------------------------------------------------------
# 2. the outer environment exposes the representations of the inner one
# ---------------------------------------------------------------------------


def dicts_equal(a, b) -> bool:
    return a.keys() == b.keys() and all(
        a[k].dtype == b[k].dtype
        and a[k].shape == b[k].shape
        and np.array_equal(a[k], b[k])
        for k in a
    )


def check_outer_environments():
    for name, factory in configurations():
        for representation in ['default', 'no-overlap', 'compact']:
            inner = factory()
            state_representation = make_state_representation(
                representation, inner.state_space
            )
            observation_representation = make_observation_representation(
                representation, inner.observation_space
            )
            outer = OuterEnv(
                inner,
                state_representation=state_representation,
                observation_representation=observation_representation,
            )
            check(
                outer.action_space is inner.action_space,
                f'{name}: outer action space',
            )

            for attribute in ('state', 'observation'):
                try:
                    getattr(outer, attribute)
                except RuntimeError:
                    check(True, '')
                else:
                    check(False, f'{name}: outer {attribute} before reset')

            inner.set_seed(11)
            check(outer.reset() is None, 'outer reset returns nothing')
            actions = inner.action_space.actions
            for t in range(15):
                if t % 3 != 1:  # reads in some steps only
                    observation = inner.observation
                    check(
                        dicts_equal(
                            outer.observation,
                            observation_representation.convert(observation),
                        ),
                        f'{name}/{representation}: outer observation',
                    )
                    check(
                        inner.observation is observation,
                        f'{name}/{representation}: outer read is a plain read',
                    )
                    check(
                        all(
                            space.contains(outer.observation[key])
                            for key, space in observation_representation.space.items()
                        ),
                        f'{name}/{representation}: observation in space',
                    )
                if t % 2 == 0:
                    check(
                        dicts_equal(
                            outer.state,
                            state_representation.convert(inner.state),
                        ),
                        f'{name}/{representation}: outer state',
                    )

                if t == 8:
                    outer.reset()
                else:
                    state = inner.state
                    control = copy.deepcopy(inner._rng)
                    reward, done = outer.step(actions[t % len(actions)])
                    # the same step, functionally, from the same generator
                    inner_rng, inner._rng = inner._rng, control
                    expected = inner.functional_step(
                        state, actions[t % len(actions)]
                    )
                    inner._rng = inner_rng
                    check(
                        (inner.state, reward, done) == expected,
                        f'{name}/{representation}: outer step',
                    )

        # outer environment without representations
        bare = OuterEnv(factory())
        bare.reset()
        for attribute in ('state', 'observation'):
            try:
                getattr(bare, attribute)
            except RuntimeError:
                check(True, '')
            else:
                check(False, f'{name}: {attribute} without representation')

    print(f'outer environments ok ({CHECKS} checks so far)')


# ---------------------------------------------------------------------------
# 3. the InnerEnv base class alone, against an embedded reference
# ---------------------------------------------------------------------------


class ReferenceEnv:
    """reference implementation of the stateful protocol (embedded copy)"""

    def __init__(self, env: InnerEnv):
        self.env = env
        self._state = None
        self._observation = None

    def reset(self):
        self._state = self.env.functional_reset()
        self._observation = None

    def step(self, action):
        self._state, reward, done = self.env.functional_step(self.state, action)
        self._observation = None
        return reward, done

    @property
    def state(self):
        if self._state is None:
            raise RuntimeError('not reset')
        return self._state

    @property
    def observation(self):
        if self._observation is None:
            self._observation = self.env.functional_observation(self.state)
        return self._observation


class CountingEnv(InnerEnv):
    """minimal stochastic environment which counts every functional call"""

    def __init__(self, shape: Shape):
        self.shape = shape
        self.calls = {'reset': 0, 'step': 0, 'observation': 0}
        self.fail_next_step = False
        self.fail_next_observation = False
        self._rng = np.random.default_rng()
        super().__init__(
            StateSpace(shape, [Floor, Wall], [Color.NONE]),
            ActionSpace(list(Action)),
            ObservationSpace(Shape(3, 3), [Floor, Wall], [Color.NONE]),
        )

    def set_seed(self, seed=None):
        self._rng = np.random.default_rng(seed)

    def _random_state(self) -> State:
        grid = Grid.from_shape((self.shape.height, self.shape.width))
        for position in grid.area.positions():
            if self._rng.random() < 0.3:
                grid[position] = Wall()
        agent = Agent(
            Position(
                int(self._rng.integers(self.shape.height)),
                int(self._rng.integers(self.shape.width)),
            ),
            list(Orientation)[int(self._rng.integers(4))],
        )
        return State(grid, agent)

    def functional_reset(self) -> State:
        self.calls['reset'] += 1
        return self._random_state()

    def functional_step(self, state, action):
        self.calls['step'] += 1
        if self.fail_next_step:
            self.fail_next_step = False
            raise ValueError('invalid action')
        next_state = self._random_state()
        return next_state, float(self._rng.random()), bool(
            self._rng.random() < 0.2
        )

    def functional_observation(self, state):
        self.calls['observation'] += 1
        if self.fail_next_observation:
            self.fail_next_observation = False
            raise ValueError('observation failure')
        grid = Grid.from_shape((3, 3))
        for position in grid.area.positions():
            if self._rng.random() < 0.5:
                grid[position] = Wall()
        return Observation(grid, Agent(Position(2, 1), Orientation.F))


def check_base_class():
    control = np.random.default_rng(7)

    for shape in [Shape(1, 1), Shape(2, 5), Shape(6, 3)]:
        for seed in range(6):
            env = CountingEnv(shape)
            twin = CountingEnv(shape)
            reference = ReferenceEnv(twin)
            check_before_reset(f'counting {shape}', CountingEnv(shape))
            check(
                env.calls == {'reset': 0, 'step': 0, 'observation': 0},
                'nothing generated at construction',
            )

            env.set_seed(seed)
            twin.set_seed(seed)
            env.reset()
            reference.reset()
            expected_observations = 0
            fresh = True  # no observation generated yet for the state

            for t in range(60):
                what = control.integers(0, 7)
                if what == 0:
                    env.reset()
                    reference.reset()
                    fresh = True
                elif what == 1:
                    action = list(Action)[control.integers(len(Action))]
                    check(
                        env.step(action) == reference.step(action),
                        'step result',
                    )
                    fresh = True
                elif what == 2:
                    # a failing step leaves state and observation in place
                    state = env.state
                    observation = env._observation
                    env.fail_next_step = twin.fail_next_step = True
                    for e in (env, reference):
                        try:
                            e.step(Action.MOVE_FORWARD)
                        except ValueError:
                            check(True, '')
                        else:
                            check(False, 'failing step must raise')
                    check(env.state is state, 'failing step keeps the state')
                    check(
                        env._observation is observation,
                        'failing step keeps the memoized observation',
                    )
                elif what == 3:
                    # a failing observation is not memoized
                    if fresh:
                        env.fail_next_observation = True
                        twin.fail_next_observation = True
                        for e in (env, reference):
                            try:
                                e.observation
                            except ValueError:
                                check(True, '')
                            else:
                                check(False, 'failing observation must raise')
                        check(env._observation is None, 'nothing memoized')
                elif what == 4:
                    check(env.state == reference.state, 'state')
                    check(env.state is env.state, 'state identity')
                else:
                    expected_observations += fresh
                    fresh = False
                    observation = env.observation
                    check(observation == reference.observation, 'observation')
                    check(env.observation is observation, 'memoized')

                check(env.calls == twin.calls, f'calls {env.calls} {twin.calls}')
                check(
                    env._rng.bit_generator.state
                    == twin._rng.bit_generator.state,
                    'same randomness consumed',
                )

    print(f'base class ok ({CHECKS} checks so far)')


if __name__ == '__main__':
    check_real_environments()
    check_outer_environments()
    check_base_class()
    print(f'all {CHECKS} checks passed')
