# ---------------------------------------------------------------------------
# Independent reference model (does NOT call any library logic: it only reads
# plain attributes of library objects -- type name, `.state`, `.color`,
# `.content`, agent position/orientation/held object -- and re-implements the
# dynamics on plain tuples).
# ---------------------------------------------------------------------------
import os
import sys

sys.path.insert(0, os.getcwd())

import numpy as np  # noqa: E402
import numpy.random as rnd  # noqa: E402

from gym_gridverse.action import Action  # noqa: E402
from gym_gridverse.agent import Agent  # noqa: E402
from gym_gridverse.envs import transition_functions as tf  # noqa: E402
from gym_gridverse.geometry import Orientation, Position, Shape  # noqa: E402
from gym_gridverse.grid import Grid  # noqa: E402
from gym_gridverse.grid_object import (  # noqa: E402
    Beacon,
    Box,
    Color,
    Door,
    Exit,
    Floor,
    Key,
    MovingObstacle,
    NoneGridObject,
    Telepod,
    Wall,
)
from gym_gridverse.state import State  # noqa: E402

COLORS = list(Color)
STATUSES = list(Door.Status)
ACTIONS = list(Action)
ORIENTATIONS = [
    Orientation.FORWARD,
    Orientation.RIGHT,
    Orientation.BACKWARD,
    Orientation.LEFT,
]

# clockwise index of an orientation, and the (dy, dx) it points to
ORI_INDEX = {'FORWARD': 0, 'RIGHT': 1, 'BACKWARD': 2, 'LEFT': 3}
ORI_DELTA = [(-1, 0), (0, 1), (1, 0), (0, -1)]
MOVE_INDEX = {
    'MOVE_FORWARD': 0,
    'MOVE_RIGHT': 1,
    'MOVE_BACKWARD': 2,
    'MOVE_LEFT': 3,
}


def enc(obj):
    """library grid-object -> plain tuple"""
    name = type(obj).__name__
    if name == 'Door':
        return ('Door', obj.state.name, obj.color.name)
    if name == 'Box':
        return ('Box', enc(obj.content))
    if name in ('Key', 'Exit', 'Telepod', 'Beacon'):
        return (name, obj.color.name)
    if name in ('Floor', 'Wall', 'MovingObstacle', 'NoneGridObject', 'Hidden'):
        return (name,)
    raise AssertionError(f'unexpected object {obj!r}')


def snapshot(state):
    """library state -> plain model state (cells, agent)"""
    height, width = state.grid.shape.height, state.grid.shape.width
    cells = tuple(
        tuple(enc(state.grid.objects[y][x]) for x in range(width))
        for y in range(height)
    )
    agent = (
        int(state.agent.position.y),
        int(state.agent.position.x),
        ORI_INDEX[state.agent.orientation.name],
        enc(state.agent.grid_object),
    )
    return cells, agent


def _set(cells, y, x, value):
    rows = [list(row) for row in cells]
    rows[y][x] = value
    return tuple(tuple(row) for row in rows)


def model_front(cells, agent):
    y, x, o, _ = agent
    dy, dx = ORI_DELTA[o]
    fy, fx = y + dy, x + dx
    if 0 <= fy < len(cells) and 0 <= fx < len(cells[0]):
        return fy, fx
    return None


def model_blocks(cell):
    if cell[0] in ('Wall', 'Box'):
        return True
    if cell[0] == 'Door':
        return cell[1] != 'OPEN'
    return False


def model_actuate_door(cells, agent, action_name):
    if action_name != 'ACTUATE':
        return cells, agent
    front = model_front(cells, agent)
    if front is None:
        return cells, agent
    fy, fx = front
    cell = cells[fy][fx]
    if cell[0] != 'Door':
        return cells, agent
    _, status, color = cell
    held = agent[3]
    if status == 'CLOSED':
        status = 'OPEN'
    elif status == 'LOCKED' and held == ('Key', color):
        status = 'OPEN'
    return _set(cells, fy, fx, ('Door', status, color)), agent


def model_actuate_box(cells, agent, action_name):
    if action_name != 'ACTUATE':
        return cells, agent
    front = model_front(cells, agent)
    if front is None:
        return cells, agent
    fy, fx = front
    cell = cells[fy][fx]
    if cell[0] != 'Box':
        return cells, agent
    return _set(cells, fy, fx, cell[1]), agent


def model_pickndrop(cells, agent, action_name):
    if action_name != 'PICK_N_DROP':
        return cells, agent
    front = model_front(cells, agent)
    if front is None:
        return cells, agent
    fy, fx = front
    cell = cells[fy][fx]
    y, x, o, held = agent
    if cell[0] == 'Key':
        # pick up (swap if already holding something)
        new_cell = ('Floor',) if held == ('NoneGridObject',) else held
        return _set(cells, fy, fx, new_cell), (y, x, o, cell)
    if cell[0] == 'Floor':
        # drop (nothing happens when holding nothing: floor stays floor)
        new_cell = ('Floor',) if held == ('NoneGridObject',) else held
        return _set(cells, fy, fx, new_cell), (y, x, o, ('NoneGridObject',))
    return cells, agent


def model_move(cells, agent, action_name):
    if action_name not in MOVE_INDEX:
        return cells, agent
    y, x, o, held = agent
    dy, dx = ORI_DELTA[(o + MOVE_INDEX[action_name]) % 4]
    ny, nx = y + dy, x + dx
    if not (0 <= ny < len(cells) and 0 <= nx < len(cells[0])):
        return cells, agent
    if model_blocks(cells[ny][nx]):
        return cells, agent
    return cells, (ny, nx, o, held)


def model_turn(cells, agent, action_name):
    y, x, o, held = agent
    if action_name == 'TURN_LEFT':
        return cells, (y, x, (o + 3) % 4, held)
    if action_name == 'TURN_RIGHT':
        return cells, (y, x, (o + 1) % 4, held)
    return cells, agent


MODEL = {
    'move_agent': model_move,
    'turn_agent': model_turn,
    'actuate_door': model_actuate_door,
    'actuate_box': model_actuate_box,
    'pickndrop': model_pickndrop,
}


def model_chain(names, cells, agent, action_name):
    for name in names:
        cells, agent = MODEL[name](cells, agent, action_name)
    return cells, agent


def all_objects(state):
    """identity map of every object reachable from the state"""
    objs = []
    for row in state.grid.objects:
        for obj in row:
            objs.append(obj)
            while isinstance(obj, Box):
                obj = obj.content
                objs.append(obj)
    objs.append(state.agent.grid_object)
    return objs


def held_candidates():
    """none, a key of each colour, and other (non-key) objects of each colour"""
    out = [lambda: None, lambda: NoneGridObject()]
    for color in COLORS:
        out.append(lambda color=color: Key(color))
        out.append(lambda color=color: Telepod(color))
        out.append(lambda color=color: Beacon(color))
        out.append(lambda color=color: Exit(color))
        out.append(lambda color=color: Door(Door.Status.OPEN, color))
    out.append(lambda: Floor())
    out.append(lambda: Wall())
    out.append(lambda: MovingObstacle())
    out.append(lambda: Box(Key(Color.RED)))
    return out


def rng_state(rng):
    return repr(rng.bit_generator.state)


# ---------------------------------------------------------------------------
# Driver A: actuate_door
# ---------------------------------------------------------------------------
def make_state(height, width, placements, agent_yx, orientation, held):
    grid = Grid.from_shape((height, width))
    for (y, x), obj in placements.items():
        grid[y, x] = obj
    agent = Agent(Position(*agent_yx), orientation, held)
    return State(grid, agent)


def check_call(function, names, state, action, rng_mode):
    """calls `function` on state and compares with the model chain `names`"""
    cells, agent = snapshot(state)
    objects_before = all_objects(state)
    held_before = state.agent.grid_object
    grid_before = state.grid
    rows_before = list(state.grid.objects)

    if rng_mode == 'none':
        import gym_gridverse.rng as gv_rng

        global_rng = gv_rng.get_gv_rng()
        before = rng_state(global_rng)
        result = function(state, action)
        assert rng_state(gv_rng.get_gv_rng()) == before
        assert gv_rng.get_gv_rng() is global_rng
    else:
        rng = rnd.default_rng(12345)
        before = rng_state(rng)
        result = function(state, action, rng=rng)
        assert rng_state(rng) == before, 'random numbers were consumed'

    assert result is None
    expected = model_chain(names, cells, agent, action.name)
    got = snapshot(state)
    assert got == expected, (action, cells, agent, got, expected)

    # aliasing: containers are the same objects, mutated in place
    assert state.grid is grid_before
    assert all(a is b for a, b in zip(state.grid.objects, rows_before))
    return objects_before, held_before


def exhaustive_single_door():
    """all statuses x colours x held items x poses x actions, 3 door cells"""
    actuate_door = tf.actuate_door
    via_factory = tf.factory('actuate_door')
    via_registry = tf.transition_function_registry['actuate_door']
    assert via_registry is actuate_door

    count = 0
    opened = 0
    height, width = 3, 3
    held_makers = held_candidates()
    for door_yx in [(1, 1), (0, 0), (2, 1)]:
        for status in STATUSES:
            for color in COLORS:
                for hi, make_held in enumerate(held_makers):
                    for ay in range(height):
                        for ax in range(width):
                            for orientation in ORIENTATIONS:
                                for action in ACTIONS:
                                    door = Door(status, color)
                                    held = make_held()
                                    state = make_state(
                                        height,
                                        width,
                                        {door_yx: door},
                                        (ay, ax),
                                        orientation,
                                        held,
                                    )
                                    function = (
                                        via_factory
                                        if count % 3 == 0
                                        else actuate_door
                                    )
                                    rng_mode = 'none' if count % 5 == 0 else 'rng'
                                    before_status = door.state
                                    check_call(
                                        function,
                                        ['actuate_door'],
                                        state,
                                        action,
                                        rng_mode,
                                    )
                                    count += 1

                                    # explicit statement of the property
                                    dy, dx = ORI_DELTA[
                                        ORI_INDEX[orientation.name]
                                    ]
                                    faced = (ay + dy, ax + dx) == door_yx
                                    has_key = (
                                        type(held) is Key
                                        and held.color is color
                                    )
                                    should_open = (
                                        action is Action.ACTUATE
                                        and faced
                                        and (
                                            before_status is Door.Status.CLOSED
                                            or (
                                                before_status
                                                is Door.Status.LOCKED
                                                and has_key
                                            )
                                        )
                                    )
                                    assert state.grid[door_yx] is door
                                    assert door.color is color
                                    if should_open:
                                        opened += 1
                                        assert door.state is Door.Status.OPEN
                                    else:
                                        assert door.state is before_status
                                    # held item is never consumed or replaced
                                    if held is not None:
                                        assert state.agent.grid_object is held
                                    else:
                                        assert isinstance(
                                            state.agent.grid_object,
                                            NoneGridObject,
                                        )
                                    # door properties stay consistent
                                    is_open = door.state is Door.Status.OPEN
                                    assert door.is_open == is_open
                                    assert door.blocks_movement == (not is_open)
                                    assert door.blocks_vision == (not is_open)
                                    assert door.is_locked == (
                                        door.state is Door.Status.LOCKED
                                    )
    print(f'exhaustive_single_door: {count} cases, {opened} openings')
    assert opened > 0


def subclass_and_lookalikes():
    """Door/Key subclasses count as doors/keys;  look-alikes do not"""

    class FancyDoor(Door, register=False):
        pass

    class FancyKey(Key, register=False):
        pass

    class NotADoor(Wall, register=False):
        """has door-like attributes but is not a Door"""

        def __init__(self):
            super().__init__()
            self.state = Door.Status.LOCKED
            self.is_open = False
            self.is_locked = True

    for action in ACTIONS:
        for key_type in (Key, FancyKey):
            for door_type in (Door, FancyDoor):
                for key_color in COLORS:
                    for status in STATUSES:
                        door = door_type(status, Color.GREEN)
                        key = key_type(key_color)
                        state = make_state(
                            2, 2, {(0, 1): door}, (1, 1), Orientation.F, key
                        )
                        tf.actuate_door(state, action)
                        expect_open = status is Door.Status.OPEN or (
                            action is Action.ACTUATE
                            and (
                                status is Door.Status.CLOSED
                                or key_color is Color.GREEN
                            )
                        )
                        assert door.is_open == expect_open
                        assert state.agent.grid_object is key
                        assert state.grid[0, 1] is door

        fake = NotADoor()
        state = make_state(
            2, 2, {(0, 1): fake}, (1, 1), Orientation.F, Key(Color.NONE)
        )
        tf.actuate_door(state, action)
        assert fake.state is Door.Status.LOCKED
        assert state.grid[0, 1] is fake
    print('subclass_and_lookalikes: ok')


def random_worlds():
    """random multi-object worlds, random action sequences, full chain"""
    names = ['move_agent', 'turn_agent', 'actuate_door', 'actuate_box', 'pickndrop']
    chain = tf.factory(
        'chain', transition_functions=[tf.factory(name) for name in names]
    )
    rng = rnd.default_rng(2024)

    def random_object(depth=0):
        k = rng.integers(0, 10)
        color = COLORS[rng.integers(len(COLORS))]
        if k <= 2:
            return Door(STATUSES[rng.integers(len(STATUSES))], color)
        if k <= 4:
            return Key(color)
        if k == 5 and depth < 2:
            return Box(random_object(depth + 1))
        if k == 6:
            return Wall()
        if k == 7:
            return Telepod(color)
        return Floor()

    steps = 0
    openings = 0
    for world in range(300):
        height = int(rng.integers(1, 6))
        width = int(rng.integers(1, 6))
        placements = {
            (y, x): random_object()
            for y in range(height)
            for x in range(width)
        }
        agent_yx = (int(rng.integers(height)), int(rng.integers(width)))
        orientation = ORIENTATIONS[rng.integers(4)]
        held = [None, Key(COLORS[rng.integers(len(COLORS))])][rng.integers(2)]
        state = make_state(
            height, width, placements, agent_yx, orientation, held
        )
        for _ in range(60):
            # bias towards actuate / pick-n-drop
            action = (
                ACTIONS[rng.integers(len(ACTIONS))]
                if rng.random() < 0.6
                else [Action.ACTUATE, Action.PICK_N_DROP][rng.integers(2)]
            )
            doors_before = [
                (obj, obj.state)
                for obj in all_objects(state)
                if isinstance(obj, Door)
            ]
            cells, agent = snapshot(state)
            front = model_front(cells, agent)
            check_call(chain, names, state, action, 'rng')
            steps += 1
            for door, status in doors_before:
                if door.state is not status:
                    openings += 1
                    assert door.state is Door.Status.OPEN
                    assert action is Action.ACTUATE
                    assert front is not None and state.grid[front] is door
                    if status is Door.Status.LOCKED:
                        held_now = state.agent.grid_object
                        assert isinstance(held_now, Key)
                        assert held_now.color is door.color

        # non-in-place variant leaves the input state untouched
        before = snapshot(state)
        next_state = tf.transition_with_copy(chain, state, Action.ACTUATE)
        assert snapshot(state) == before
        assert next_state is not state
        assert snapshot(next_state) == model_chain(
            names, before[0], before[1], 'ACTUATE'
        )
    print(f'random_worlds: {steps} steps, {openings} door openings')
    assert openings > 0


def keydoor_environment():
    """reachable states of the key-door environment"""
    from gym_gridverse.envs.yaml.factory import factory_env_from_data

    names = ['move_agent', 'turn_agent', 'actuate_door', 'pickndrop']
    total_opened = 0
    for size in ([5, 5], [7, 7], [6, 9]):
        data = {
            'state_space': {
                'objects': ['Wall', 'Floor', 'Exit', 'Door', 'Key'],
                'colors': ['NONE', 'YELLOW'],
            },
            'observation_space': {
                'objects': ['Wall', 'Floor', 'Exit', 'Door', 'Key'],
                'colors': ['NONE', 'YELLOW'],
            },
            'reset_function': {'name': 'keydoor', 'shape': list(size)},
            'transition_functions': [{'name': name} for name in names],
            'reward_functions': [{'name': 'living_reward', 'reward': -0.05}],
            'observation_function': {
                'name': 'partially_occluded',
                'area': [[-6, 0], [-3, 3]],
            },
            'terminating_function': {'name': 'reach_exit'},
        }
        env = factory_env_from_data(data)
        policy_rng = rnd.default_rng(99)
        for seed in range(25):
            env.set_seed(seed)
            env.reset()
            key_was_used = False
            for _ in range(150):
                state = env.state
                cells, agent = snapshot(state)
                flat = [cell for row in cells for cell in row]
                assert flat.count(('Door', 'LOCKED', 'YELLOW')) + flat.count(
                    ('Door', 'OPEN', 'YELLOW')
                ) == 1
                n_keys = flat.count(('Key', 'YELLOW')) + (
                    agent[3] == ('Key', 'YELLOW')
                )
                assert n_keys == 1  # keys are never consumed (nor duplicated)
                if not key_was_used:
                    assert ('Door', 'OPEN', 'YELLOW') not in flat

                front = model_front(cells, agent)
                front_cell = None if front is None else cells[front[0]][front[1]]
                # guided-random policy so that doors do get opened
                r = policy_rng.random()
                if front_cell == ('Key', 'YELLOW') and r < 0.7:
                    action = Action.PICK_N_DROP
                elif front_cell is not None and front_cell[0] == 'Door' and r < 0.7:
                    action = Action.ACTUATE
                else:
                    action = ACTIONS[policy_rng.integers(len(ACTIONS))]

                if (
                    action is Action.ACTUATE
                    and front_cell == ('Door', 'LOCKED', 'YELLOW')
                    and agent[3] == ('Key', 'YELLOW')
                ):
                    key_was_used = True
                    total_opened += 1

                _, done = env.step(action)
                assert snapshot(env.state) == model_chain(
                    names, cells, agent, action.name
                )
                assert snapshot(state) == (cells, agent)  # input untouched
                if done:
                    break
    print(f'keydoor_environment: locked door opened with key {total_opened} times')
    assert total_opened > 0


if __name__ == '__main__':
    exhaustive_single_door()
    subclass_and_lookalikes()
    random_worlds()
    keydoor_environment()
    print('OK')
