"""Demo for change A (Grid.subgrid gains a `factory` keyword).

Run from the worktree root:  /venv/bin/python _seed/A/demo.py

Exits 0 both on the pristine tree and with the patch applied.  Checks

1. Grid.subgrid against a reference implementation embedded here (areas
   inside, straddling and completely outside the grid, negative coordinates,
   1x1 areas, non-square grids), including object identity of the in-grid
   cells, freshness of the out-of-grid cells, and non-mutation of the source;
2. (only when the keyword exists) Grid.subgrid(..., factory=...);
3. the observation functions against an embedded egocentric reference;
4. property C07: rotating grid and agent pose together by any quarter turn
   leaves the observation of every deterministic built-in observation function
   unchanged, for many view areas;
5. a digest of every observation computed in 4., hard-coded from the pristine
   tree.
"""
import hashlib
import inspect
import os
import sys

sys.path.insert(0, os.getcwd())

from gym_gridverse.agent import Agent  # noqa: E402
from gym_gridverse.envs import observation_functions as ofs  # noqa: E402
from gym_gridverse.geometry import Area, Orientation, Position  # noqa: E402
from gym_gridverse.grid import Grid  # noqa: E402
from gym_gridverse.grid_object import (  # noqa: E402
    Beacon,
    Box,
    Color,
    Door,
    Exit,
    Floor,
    Hidden,
    Key,
    MovingObstacle,
    NoneGridObject,
    Telepod,
    Wall,
)
from gym_gridverse.state import State  # noqa: E402

EXPECTED_DIGEST = (
    '133606f70e7ec68f1bdad57a79a4fbaa18c2e4f375db222a720d03ae09ce278c'
)

failures = []


def check(condition, message):
    if not condition:
        failures.append(message)
        if len(failures) <= 20:
            print('FAIL', message)


# ---------------------------------------------------------------- scenarios


def make_objects(height, width, salt):
    """deterministic, asymmetric layout with all kinds of objects"""
    makers = [
        Floor,
        Floor,
        Wall,
        Floor,
        lambda: Door(Door.Status.OPEN, Color.RED),
        Floor,
        lambda: Door(Door.Status.CLOSED, Color.NONE),
        lambda: Key(Color.BLUE),
        Floor,
        lambda: Door(Door.Status.LOCKED, Color.YELLOW),
        MovingObstacle,
        Floor,
        lambda: Box(Key(Color.GREEN)),
        lambda: Telepod(Color.NONE),
        Floor,
        lambda: Beacon(Color.GREEN),
        lambda: Exit(Color.NONE),
        lambda: Exit(Color.BLUE),
        Wall,
        Floor,
    ]
    return [
        [
            makers[(7 * y * y + 3 * x + 5 * x * y + salt) % len(makers)]()
            for x in range(width)
        ]
        for y in range(height)
    ]


GRID_SHAPES = [(1, 1), (1, 4), (5, 1), (2, 3), (4, 4), (3, 6), (6, 5)]

VIEW_AREAS = [
    Area((-6, 0), (-3, 3)),  # default minigrid-like view
    Area((-2, 0), (-1, 1)),
    Area((-3, 0), (-1, 2)),  # asymmetric left/right
    Area((-1, 0), (-4, 0)),  # agent in the corner of its view
    Area((0, 0), (0, 0)),  # sees only its own cell
    Area((-2, 0), (0, 0)),  # a single column
    Area((0, 0), (-2, 3)),  # a single row
    # agent not at the bottom of the view (partially_occluded not defined)
    Area((-2, 1), (-1, 2)),
    Area((-1, 3), (-2, 0)),
    Area((-3, 3), (-3, 3)),
    Area((0, 2), (0, 3)),
]

HELD = [None, Key(Color.NONE), Key(Color.RED)]

ORIENTATIONS = [
    Orientation.F,
    Orientation.R,
    Orientation.B,
    Orientation.L,
]


def observation_functions_for(area):
    functions = [('fully_transparent', ofs.fully_transparent)]
    if area.contains(Position(0, 0)):
        functions.append(('raytracing', ofs.raytracing))
        if area.ymax == 0:
            functions.append(('partially_occluded', ofs.partially_occluded))
    return functions


# ------------------------------------------- independent world quarter turn

# counter-clockwise quarter turn of the picture
_TURN_ORIENTATION = {
    Orientation.F: Orientation.L,
    Orientation.L: Orientation.B,
    Orientation.B: Orientation.R,
    Orientation.R: Orientation.F,
}


def turn_world(objects, position, orientation):
    height, width = len(objects), len(objects[0])
    new_objects = [
        [objects[j][width - 1 - i] for j in range(height)]
        for i in range(width)
    ]
    new_position = Position(width - 1 - position.x, position.y)
    return new_objects, new_position, _TURN_ORIENTATION[orientation]


# -------------------------------------------------- egocentric reference

# world offset of the view cell (dy, dx) for an agent with given orientation
_WORLD_OFFSET = {
    Orientation.F: lambda dy, dx: (dy, dx),
    Orientation.R: lambda dy, dx: (dx, -dy),
    Orientation.B: lambda dy, dx: (-dy, -dx),
    Orientation.L: lambda dy, dx: (-dx, dy),
}


def reference_fully_transparent(objects, position, orientation, area):
    height, width = len(objects), len(objects[0])
    rows = []
    for dy in range(area.ymin, area.ymax + 1):
        row = []
        for dx in range(area.xmin, area.xmax + 1):
            oy, ox = _WORLD_OFFSET[orientation](dy, dx)
            y, x = position.y + oy, position.x + ox
            inside = 0 <= y < height and 0 <= x < width
            row.append(objects[y][x] if inside else Hidden())
        rows.append(row)
    return rows


def reference_subgrid(objects, area, factory=Hidden):
    height, width = len(objects), len(objects[0])
    return [
        [
            objects[y][x] if 0 <= y < height and 0 <= x < width else factory()
            for x in range(area.xmin, area.xmax + 1)
        ]
        for y in range(area.ymin, area.ymax + 1)
    ]


def cell_signature(obj):
    return (type(obj).__name__, obj.state_index, obj.color.name)


def grid_signature(grid):
    return tuple(tuple(cell_signature(obj) for obj in row) for row in grid.objects)


def same_cells(rows_a, rows_b):
    return (
        len(rows_a) == len(rows_b)
        and all(len(ra) == len(rb) for ra, rb in zip(rows_a, rows_b))
        and all(
            type(a) is type(b) and a == b
            for ra, rb in zip(rows_a, rows_b)
            for a, b in zip(ra, rb)
        )
    )


# ----------------------------------------------------------- 1/2: subgrid

SUBGRID_AREAS = [
    Area((0, 0), (0, 0)),
    Area((-1, 1), (-1, 1)),
    Area((-3, -1), (-4, -2)),  # entirely outside (negative): no wrap-around
    Area((-1, -1), (-1, -1)),  # the cell python would index as [-1][-1]
    Area((-2, 1), (0, 0)),
    Area((0, 9), (0, 9)),
    Area((7, 9), (8, 12)),  # entirely outside (positive)
    Area((-5, 8), (-7, 9)),  # strictly contains every grid used here
    Area((1, 2), (-2, 1)),
    Area((-1, 0), (2, 7)),
]

subgrid_has_factory = 'factory' in inspect.signature(Grid.subgrid).parameters

for shape_index, (height, width) in enumerate(GRID_SHAPES):
    objects = make_objects(height, width, shape_index)
    grid = Grid(objects)
    before_ids = [[id(obj) for obj in row] for row in grid.objects]
    full = Area((0, height - 1), (0, width - 1))

    for area in SUBGRID_AREAS + [full]:
        tag = f'subgrid {height}x{width} {area}'
        sub = grid.subgrid(area)
        expected = reference_subgrid(objects, area)
        check(isinstance(sub, Grid), f'{tag}: type')
        check(sub is not grid, f'{tag}: returns a new grid')
        check(sub.objects is not grid.objects, f'{tag}: new outer list')
        check(
            all(row is not src for row in sub.objects for src in grid.objects),
            f'{tag}: new rows',
        )
        check(sub.shape.as_tuple == (area.height, area.width), f'{tag}: shape')
        check(same_cells(sub.objects, expected), f'{tag}: cells')
        # in-grid cells are the very objects of the source, the others are
        # fresh and pairwise distinct Hidden instances
        hidden_ids = set()
        n_hidden = 0
        for y, row in zip(area.y_coordinates(), sub.objects):
            for x, obj in zip(area.x_coordinates(), row):
                if 0 <= y < height and 0 <= x < width:
                    check(obj is objects[y][x], f'{tag}: identity at {y},{x}')
                else:
                    check(type(obj) is Hidden, f'{tag}: Hidden at {y},{x}')
                    hidden_ids.add(id(obj))
                    n_hidden += 1
        check(len(hidden_ids) == n_hidden, f'{tag}: Hidden cells are distinct')
        # repeated call gives an equal, independent result
        again = grid.subgrid(area)
        check(again == sub and again is not sub, f'{tag}: repeated call')
        again[0, 0] = Wall()
        check(same_cells(sub.objects, expected), f'{tag}: independent results')

        if subgrid_has_factory:
            for name, factory in [
                ('Hidden', Hidden),
                ('Floor', Floor),
                ('Wall', Wall),
                ('lambda', lambda: Key(Color.NONE)),
            ]:
                sub_f = grid.subgrid(area, factory=factory)
                check(
                    same_cells(
                        sub_f.objects,
                        reference_subgrid(objects, area, factory),
                    ),
                    f'{tag}: factory={name}',
                )
            calls = []

            def counting_factory():
                calls.append(None)
                return Hidden()

            grid.subgrid(area, factory=counting_factory)
            check(
                len(calls) == n_hidden,
                f'{tag}: factory called once per out-of-grid cell',
            )
            try:
                grid.subgrid(area, Hidden)
            except TypeError:
                pass
            else:
                check(False, f'{tag}: factory must be keyword-only')

    check(
        before_ids == [[id(obj) for obj in row] for row in grid.objects],
        f'subgrid {height}x{width}: source grid not mutated',
    )

# -------------------------------------------- 3/4/5: observations and C07

digest = hashlib.sha256()
n_observations = 0

for shape_index, (height, width) in enumerate(GRID_SHAPES):
    objects0 = make_objects(height, width, shape_index)
    for y in range(height):
        for x in range(width):
            for orientation0 in ORIENTATIONS:
                held = HELD[(y + 2 * x + shape_index) % len(HELD)]
                for area in VIEW_AREAS:
                    for name, function in observation_functions_for(area):
                        tag = (
                            f'{name} {height}x{width} ({y},{x}) '
                            f'{orientation0.name} {area}'
                        )
                        objects = objects0
                        position = Position(y, x)
                        orientation = orientation0
                        observations = []
                        for quarter_turns in range(4):
                            state = State(
                                Grid([list(row) for row in objects]),
                                Agent(position, orientation, held),
                            )
                            signature_before = grid_signature(state.grid)
                            observation = function(state, area=area)
                            observations.append(observation)
                            check(
                                grid_signature(state.grid) == signature_before
                                and all(
                                    a is b
                                    for ra, rb in zip(
                                        state.grid.objects, objects
                                    )
                                    for a, b in zip(ra, rb)
                                ),
                                f'{tag}: state untouched',
                            )
                            check(
                                state.agent.position == position
                                and state.agent.orientation is orientation,
                                f'{tag}: agent untouched',
                            )
                            if name == 'fully_transparent':
                                check(
                                    same_cells(
                                        observation.grid.objects,
                                        reference_fully_transparent(
                                            objects,
                                            position,
                                            orientation,
                                            area,
                                        ),
                                    ),
                                    f'{tag}: reference, turn {quarter_turns}',
                                )
                            objects, position, orientation = turn_world(
                                objects, position, orientation
                            )

                        first = observations[0]
                        check(
                            first.grid.shape.as_tuple
                            == (area.height, area.width),
                            f'{tag}: shape',
                        )
                        check(
                            first.agent.position
                            == Position(-area.ymin, -area.xmin)
                            and first.agent.orientation is Orientation.F,
                            f'{tag}: pov agent',
                        )
                        check(
                            first.agent.grid_object
                            == (NoneGridObject() if held is None else held),
                            f'{tag}: held object',
                        )
                        for quarter_turns, other in enumerate(observations):
                            check(
                                other == first
                                and grid_signature(other.grid)
                                == grid_signature(first.grid)
                                and hash(other.grid) == hash(first.grid),
                                f'{tag}: C07 violated at turn {quarter_turns}',
                            )
                        # same state observed twice: equal observations
                        check(
                            function(state, area=area)
                            == function(state, area=area),
                            f'{tag}: repeated call',
                        )
                        digest.update(
                            repr((tag, grid_signature(first.grid))).encode()
                        )
                        n_observations += 1

# the factory-built observation functions (as the environments use them)
for name in ['fully_transparent', 'partially_occluded', 'raytracing']:
    area = Area((-3, 0), (-2, 1))
    function = ofs.factory(name, area=area)
    state = State(
        Grid(make_objects(4, 5, 3)), Agent(Position(0, 4), Orientation.R)
    )
    direct = getattr(ofs, name)(state, area=area)
    check(function(state) == direct, f'factory {name}')

print(f'observations checked: {n_observations}')
print(f'digest: {digest.hexdigest()}')
if EXPECTED_DIGEST != 'PLACE' + 'HOLDER':
    check(digest.hexdigest() == EXPECTED_DIGEST, 'digest differs from pristine')

if failures:
    print(f'{len(failures)} failure(s)')
    sys.exit(1)
print('OK')
