"""Demo for change B (envs/utils.py: get_next_position through a table).

Checks the tentative next position for every heading, action and position
(negative and off-grid ones included) against a hard-coded table, that the
wall-bumping reward / termination and the agent dynamics built on it mean what
they say, and that exit rewards are paid exactly when exit-termination fires.

Run from the worktree root:  /venv/bin/python _seed/B/demo.py
Exits 0 on the pristine tree and with the patch applied.
"""
import functools
import os
import sys

sys.path.insert(0, os.getcwd())  # the worktree root, not `_seed/B`

from gym_gridverse.action import Action
from gym_gridverse.agent import Agent
from gym_gridverse.envs import reset_functions as reset_fs
from gym_gridverse.envs import reward_functions as reward_fs
from gym_gridverse.envs import terminating_functions as term_fs
from gym_gridverse.envs import transition_functions as trans_fs
from gym_gridverse.envs.utils import get_next_position
from gym_gridverse.geometry import Area, Orientation, Position, Shape, Transform
from gym_gridverse.grid import Grid
from gym_gridverse.grid_object import (
    Color,
    Door,
    Exit,
    Floor,
    Key,
    MovingObstacle,
    Wall,
)
from gym_gridverse.rng import make_rng
from gym_gridverse.state import State

CHECKS = 0

def check(condition, *info):
    global CHECKS
    CHECKS += 1
    if not condition:
        print('FAILED:', *info)
        sys.exit(1)


# ---------------------------------------------------------------------------
# reference implementation (independent of the library helpers)

# heading -> move action -> (dy, dx); F faces up (decreasing y)
DELTAS = {
    Orientation.F: {
        Action.MOVE_FORWARD: (-1, 0),
        Action.MOVE_BACKWARD: (1, 0),
        Action.MOVE_LEFT: (0, -1),
        Action.MOVE_RIGHT: (0, 1),
    },
    Orientation.R: {
        Action.MOVE_FORWARD: (0, 1),
        Action.MOVE_BACKWARD: (0, -1),
        Action.MOVE_LEFT: (-1, 0),
        Action.MOVE_RIGHT: (1, 0),
    },
    Orientation.B: {
        Action.MOVE_FORWARD: (1, 0),
        Action.MOVE_BACKWARD: (-1, 0),
        Action.MOVE_LEFT: (0, 1),
        Action.MOVE_RIGHT: (0, -1),
    },
    Orientation.L: {
        Action.MOVE_FORWARD: (0, -1),
        Action.MOVE_BACKWARD: (0, 1),
        Action.MOVE_LEFT: (1, 0),
        Action.MOVE_RIGHT: (-1, 0),
    },
}

ORIENTATIONS = [Orientation.F, Orientation.R, Orientation.B, Orientation.L]


def ref_target(state, action):
    dy, dx = DELTAS[state.agent.orientation].get(action, (0, 0))
    return state.agent.position.y + dy, state.agent.position.x + dx


def ref_cell(state, y, x):
    """object at (y, x) or None when off-grid (no negative-index wrapping)"""
    height, width = state.grid.shape.height, state.grid.shape.width
    if 0 <= y < height and 0 <= x < width:
        return state.grid.objects[y][x]
    return None


def ref_bump_into_wall(state, action, next_state):
    return isinstance(ref_cell(state, *ref_target(state, action)), Wall)


def ref_on(next_state, object_type):
    y, x = next_state.agent.position.yx
    return isinstance(ref_cell(next_state, y, x), object_type)


# ---------------------------------------------------------------------------
# grids

LAYOUTS = {
    # walled, non-square, interior walls, exit in a corner of the inside
    'walled_4x7': [
        '#######',
        '#..#.E#',
        '#.O...#',
        '#######',
    ],
    # no boundary walls: attempted moves leave the grid on borders/corners
    'open_3x5': [
        '.#..E',
        'O...#',
        'E.#..',
    ],
    # tall and thin, exits on the border
    'tall_6x2': [
        'E.',
        '.#',
        '..',
        '#O',
        '..',
        '.E',
    ],
    # single row
    'row_1x4': ['.#E.'],
    # no exit, no wall at all
    'bare_2x3': ['...', '...'],
}

CELLS = {
    '#': Wall,
    '.': Floor,
    'E': Exit,
    'O': MovingObstacle,
}


def make_grid(layout):
    return Grid([[CELLS[c]() for c in row] for row in layout])


def move_and_turn(state, action, *, rng=None):
    trans_fs.move_agent(state, action, rng=rng)
    trans_fs.turn_agent(state, action, rng=rng)


def all_states(layout):
    grid = make_grid(layout)
    for position in grid.area.positions():
        for orientation in ORIENTATIONS:
            yield State(make_grid(layout), Agent(position, orientation))


# ---------------------------------------------------------------------------
# 1. every component, on every (state, action, next_state)


def check_components():
    reward_exit = functools.partial(
        reward_fs.reach_exit, reward_on=7.5, reward_off=-0.25
    )
    for name, layout in LAYOUTS.items():
        for state in all_states(layout):
            for action in Action:
                real_next = trans_fs.transition_with_copy(
                    move_and_turn, state, action
                )
                # real next state, plus arbitrary ones (agent anywhere,
                # including on walls and obstacles)
                next_states = [real_next] + [
                    State(make_grid(layout), Agent(position, orientation))
                    for position in state.grid.area.positions()
                    for orientation in (Orientation.F, Orientation.L)
                ]
                for next_state in next_states:
                    args = (state, action, next_state)
                    info = (name, state.agent, action, next_state.agent)

                    on_exit = ref_on(next_state, Exit)
                    on_obstacle = ref_on(next_state, MovingObstacle)
                    bumps = ref_bump_into_wall(*args)

                    # termination components
                    r = term_fs.reach_exit(*args)
                    check(r is on_exit, 'reach_exit', *info)
                    r = term_fs.bump_moving_obstacle(*args)
                    check(r is on_obstacle, 'bump_moving_obstacle', *info)
                    r = term_fs.bump_into_wall(*args)
                    check(r is bumps, 'bump_into_wall', *info)
                    for object_type in (Exit, Wall, Floor, MovingObstacle, Key):
                        r = term_fs.overlap(*args, object_type=object_type)
                        check(
                            r is ref_on(next_state, object_type),
                            'overlap',
                            object_type,
                            *info,
                        )

                    # rewards agree with terminations
                    check(
                        reward_exit(*args) == (7.5 if on_exit else -0.25),
                        'reach_exit reward',
                        *info,
                    )
                    check(
                        (reward_exit(*args) == 7.5)
                        is term_fs.reach_exit(*args),
                        'exit reward iff exit termination',
                        *info,
                    )
                    check(
                        reward_fs.bump_into_wall(*args, reward=-3.0)
                        == (-3.0 if bumps else 0.0),
                        'bump_into_wall reward',
                        *info,
                    )
                    check(
                        reward_fs.bump_moving_obstacle(*args, reward=-2.0)
                        == (-2.0 if on_obstacle else 0.0),
                        'bump_moving_obstacle reward',
                        *info,
                    )

                # the real dynamics: a bump leaves the agent in place
                if ref_bump_into_wall(state, action, real_next):
                    check(
                        real_next.agent.position == state.agent.position,
                        'bump moves agent',
                        name,
                        state.agent,
                        action,
                    )

                # determinism / repeated calls / no mutation of arguments
                before = (state.agent.position, state.agent.orientation)
                first = term_fs.bump_into_wall(state, action, real_next)
                second = term_fs.bump_into_wall(state, action, real_next)
                check(first is second, 'repeat', name)
                check(
                    before == (state.agent.position, state.agent.orientation),
                    'mutation',
                    name,
                )
                check(state.grid == make_grid(layout), 'grid mutation', name)



# ---------------------------------------------------------------------------
# 2. the tentative next position itself

MOVE_ACTIONS = [
    Action.MOVE_FORWARD,
    Action.MOVE_BACKWARD,
    Action.MOVE_LEFT,
    Action.MOVE_RIGHT,
]
OTHER_ACTIONS = [
    Action.TURN_LEFT,
    Action.TURN_RIGHT,
    Action.ACTUATE,
    Action.PICK_N_DROP,
]


def check_next_position():
    check(sorted(a.value for a in Action) == list(range(8)), 'actions')
    check(set(MOVE_ACTIONS) | set(OTHER_ACTIONS) == set(Action), 'partition')

    coordinates = [-1000, -3, -1, 0, 1, 2, 7, 10**9]
    for y in coordinates:
        for x in coordinates:
            position = Position(y, x)
            for orientation in ORIENTATIONS:
                for action in MOVE_ACTIONS:
                    dy, dx = DELTAS[orientation][action]
                    result = get_next_position(position, orientation, action)
                    info = (position, orientation, action, result)
                    check(type(result) is Position, 'type', *info)
                    check(result == Position(y + dy, x + dx), 'value', *info)
                    check(position == Position(y, x), 'mutated', *info)
                    # exactly one unit step
                    check(
                        Position.manhattan_distance(result, position) == 1,
                        'unit',
                        *info,
                    )
                    # the opposite move comes back
                    opposite = {
                        Action.MOVE_FORWARD: Action.MOVE_BACKWARD,
                        Action.MOVE_BACKWARD: Action.MOVE_FORWARD,
                        Action.MOVE_LEFT: Action.MOVE_RIGHT,
                        Action.MOVE_RIGHT: Action.MOVE_LEFT,
                    }[action]
                    back = get_next_position(result, orientation, opposite)
                    check(back == position, 'round trip', *info)

                for action in OTHER_ACTIONS:
                    result = get_next_position(position, orientation, action)
                    check(result is position, 'non-move', position, action)

                # forward agrees with Agent.front and the pose transform
                agent = Agent(position, orientation)
                forward = get_next_position(
                    position, orientation, Action.MOVE_FORWARD
                )
                check(forward == agent.front(), 'front', position, orientation)
                check(
                    forward
                    == Transform(position, orientation) * Position(-1, 0),
                    'transform',
                    position,
                    orientation,
                )

    # aliases of the headings are the same members
    for alias, orientation in [
        (Orientation.FORWARD, Orientation.F),
        (Orientation.BACKWARD, Orientation.B),
        (Orientation.LEFT, Orientation.L),
        (Orientation.RIGHT, Orientation.R),
    ]:
        for action in Action:
            check(
                get_next_position(Position(2, 3), alias, action)
                == get_next_position(Position(2, 3), orientation, action),
                'alias',
                alias,
            )

    # the four moves of one heading reach the four distinct neighbours
    for orientation in ORIENTATIONS:
        neighbours = {
            get_next_position(Position(0, 0), orientation, action).yx
            for action in MOVE_ACTIONS
        }
        check(
            neighbours == {(-1, 0), (1, 0), (0, -1), (0, 1)},
            'neighbours',
            orientation,
        )

    # relative geometry: left of heading h is forward of heading h turned left
    turned_left = {
        Orientation.F: Orientation.L,
        Orientation.L: Orientation.B,
        Orientation.B: Orientation.R,
        Orientation.R: Orientation.F,
    }
    for orientation, left in turned_left.items():
        p = Position(5, -5)
        check(
            get_next_position(p, orientation, Action.MOVE_LEFT)
            == get_next_position(p, left, Action.MOVE_FORWARD),
            'left',
            orientation,
        )
        check(
            get_next_position(p, left, Action.MOVE_RIGHT)
            == get_next_position(p, orientation, Action.MOVE_FORWARD),
            'right',
            orientation,
        )

    # repeated calls, interleaved with other headings, give the same answers
    results = [
        [
            get_next_position(Position(1, 1), orientation, action).yx
            for orientation in ORIENTATIONS
            for action in Action
        ]
        for _ in range(3)
    ]
    check(results[0] == results[1] == results[2], 'repeated calls')

    # the shared displacement objects are never handed out as results which
    # could alias the input: adding to the origin gives an equal, frozen value
    origin = Position(0, 0)
    for orientation in ORIENTATIONS:
        for action in MOVE_ACTIONS:
            result = get_next_position(origin, orientation, action)
            check(result.yx == DELTAS[orientation][action], 'origin')
            try:
                result.y = 5
            except Exception:  # pylint: disable=broad-except
                pass
            else:
                check(False, 'Position is not frozen')

    # an area can be translated just like a position (Position + Area)
    area = Area((0, 2), (-1, 1))
    moved = get_next_position(area, Orientation.R, Action.MOVE_FORWARD)
    check(moved == Area((0, 2), (0, 2)), 'area', moved)
    check(get_next_position(area, Orientation.R, Action.ACTUATE) is area, 'a')

    # things which are not headings: irrelevant for non-move actions, a
    # TypeError for move actions
    for not_heading in (None, 0, 'F', Position(0, 1), (Orientation.F,)):
        for action in OTHER_ACTIONS:
            position = Position(1, 1)
            check(
                get_next_position(position, not_heading, action) is position,
                'non-heading ignored',
                not_heading,
            )
        for action in MOVE_ACTIONS:
            try:
                get_next_position(Position(1, 1), not_heading, action)
            except TypeError:
                check(True)
            else:
                check(False, 'non-heading accepted', not_heading, action)

    # things which are not actions mean "no movement" (when hashable)
    for not_action in (None, 0, 'MOVE_FORWARD', Orientation.F):
        position = Position(1, 1)
        check(
            get_next_position(position, Orientation.F, not_action) is position,
            'non-action',
            not_action,
        )


# ---------------------------------------------------------------------------
# 3. the dynamics and the other rewards built on top


def check_dynamics():
    """move_agent goes to the tentative position iff it is on-grid and free"""
    for name, layout in LAYOUTS.items():
        for state in all_states(layout):
            for action in Action:
                next_state = trans_fs.transition_with_copy(
                    trans_fs.move_agent, state, action
                )
                y, x = ref_target(state, action)
                target = ref_cell(state, y, x)
                free = target is not None and not isinstance(target, Wall)
                expected = (y, x) if free else state.agent.position.yx
                info = (name, state.agent, action, next_state.agent)
                check(next_state.agent.position.yx == expected, 'move', *info)
                check(
                    next_state.agent.orientation is state.agent.orientation,
                    'move turns',
                    *info,
                )
                check(next_state.grid == state.grid, 'move edits grid', *info)

                args = (state, action, next_state)
                # bump and movement exclude each other
                bumps = term_fs.bump_into_wall(*args)
                moved = next_state.agent.position != state.agent.position
                check(not (bumps and moved), 'bump and move', *info)
                check(
                    bumps is isinstance(target, Wall), 'bump iff wall', *info
                )
                check(
                    reward_fs.bump_into_wall(*args)
                    == (-1.0 if bumps else 0.0),
                    'default bump reward',
                    *info,
                )
                check(
                    reward_fs.bump_into_wall(*args, reward=0.0) == 0.0,
                    'zero bump reward',
                    *info,
                )

                # distance shaping has the sign of the change in distance
                exits = [
                    position
                    for position in state.grid.area.positions()
                    if isinstance(state.grid[position], Exit)
                ]
                if len(exits) == 1:
                    ey, ex = exits[0].yx
                    before = abs(state.agent.position.y - ey) + abs(
                        state.agent.position.x - ex
                    )
                    after = abs(next_state.agent.position.y - ey) + abs(
                        next_state.agent.position.x - ex
                    )
                    r = reward_fs.getting_closer(
                        *args,
                        object_type=Exit,
                        reward_closer=2.0,
                        reward_further=-3.0,
                    )
                    expected_r = (
                        2.0 if after < before else -3.0 if after > before else 0.0
                    )
                    check(r == expected_r, 'getting_closer', *info, r)
                    r = reward_fs.proportional_to_distance(
                        *args, object_type=Exit, reward_per_unit_distance=-0.5
                    )
                    check(r == -0.5 * after, 'proportional', *info, r)


def check_door_and_key():
    """actuate_door / pickndrop rewards fire exactly on the change"""
    for orientation in ORIENTATIONS:
        for status in Door.Status:
            for holds_key in (False, True):
                grid = Grid.from_shape((3, 3))
                agent = Agent(
                    Position(1, 1),
                    orientation,
                    Key(Color.RED) if holds_key else None,
                )
                grid[agent.front()] = Door(status, Color.RED)
                state = State(grid, agent)
                check(
                    agent.front()
                    == get_next_position(
                        agent.position, orientation, Action.MOVE_FORWARD
                    ),
                    'front',
                )
                for action in Action:
                    next_state = trans_fs.transition_with_copy(
                        trans_fs.actuate_door, state, action
                    )
                    door = state.grid[agent.front()]
                    next_door = next_state.grid[agent.front()]
                    r = reward_fs.actuate_door(
                        state,
                        action,
                        next_state,
                        reward_open=4.0,
                        reward_close=-6.0,
                    )
                    opened = not door.is_open and next_door.is_open
                    closed = door.is_open and not next_door.is_open
                    check(not closed, 'doors never close by actuation')
                    expected = 4.0 if opened else -6.0 if closed else 0.0
                    info = (orientation, status, holds_key, action, r)
                    check(r == expected, 'actuate_door', *info)
                    check(
                        opened
                        is (
                            action is Action.ACTUATE
                            and (
                                status is Door.Status.CLOSED
                                or (status is Door.Status.LOCKED and holds_key)
                            )
                        ),
                        'door opens',
                        *info,
                    )

    for orientation in ORIENTATIONS:
        for holds_key in (False, True):
            for key_in_front in (False, True):
                grid = Grid.from_shape((3, 3))
                agent = Agent(
                    Position(1, 1),
                    orientation,
                    Key(Color.BLUE) if holds_key else None,
                )
                if key_in_front:
                    grid[agent.front()] = Key(Color.GREEN)
                state = State(grid, agent)
                for action in Action:
                    next_state = trans_fs.transition_with_copy(
                        trans_fs.pickndrop, state, action
                    )
                    had = isinstance(state.agent.grid_object, Key)
                    has = isinstance(next_state.agent.grid_object, Key)
                    r = reward_fs.pickndrop(
                        state,
                        action,
                        next_state,
                        object_type=Key,
                        reward_pick=1.5,
                        reward_drop=-2.5,
                    )
                    expected = (
                        1.5 if not had and has else -2.5 if had and not has else 0.0
                    )
                    info = (orientation, holds_key, key_in_front, action, r)
                    check(r == expected, 'pickndrop', *info)
                    if action is not Action.PICK_N_DROP:
                        check(r == 0.0, 'pickndrop without action', *info)


# ---------------------------------------------------------------------------
# 5. trajectories with the real dynamics;  several environments, re-seeding


def rollout(reset_function, transition, reward, termination, seed, steps):
    rng = make_rng(seed)
    action_rng = make_rng(seed + 1000)
    state = reset_function(rng=rng)
    trace = []
    actions = list(Action)
    for _ in range(steps):
        action = actions[action_rng.integers(len(actions))]
        next_state = trans_fs.transition_with_copy(
            transition, state, action, rng=rng
        )
        args = (state, action, next_state)
        r = reward(*args)
        t = termination(*args)

        on_exit = ref_on(next_state, Exit)
        on_obstacle = ref_on(next_state, MovingObstacle)
        bumps = ref_bump_into_wall(*args)
        check(
            r
            == -0.125
            + (5.0 if on_exit else 0.0)
            + (-1.0 if on_obstacle else 0.0)
            + (-0.25 if bumps else 0.0),
            'trajectory reward',
            r,
        )
        check(t is (on_exit or on_obstacle), 'trajectory termination')
        check(
            term_fs.reach_exit(*args) is on_exit, 'trajectory exit termination'
        )
        trace.append(
            (action, next_state.agent.position, next_state.agent.orientation, r, t)
        )
        state = reset_function(rng=rng) if t else next_state
    return trace


def check_trajectories():
    transition = trans_fs.factory(
        'chain',
        transition_functions=[
            trans_fs.factory('move_agent'),
            trans_fs.factory('turn_agent'),
            trans_fs.factory('move_obstacles'),
        ],
    )
    reward = reward_fs.factory(
        'reduce_sum',
        reward_functions=[
            reward_fs.factory('living_reward', reward=-0.125),
            reward_fs.factory('reach_exit', reward_on=5.0, reward_off=0.0),
            reward_fs.factory('bump_moving_obstacle', reward=-1.0),
            reward_fs.factory('bump_into_wall', reward=-0.25),
        ],
    )
    termination = term_fs.factory(
        'reduce_any',
        terminating_functions=[
            term_fs.factory('reach_exit'),
            term_fs.factory('bump_moving_obstacle'),
        ],
    )
    resets = [
        reset_fs.factory(
            'empty', shape=Shape(4, 7), random_agent=True, random_exit=True
        ),
        reset_fs.factory('empty', shape=Shape(6, 4)),
        reset_fs.factory(
            'dynamic_obstacles',
            shape=Shape(5, 8),
            num_obstacles=4,
            random_agent=True,
        ),
        reset_fs.factory(
            'crossing', shape=Shape(7, 9), num_rivers=2, object_type=Wall
        ),
    ]
    terminal_steps = 0
    for reset_function in resets:
        traces = [
            rollout(reset_function, transition, reward, termination, seed, 150)
            for seed in (0, 1, 0)  # interleaved, then re-seeded
        ]
        check(traces[0] == traces[2], 're-seeding reproduces the trajectory')
        terminal_steps += sum(step[4] for trace in traces for step in trace)
    check(terminal_steps > 0, 'no terminal step was ever exercised')



def main():
    check_components()
    check_next_position()
    check_dynamics()
    check_door_and_key()
    check_trajectories()
    print(f'demo B: all {CHECKS} checks passed')


if __name__ == '__main__':
    main()
