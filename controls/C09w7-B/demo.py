"""Checks `pickndrop` against an independent re-implementation.

Run as `cd /tmp/wt7-C09 && /venv/bin/python -W ignore _seed/B/demo.py`.

The reference is written from the documented behaviour on plain values and
compares *identities* (which object sits where / is held), not only values:

* every grid shape (square, non-square, single row / column / cell), every
  agent cell (hence all borders and corners), every orientation, every
  action, a catalogue of objects in front and in hand,
* the default call, an explicit `rng`, the registry / factory / yaml-dict
  routes, `transition_with_copy`,
* no random number is ever drawn,
* the optional `object_type` keyword (when the library provides it): `None`
  is the old behaviour, any other value still conserves the objects,
* complete histories of the shipped key-door environments (and non-square
  variants) replayed by the reference, with conservation of the multiset of
  non-floor objects plus the held item.
"""
import inspect
import os
import sys

sys.path.insert(0, os.getcwd())

import itertools as itt  # noqa: E402

import numpy as np  # noqa: E402

from gym_gridverse.action import Action  # noqa: E402
from gym_gridverse.agent import Agent  # noqa: E402
from gym_gridverse.envs.transition_functions import (  # noqa: E402
    factory as transition_factory,
    pickndrop,
    transition_function_registry,
    transition_with_copy,
)
from gym_gridverse.envs.yaml.factory import (  # noqa: E402
    factory_env_from_data,
    factory_transition_function,
)
from gym_gridverse.geometry import Orientation, Position  # noqa: E402
from gym_gridverse.grid import Grid  # noqa: E402
from gym_gridverse.grid_object import (  # noqa: E402
    Beacon,
    Box,
    Color,
    Door,
    Exit,
    Floor,
    GridObject,
    Hidden,
    Key,
    MovingObstacle,
    NoneGridObject,
    Telepod,
    Wall,
)
from gym_gridverse.rng import get_gv_rng, make_rng, reset_gv_rng  # noqa: E402
from gym_gridverse.state import State  # noqa: E402

assert transition_function_registry['pickndrop'] is pickndrop

HAS_OBJECT_TYPE = 'object_type' in inspect.signature(pickndrop).parameters

# the signature must stay compatible: (state, action, *, [object_type,] rng)
_parameters = list(inspect.signature(pickndrop).parameters.values())
assert [p.name for p in _parameters[:2]] == ['state', 'action']
assert _parameters[-1].name == 'rng' and _parameters[-1].default is None
for _p in _parameters[2:]:
    assert _p.kind is inspect.Parameter.KEYWORD_ONLY
    assert _p.default is None  # every extra is optional


# user-defined objects (the library supports them through the registry)
class Gem(GridObject):
    """a second holdable thing"""

    state_index = 0
    color = Color.NONE
    blocks_movement = False
    blocks_vision = False
    holdable = True

    @classmethod
    def can_be_represented_in_state(cls):
        return True

    @classmethod
    def num_states(cls):
        return 1


class GoldKey(Key):
    """a subclass of a holdable built-in"""


class Statue(GridObject):
    """not holdable"""

    state_index = 0
    color = Color.NONE
    blocks_movement = True
    blocks_vision = True
    holdable = False

    @classmethod
    def can_be_represented_in_state(cls):
        return True

    @classmethod
    def num_states(cls):
        return 1


# ---------------------------------------------------------------- reference

ORIENTATIONS = [Orientation.F, Orientation.R, Orientation.B, Orientation.L]
DELTAS = [(-1, 0), (0, 1), (1, 0), (0, -1)]


def ref_pickndrop(cells, height, width, y, x, o, held, action, object_type):
    """returns (kind, front) with kind in {none, pick, drop, swap, refloor}

    `held` is None when the hand is empty.
    """
    if action is not Action.PICK_N_DROP:
        return 'none', None
    dy, dx = DELTAS[o]
    fy, fx = y + dy, x + dx
    if not (0 <= fy < height and 0 <= fx < width):
        return 'none', None
    front = cells[fy][fx]
    pickable = front.holdable and (
        object_type is None or isinstance(front, object_type)
    )
    if pickable:
        return ('pick' if held is None else 'swap'), (fy, fx)
    if isinstance(front, Floor):
        return ('refloor' if held is None else 'drop'), (fy, fx)
    return 'none', None


def rng_state(rng):
    return repr(rng.bit_generator.state)


# factories: every case gets fresh objects (identities are compared)
FRONTS = [
    Floor,
    Wall,
    Exit,
    lambda: Exit(Color.GREEN),
    lambda: Door(Door.Status.OPEN, Color.RED),
    lambda: Door(Door.Status.CLOSED, Color.BLUE),
    lambda: Door(Door.Status.LOCKED, Color.YELLOW),
    lambda: Key(Color.RED),
    lambda: Key(Color.YELLOW),
    lambda: GoldKey(Color.BLUE),
    Gem,
    MovingObstacle,
    lambda: Box(Key(Color.RED)),
    lambda: Box(Floor()),
    lambda: Telepod(Color.GREEN),
    lambda: Beacon(Color.BLUE),
    Statue,
    Hidden,
]

HELDS = [
    lambda: None,  # -> NoneGridObject()
    lambda: Key(Color.RED),
    lambda: Key(Color.GREEN),
    lambda: GoldKey(Color.YELLOW),
    Gem,
    # unusual: things the agent could not have picked up itself
    MovingObstacle,
    Floor,
]


SHAPES = [(1, 1), (1, 2), (2, 1), (1, 4), (4, 1), (2, 2), (2, 3), (3, 2), (3, 5), (5, 3)]

RNG = make_rng(7)
reset_gv_rng(11)

CALLERS = {}
BUILT = {}  # functions built once through the factories, then reused


def caller(name):
    def decorator(f):
        CALLERS[name] = f
        return f

    return decorator


@caller('direct-default')
def _call_default(state, action, object_type, rng):
    assert object_type is None
    return pickndrop(state, action)


@caller('direct-rng')
def _call_rng(state, action, object_type, rng):
    if object_type is None:
        return pickndrop(state, action, rng=rng)
    return pickndrop(state, action, object_type=object_type, rng=rng)


@caller('explicit-none')
def _call_explicit_none(state, action, object_type, rng):
    assert object_type is None and HAS_OBJECT_TYPE
    return pickndrop(state, action, object_type=None, rng=rng)


@caller('factory')
def _call_factory(state, action, object_type, rng):
    key = ('factory', object_type)
    if key not in BUILT:
        kwargs = {} if object_type is None else {'object_type': object_type}
        BUILT[key] = transition_factory('pickndrop', **kwargs)
    return BUILT[key](state, action, rng=rng)


@caller('yaml-dict')
def _call_yaml(state, action, object_type, rng):
    if object_type is GridObject:  # the base class has no registered name
        return _call_factory(state, action, object_type, rng)
    key = ('yaml', object_type)
    if key not in BUILT:
        data = {'name': 'pickndrop'}
        if object_type is not None:
            data['object_type'] = object_type.__name__
        BUILT[key] = factory_transition_function(data)
    return BUILT[key](state, action, rng=rng)


def check_case(shape, y, x, o, front_obj, held_obj, action, object_type, how):
    height, width = shape
    cells = [[Wall() for _ in range(width)] for _ in range(height)]
    # everything but the cell in front is a Wall: a wrong direction is
    # visible through identities
    dy, dx = DELTAS[o]
    fy, fx = y + dy, x + dx
    in_grid = 0 <= fy < height and 0 <= fx < width
    if in_grid:
        cells[fy][fx] = front_obj
    # cells "reached" by python's negative indices must stay untouched too:
    # they hold pickable keys / floor, which a wrong implementation would take
    if not in_grid:
        cells[fy % height][fx % width] = Key(Color.GREEN)
    before = [row[:] for row in cells]

    agent = Agent(Position(y, x), ORIENTATIONS[o], held_obj)
    hand_before = agent.grid_object
    if held_obj is None:
        assert type(hand_before) is NoneGridObject
    else:
        assert hand_before is held_obj
    transform_before = agent.transform
    position_before = agent.position
    grid = Grid(cells)
    state = State(grid, agent)

    kind, front = ref_pickndrop(
        before, height, width, y, x, o, held_obj, action, object_type
    )

    rng = RNG
    untouched = rng_state(rng)
    module_untouched = rng_state(get_gv_rng())

    result = CALLERS[how](state, action, object_type, rng)

    assert result is None
    assert rng_state(rng) == untouched, 'pickndrop drew a random number'
    assert rng_state(get_gv_rng()) == module_untouched

    # containers and pose are untouched
    assert state.grid is grid and grid.objects is cells
    assert len(cells) == height and all(len(row) == width for row in cells)
    assert state.agent is agent and agent.transform is transform_before
    assert agent.position is position_before
    assert agent.orientation is ORIENTATIONS[o]

    hand = agent.grid_object
    for cy, cx in itt.product(range(height), range(width)):
        if front is None or (cy, cx) != front:
            assert cells[cy][cx] is before[cy][cx], (kind, cy, cx)

    if kind == 'none':
        assert hand is hand_before
    else:
        assert front == (fy, fx)
        new_front = cells[fy][fx]
        if kind == 'pick':
            assert hand is front_obj
            assert type(new_front) is Floor and new_front is not front_obj
        elif kind == 'swap':
            assert hand is front_obj
            assert new_front is held_obj
        elif kind == 'drop':
            assert type(hand) is NoneGridObject and hand is not hand_before
            assert new_front is held_obj
        elif kind == 'refloor':
            # floor in front, empty hand: floor stays floor, hand stays empty
            assert type(hand) is NoneGridObject
            assert type(new_front) is Floor
        else:
            raise AssertionError(kind)

    # conservation: non-floor objects on the grid plus the held one
    def census(rows, in_hand):
        things = [o_ for row in rows for o_ in row if type(o_) is not Floor]
        if in_hand is not None and type(in_hand) not in (NoneGridObject, Floor):
            things.append(in_hand)
        return sorted(id(o_) for o_ in things)

    assert census(before, held_obj) == census(cells, hand), kind
    return kind


def test_exhaustive(object_types, hows, shapes):
    counts = {}
    n = 0
    for shape in shapes:
        height, width = shape
        for y, x, o in itt.product(range(height), range(width), range(4)):
            for i_front, i_held in itt.product(
                range(len(FRONTS)), range(len(HELDS))
            ):
                for object_type in object_types:
                    for action in Action:
                        if (
                            action is not Action.PICK_N_DROP
                            and (i_front + i_held + y + x + o) % 5
                        ):
                            continue  # thin out the trivially inert actions
                        how = hows[n % len(hows)]
                        kind = check_case(
                            shape,
                            y,
                            x,
                            o,
                            FRONTS[i_front](),
                            HELDS[i_held](),
                            action,
                            object_type,
                            how,
                        )
                        counts[kind] = counts.get(kind, 0) + 1
                        n += 1
    return n, counts


# ------------------------------------------------------ transition_with_copy


def test_with_copy():
    for front_obj, held_obj in itt.product(
        [Floor(), Key(Color.RED), Wall(), Gem()], [None, Key(Color.BLUE)]
    ):
        cells = [[Wall(), front_obj, Wall()], [Wall(), Floor(), Wall()]]
        before = [row[:] for row in cells]
        agent = Agent(Position(1, 1), Orientation.F, held_obj)
        hand_before = agent.grid_object
        state = State(Grid(cells), agent)
        next_state = transition_with_copy(pickndrop, state, Action.PICK_N_DROP)
        assert all(a is b for r, s in zip(cells, before) for a, b in zip(r, s))
        assert agent.grid_object is hand_before
        kind, _ = ref_pickndrop(
            before, 2, 3, 1, 1, 0, held_obj, Action.PICK_N_DROP, None
        )
        got_front, got_hand = next_state.grid[0, 1], next_state.agent.grid_object
        expected_front, expected_hand = {
            'none': (front_obj, hand_before),
            'pick': (Floor(), front_obj),
            'swap': (held_obj, front_obj),
            'drop': (held_obj, NoneGridObject()),
            'refloor': (Floor(), NoneGridObject()),
        }[kind]
        assert type(got_front) is type(expected_front)
        assert got_front == expected_front
        assert type(got_hand) is type(expected_hand)
        assert got_hand == expected_hand
    print('transition_with_copy: ok')


# ------------------------------------------------ key-door environment runs

MOVES = {
    Action.MOVE_FORWARD: 0,
    Action.MOVE_RIGHT: 1,
    Action.MOVE_BACKWARD: 2,
    Action.MOVE_LEFT: 3,
}
TURNS = {Action.TURN_RIGHT: 1, Action.TURN_LEFT: 3}


def sig(obj):
    if obj is None or isinstance(obj, NoneGridObject):
        return None
    return (type(obj).__name__, obj.state_index, obj.color.name)


class RefWorld:
    """value-level model of chain(move_agent, turn_agent, actuate_door, pickndrop)"""

    def __init__(self, state):
        self.height, self.width = state.grid.shape.as_tuple
        self.cells = [
            [self.model(state.grid[y, x]) for x in range(self.width)]
            for y in range(self.height)
        ]
        self.y, self.x = state.agent.position.yx
        self.o = ORIENTATIONS.index(state.agent.orientation)
        self.held = self.model(state.agent.grid_object)

    @staticmethod
    def model(obj):
        if isinstance(obj, NoneGridObject):
            return None
        return {
            'type': type(obj).__name__,
            'state': obj.state_index,
            'color': obj.color.name,
            'holdable': obj.holdable,
        }

    @staticmethod
    def blocks(m):
        if m['type'] == 'Wall':
            return True
        if m['type'] == 'Door':
            return m['state'] != Door.Status.OPEN.value
        return False

    def front(self):
        dy, dx = DELTAS[self.o]
        fy, fx = self.y + dy, self.x + dx
        if 0 <= fy < self.height and 0 <= fx < self.width:
            return fy, fx
        return None

    def step(self, action):
        if action in MOVES:
            dy, dx = DELTAS[(self.o + MOVES[action]) % 4]
            ny, nx = self.y + dy, self.x + dx
            if 0 <= ny < self.height and 0 <= nx < self.width:
                if not self.blocks(self.cells[ny][nx]):
                    self.y, self.x = ny, nx
        if action in TURNS:
            self.o = (self.o + TURNS[action]) % 4
        if action is Action.ACTUATE and self.front() is not None:
            fy, fx = self.front()
            m = self.cells[fy][fx]
            if m['type'] == 'Door':
                if m['state'] == Door.Status.CLOSED.value:
                    m['state'] = Door.Status.OPEN.value
                elif m['state'] == Door.Status.LOCKED.value:
                    if (
                        self.held is not None
                        and self.held['type'] == 'Key'
                        and self.held['color'] == m['color']
                    ):
                        m['state'] = Door.Status.OPEN.value
        if action is Action.PICK_N_DROP and self.front() is not None:
            fy, fx = self.front()
            m = self.cells[fy][fx]
            floor = {
                'type': 'Floor',
                'state': 0,
                'color': 'NONE',
                'holdable': False,
            }
            if m['holdable']:
                self.cells[fy][fx] = floor if self.held is None else self.held
                self.held = m
            elif m['type'] == 'Floor' and self.held is not None:
                self.cells[fy][fx] = self.held
                self.held = None

    def signature(self):
        return (
            [
                [(m['type'], m['state'], m['color']) for m in row]
                for row in self.cells
            ],
            (self.y, self.x),
            self.o,
            None
            if self.held is None
            else (self.held['type'], self.held['state'], self.held['color']),
        )


def state_signature(state):
    return (
        [[sig(o) for o in row] for row in state.grid.objects],
        state.agent.position.yx,
        ORIENTATIONS.index(state.agent.orientation),
        sig(state.agent.grid_object),
    )


def census_of(signature):
    """multiset of non-floor things, ignoring the internal state of doors"""
    cells, _, _, held = signature
    things = [
        (s[0], s[2]) for row in cells for s in row if s[0] != 'Floor'
    ]
    if held is not None:
        things.append((held[0], held[2]))
    return sorted(things)


def keydoor_data(shape, pickndrop_kwargs):
    objects = ['Wall', 'Floor', 'Exit', 'Door', 'Key']
    colors = ['NONE', 'YELLOW']
    return {
        'state_space': {'objects': objects, 'colors': colors},
        'observation_space': {'objects': objects, 'colors': colors},
        'reset_function': {'name': 'keydoor', 'shape': list(shape)},
        'transition_functions': [
            {'name': 'move_agent'},
            {'name': 'turn_agent'},
            {'name': 'actuate_door'},
            dict({'name': 'pickndrop'}, **pickndrop_kwargs),
        ],
        'reward_functions': [
            {'name': 'reach_exit', 'reward_on': 5.0, 'reward_off': 0.0},
            {
                'name': 'pickndrop',
                'object_type': 'Key',
                'reward_pick': 1.0,
                'reward_drop': -1.0,
            },
            {
                'name': 'actuate_door',
                'reward_open': 1.0,
                'reward_close': -1.0,
            },
            {
                'name': 'getting_closer',
                'distance_function': 'manhattan',
                'object_type': 'Exit',
                'reward_closer': 0.2,
                'reward_further': -0.2,
            },
            {'name': 'living_reward', 'reward': -0.05},
        ],
        'observation_function': {
            'name': 'partially_occluded',
            'area': [[-6, 0], [-3, 3]],
        },
        'terminating_function': {'name': 'reach_exit'},
    }


def test_histories():
    n_steps = n_picks = 0
    kwargs_list = [{}]
    if HAS_OBJECT_TYPE:
        # keys are the only holdable objects of the key-door worlds
        kwargs_list.append({'object_type': 'Key'})
    # shipped: 5x5, 7x7, 9x9;  plus non-square and minimal ones
    for shape in [(5, 5), (7, 7), (9, 9), (4, 5), (4, 6), (5, 9), (8, 6)]:
        for kwargs in kwargs_list:
            # two environments alive at the same time
            envs = [
                factory_env_from_data(keydoor_data(shape, kwargs))
                for _ in range(2)
            ]
            for seed in range(8):
                gen = np.random.default_rng(31 * seed + shape[0])
                worlds = []
                for k, env in enumerate(envs):
                    env.set_seed(seed + 1000 * k)
                    env.reset()
                    worlds.append(RefWorld(env.state))
                    assert worlds[-1].signature() == state_signature(env.state)
                actions = envs[0].action_space.actions
                assert set(actions) == set(Action)
                for t in range(120):
                    for env, world in zip(envs, worlds):
                        # bias towards the interesting actions
                        if gen.random() < 0.35:
                            action = Action.PICK_N_DROP
                        else:
                            action = actions[gen.integers(len(actions))]
                        previous = env.state
                        previous_signature = state_signature(previous)
                        env.step(action)
                        world.step(action)
                        signature = state_signature(env.state)
                        assert state_signature(previous) == previous_signature
                        assert signature == world.signature(), (shape, seed, t)
                        assert census_of(signature) == census_of(
                            previous_signature
                        )
                        if signature[3] != previous_signature[3]:
                            n_picks += 1
                        n_steps += 1
    assert n_picks > 100
    print(f'histories: {n_steps} steps, {n_picks} changes of the held item: ok')


if __name__ == '__main__':
    hows = ['direct-default', 'direct-rng', 'factory', 'yaml-dict']
    if HAS_OBJECT_TYPE:
        hows.append('explicit-none')
    n, counts = test_exhaustive([None], hows, SHAPES)
    assert set(counts) == {'none', 'pick', 'drop', 'swap', 'refloor'}
    print(f'default behaviour: {n} cases {counts}: ok')

    if HAS_OBJECT_TYPE:
        n, counts = test_exhaustive(
            [Key, GoldKey, Gem, GridObject, Wall, Floor, Statue],
            ['direct-rng', 'factory', 'yaml-dict'],
            [(1, 1), (1, 3), (3, 1), (2, 2), (3, 4), (4, 3)],
        )
        assert set(counts) == {'none', 'pick', 'drop', 'swap', 'refloor'}
        print(f'object_type given: {n} cases {counts}: ok')
    else:
        # unknown keywords are dropped by the factory: behaviour is the default
        print('object_type keyword not available in this tree: skipped')

    test_with_copy()
    test_histories()
    print('OK')
