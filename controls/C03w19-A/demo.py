"""Demo for change A (State.copy used by transition_with_copy).

Checks property C03 (purity, alias-freedom, history independence of the
functional interface) on hand-made awkward states and on states produced by
the shipped reset functions, for every action, against a reference
implementation embedded here (copy.deepcopy + in-place transition function).

Runs (and exits 0) both on the pristine tree and with the patch applied.
"""
import copy
import itertools
import os
import sys
import warnings

warnings.filterwarnings('ignore')
sys.path.insert(0, os.getcwd())

from gym_gridverse.action import Action  # noqa: E402
from gym_gridverse.agent import Agent  # noqa: E402
from gym_gridverse.envs import observation_functions as obs_fs  # noqa: E402
from gym_gridverse.envs import reset_functions as reset_fs  # noqa: E402
from gym_gridverse.envs import reward_functions as reward_fs  # noqa: E402
from gym_gridverse.envs import terminating_functions as term_fs  # noqa: E402
from gym_gridverse.envs import transition_functions as trans_fs  # noqa: E402
from gym_gridverse.envs.gridworld import GridWorld  # noqa: E402
from gym_gridverse.geometry import (  # noqa: E402
    Area,
    Orientation,
    Position,
    Shape,
    Transform,
)
from gym_gridverse.grid import Grid  # noqa: E402
from gym_gridverse.grid_object import (  # noqa: E402
    Beacon,
    Box,
    Color,
    Door,
    Exit,
    Floor,
    GridObject,
    Key,
    MovingObstacle,
    NoneGridObject,
    Telepod,
    Wall,
)
from gym_gridverse.rng import make_rng, reset_gv_rng  # noqa: E402
from gym_gridverse.spaces import (  # noqa: E402
    ActionSpace,
    ObservationSpace,
    StateSpace,
)
from gym_gridverse.state import State  # noqa: E402
from gym_gridverse.utils.fast_copy import fast_copy  # noqa: E402

N_CHECKS = 0


def check(condition, message):
    global N_CHECKS
    N_CHECKS += 1
    if not condition:
        print(f'FAIL (line {sys._getframe(1).f_lineno}):', message)
        sys.exit(1)


# --------------------------------------------------------------------------
# helpers
# --------------------------------------------------------------------------

ALL_TYPES = [
    Floor,
    Wall,
    Exit,
    Door,
    Key,
    MovingObstacle,
    Box,
    Telepod,
    Beacon,
]


def mutable_ids(state):
    """ids of every mutable component reachable from a state"""
    ids = {}

    def add(x, what):
        ids[id(x)] = what

    def add_object(obj, what):
        add(obj, what)
        if isinstance(obj, Box):
            add_object(obj.content, what + '.content')

    add(state.grid, 'grid')
    add(state.grid.objects, 'grid.objects')
    for y, row in enumerate(state.grid.objects):
        add(row, f'grid.objects[{y}]')
        for x, obj in enumerate(row):
            add_object(obj, f'grid[{y},{x}]')
    add(state.agent, 'agent')
    add(state.agent.transform, 'agent.transform')
    add_object(state.agent.grid_object, 'agent.grid_object')
    return ids


def snapshot(state):
    """a structural, identity-free description of a state"""

    def describe(obj):
        description = (type(obj).__name__, obj.state_index, obj.color.name)
        if isinstance(obj, Box):
            description += (describe(obj.content),)
        return description

    return (
        state.grid.shape.height,
        state.grid.shape.width,
        tuple(
            tuple(describe(obj) for obj in row) for row in state.grid.objects
        ),
        state.agent.position.yx,
        state.agent.orientation.name,
        describe(state.agent.grid_object),
    )


def scramble(state):
    """mutates every mutable layer of a state in place"""
    for y in range(state.grid.shape.height):
        for x in range(state.grid.shape.width):
            obj = state.grid[y, x]
            if isinstance(obj, Door):
                obj.state = (
                    Door.Status.OPEN
                    if obj.state is not Door.Status.OPEN
                    else Door.Status.LOCKED
                )
            elif isinstance(obj, Box):
                inner = obj
                while isinstance(inner.content, Box):
                    inner = inner.content
                inner.content = Beacon(Color.YELLOW)
            else:
                state.grid[y, x] = Beacon(Color.YELLOW)
    state.grid.objects[0][0] = Key(Color.YELLOW)
    state.agent.position = Position(0, 0)
    state.agent.orientation = state.agent.orientation * Orientation.B
    held = state.agent.grid_object
    if isinstance(held, Box):
        held.content = Beacon(Color.YELLOW)
    state.agent.grid_object = Beacon(Color.YELLOW)


def check_copy(state, what):
    """a copied state equals and hashes like the original, shares nothing"""
    expected = snapshot(state)
    copies = [fast_copy(state), copy.deepcopy(state)]
    if hasattr(state, 'copy'):
        copies.append(state.copy())
        copies.append(state.copy().copy())
    for other in copies:
        check(type(other) is State, f'{what}: copy is not a State')
        check(other == state and state == other, f'{what}: copy differs')
        check(hash(other) == hash(state), f'{what}: copy hashes differently')
        check(snapshot(other) == expected, f'{what}: copy snapshot differs')
        check(repr(other) == repr(state), f'{what}: copy repr differs')
        shared = mutable_ids(other).keys() & mutable_ids(state).keys()
        check(not shared, f'{what}: copy shares components')
        scramble(other)
        check(snapshot(state) == expected, f'{what}: copy is aliased')
        check(other != state, f'{what}: scramble did nothing')


# --------------------------------------------------------------------------
# environments built through the python API
# --------------------------------------------------------------------------

ALL_TRANSITIONS = [
    trans_fs.move_obstacles,  # the only stochastic one goes first
    trans_fs.move_agent,
    trans_fs.turn_agent,
    trans_fs.actuate_door,
    trans_fs.actuate_box,
    trans_fs.pickndrop,
    trans_fs.teleport,
]
DETERMINISTIC_TRANSITIONS = ALL_TRANSITIONS[1:]


def make_transition(functions):
    def transition(state, action, *, rng=None):
        trans_fs.chain(state, action, transition_functions=functions, rng=rng)

    return transition


def make_reward():
    functions = [
        lambda s, a, ns, *, rng=None: reward_fs.living_reward(
            s, a, ns, reward=-0.05, rng=rng
        ),
        lambda s, a, ns, *, rng=None: reward_fs.reach_exit(
            s, a, ns, reward_on=5.0, reward_off=0.0, rng=rng
        ),
        lambda s, a, ns, *, rng=None: reward_fs.bump_moving_obstacle(
            s, a, ns, reward=-1.0, rng=rng
        ),
        lambda s, a, ns, *, rng=None: reward_fs.bump_into_wall(
            s, a, ns, reward=-0.5, rng=rng
        ),
        lambda s, a, ns, *, rng=None: reward_fs.actuate_door(
            s, a, ns, reward_open=0.25, reward_close=-0.25, rng=rng
        ),
        lambda s, a, ns, *, rng=None: reward_fs.pickndrop(
            s,
            a,
            ns,
            object_type=Key,
            reward_pick=0.125,
            reward_drop=-0.125,
            rng=rng,
        ),
    ]

    def reward(state, action, next_state, *, rng=None):
        return reward_fs.reduce_sum(
            state, action, next_state, reward_functions=functions, rng=rng
        )

    return reward


def make_termination():
    functions = [
        term_fs.reach_exit,
        term_fs.bump_moving_obstacle,
        term_fs.bump_into_wall,
    ]

    def termination(state, action, next_state, *, rng=None):
        return term_fs.reduce_any(
            state, action, next_state, terminating_functions=functions, rng=rng
        )

    return termination


def make_observation(name, area):
    function = getattr(obs_fs, name)

    def observation(state, *, rng=None):
        return function(state, area=area, rng=rng)

    return observation


AREAS = [
    Area((-6, 0), (-3, 3)),  # the usual 7x7
    Area((-2, 1), (-1, 3)),  # asymmetric, includes cells behind the agent
    Area((0, 0), (0, 0)),  # extreme but legal: the agent cell only
]


def make_env(shape, reset, functions, observation_name, area):
    colors = list(Color)
    if observation_name == 'partially_occluded' and area.ymax != 0:
        # that one is only implemented for an agent on the bottom row;  still
        # asymmetric left / right
        area = Area((-3, 0), (-1, 3))
    return GridWorld(
        StateSpace(shape, ALL_TYPES, colors),
        ActionSpace(list(Action)),
        ObservationSpace(Shape(area.height, area.width), ALL_TYPES, colors),
        reset,
        make_transition(functions),
        make_observation(observation_name, area),
        make_reward(),
        make_termination(),
    )


# --------------------------------------------------------------------------
# hand-made awkward states
# --------------------------------------------------------------------------


def awkward_grid():
    """a non-square 4x6 grid with one of everything, no boundary walls"""
    grid = Grid.from_shape((4, 6))
    grid[0, 1] = Door(Door.Status.OPEN, Color.RED)
    grid[0, 3] = Door(Door.Status.CLOSED, Color.GREEN)
    grid[0, 4] = Door(Door.Status.LOCKED, Color.BLUE)
    grid[1, 1] = Key(Color.BLUE)
    grid[1, 3] = Box(Box(Key(Color.GREEN)))
    grid[1, 5] = Box(Floor())
    grid[2, 0] = Wall()
    grid[2, 2] = MovingObstacle()
    grid[2, 4] = Telepod(Color.YELLOW)
    grid[3, 1] = Telepod(Color.YELLOW)
    grid[3, 3] = Exit()
    grid[3, 4] = Exit(Color.NONE)
    grid[2, 5] = Beacon(Color.NONE)
    grid[3, 5] = MovingObstacle()
    return grid


def awkward_states():
    held_items = [
        None,
        Key(Color.BLUE),
        Key(Color.NONE),
        Box(Box(Key(Color.RED))),
    ]
    positions = [
        Position(0, 0),  # corners
        Position(0, 5),
        Position(3, 0),
        Position(1, 0),  # border
        Position(0, 2),
        Position(1, 2),  # next to keys, boxes and doors
        Position(1, 4),
        Position(2, 3),
        Position(2, 1),
    ]
    for position, orientation, held in itertools.product(
        positions, Orientation, held_items
    ):
        yield State(
            awkward_grid(),
            Agent(position, orientation, copy.deepcopy(held)),
        )


# --------------------------------------------------------------------------
# the property
# --------------------------------------------------------------------------


def reference_step(functions, state, action, seed):
    """reference: deepcopy + in place transition, nothing else"""
    next_state = copy.deepcopy(state)
    rng = make_rng(seed)
    for function in functions:
        function(next_state, action, rng=rng)
    return next_state


def check_step(env, other_env, functions, state, action, what):
    before = snapshot(state)
    before_hash = hash(state)
    before_ids = mutable_ids(state)
    pristine = copy.deepcopy(state)

    env.set_seed(11)
    next_state, reward, done = env.functional_step(state, action)

    # purity
    check(snapshot(state) == before, f'{what}: step modified its input')
    check(state == pristine, f'{what}: step modified its input (eq)')
    check(hash(state) == before_hash, f'{what}: input hash changed')
    check(
        mutable_ids(state) == before_ids,
        f'{what}: step replaced components of its input',
    )

    # the result is what the reference implementation says
    expected = reference_step(functions, pristine, action, 11)
    check(type(next_state) is State, f'{what}: next state is not a State')
    check(next_state == expected, f'{what}: next state differs from reference')
    check(
        snapshot(next_state) == snapshot(expected),
        f'{what}: next state snapshot differs from reference',
    )
    check(hash(next_state) == hash(expected), f'{what}: next hash differs')
    check(type(reward) is float, f'{what}: reward type')
    check(type(done) is bool, f'{what}: done type')

    # alias freedom
    shared = mutable_ids(next_state).keys() & before_ids.keys()
    check(
        not shared,
        f'{what}: next state shares '
        f'{[before_ids[i] for i in shared]} with its input',
    )

    # history independence: other calls, on this and another env, in between
    other_env.set_seed(3)
    other_state = other_env.functional_reset()
    other_env.functional_step(other_state, Action.MOVE_FORWARD)
    other_env.functional_observation(other_state)
    env.set_seed(99)
    env.functional_step(next_state, Action.ACTUATE)
    env.functional_step(state, Action.PICK_N_DROP)
    env.functional_observation(state)
    reset_gv_rng(1234)

    env.set_seed(11)
    again_state, again_reward, again_done = env.functional_step(state, action)
    check(again_state == next_state, f'{what}: step depends on history')
    check(hash(again_state) == hash(next_state), f'{what}: hash vs history')
    check(again_reward == reward, f'{what}: reward depends on history')
    check(again_done == done, f'{what}: done depends on history')
    check(again_state is not next_state, f'{what}: next state is cached')
    check(
        not (mutable_ids(again_state).keys() & mutable_ids(next_state).keys()),
        f'{what}: two results share components',
    )

    # changing either afterwards cannot affect the other
    after = snapshot(next_state)
    scramble(again_state)
    check(snapshot(next_state) == after, f'{what}: results are aliased')
    check(snapshot(state) == before, f'{what}: result aliased to input')
    victim = copy.deepcopy(state)
    env.set_seed(11)
    victim_next, _, _ = env.functional_step(victim, action)
    scramble(victim)
    check(snapshot(victim_next) == after, f'{what}: input aliased to result')
    scramble(victim_next)
    check(snapshot(state) == before, f'{what}: state changed at a distance')

    return next_state, reward, done


def check_observation(env, state, what):
    before = snapshot(state)
    before_ids = mutable_ids(state)
    env.set_seed(5)
    first = env.functional_observation(state)
    check(snapshot(state) == before, f'{what}: observation modified state')
    check(mutable_ids(state) == before_ids, f'{what}: observation rewired')
    env.set_seed(77)
    env.functional_observation(state)
    env.functional_step(state, Action.TURN_LEFT)
    env.set_seed(5)
    second = env.functional_observation(state)
    check(first == second, f'{what}: observation depends on history')
    check(hash(first) == hash(second), f'{what}: observation hash')
    check(snapshot(state) == before, f'{what}: observation modified state')
    other = fast_copy(first)
    check(other == first and hash(other) == hash(first), f'{what}: obs copy')
    env.set_seed(5)
    third = env.functional_observation(fast_copy(state))
    check(first == third, f'{what}: observation of a copy differs')


def main():
    # 1. hand-made awkward states, deterministic full chain, every action
    shape = Shape(4, 6)
    states = list(awkward_states())

    def awkward_reset(*, rng=None):
        return copy.deepcopy(states[0])

    envs = [
        make_env(
            shape, awkward_reset, DETERMINISTIC_TRANSITIONS, name, area
        )
        for name, area in [
            ('fully_transparent', AREAS[1]),
            ('partially_occluded', AREAS[0]),
        ]
    ]
    other_env = make_env(
        Shape(5, 7),
        lambda *, rng=None: reset_fs.dynamic_obstacles(
            Shape(5, 7), num_obstacles=2, rng=rng
        ),
        ALL_TRANSITIONS,
        'raytracing',
        AREAS[0],
    )

    totals = {'steps': 0, 'changed': 0, 'terminal': 0, 'rewards': set()}
    for i, state in enumerate(states):
        check_copy(copy.deepcopy(state), f'awkward[{i}]')
        env = envs[i % len(envs)]
        for action in Action:
            next_state, reward, done = check_step(
                env,
                other_env,
                DETERMINISTIC_TRANSITIONS,
                state,
                action,
                f'awkward[{i}] {action.name}',
            )
            totals['steps'] += 1
            totals['changed'] += next_state != state
            totals['terminal'] += done
            totals['rewards'].add(reward)
        if i % 4 == 0:
            check_observation(env, state, f'awkward[{i}]')

    check(totals['steps'] == len(states) * 8, 'number of steps')
    check(totals['changed'] > totals['steps'] // 2, 'too few real transitions')
    check(totals['terminal'] > 0, 'no terminal transitions at all')
    check(len(totals['rewards']) >= 5, 'too few distinct rewards')

    # a few hard-coded expectations on the awkward grid
    env = envs[0]
    state = State(awkward_grid(), Agent(Position(1, 2), Orientation.R))
    env.set_seed(0)
    next_state, _, _ = env.functional_step(state, Action.ACTUATE)
    check(repr(next_state.grid[1, 3]) == repr(Box(Key(Color.GREEN))), 'box')
    check(isinstance(state.grid[1, 3].content, Box), 'input box was opened')
    next_state, _, _ = env.functional_step(next_state, Action.ACTUATE)
    check(next_state.grid[1, 3] == Key(Color.GREEN), 'nested box content')
    next_state, reward, _ = env.functional_step(next_state, Action.PICK_N_DROP)
    check(next_state.agent.grid_object == Key(Color.GREEN), 'picked key')
    check(isinstance(next_state.grid[1, 3], Floor), 'floor under picked key')
    check(reward == -0.05 + 0.125, 'pick reward')
    check(isinstance(state.agent.grid_object, NoneGridObject), 'input agent')

    state = State(
        awkward_grid(), Agent(Position(1, 4), Orientation.F, Key(Color.BLUE))
    )
    next_state, reward, done = env.functional_step(state, Action.ACTUATE)
    check(next_state.grid[0, 4].state is Door.Status.OPEN, 'unlocked door')
    check(state.grid[0, 4].state is Door.Status.LOCKED, 'input door unlocked')
    check(reward == -0.05 + 0.25 and not done, 'unlock reward')

    state = State(awkward_grid(), Agent(Position(2, 3), Orientation.B))
    next_state, reward, done = env.functional_step(state, Action.MOVE_FORWARD)
    check(next_state.agent.position == Position(3, 3), 'moved on exit')
    check(done and reward == -0.05 + 5.0, 'exit reward and termination')
    next_state, reward, done = env.functional_step(state, Action.MOVE_LEFT)
    check(next_state.agent.position == Position(3, 1), 'teleported')
    check(state.agent.position == Position(2, 3), 'input agent teleported')

    # 2. shipped reset functions, full chain with the stochastic obstacles,
    #    random walks, re-seeding, several environments in one process
    resets = [
        (Shape(4, 4), lambda s: dict(random_agent=True, random_exit=True),
         reset_fs.empty),
        (Shape(6, 9), lambda s: dict(), reset_fs.keydoor),
        (Shape(7, 5), lambda s: dict(num_obstacles=4),
         reset_fs.dynamic_obstacles),
        (Shape(7, 9), lambda s: dict(), reset_fs.teleport),
        (Shape(5, 7), lambda s: dict(colors={Color.RED, Color.GREEN}),
         reset_fs.memory),
        (Shape(7, 7), lambda s: dict(num_rivers=2, object_type=Wall),
         reset_fs.crossing),
        (Shape(9, 11), lambda s: dict(layout=(2, 2)), reset_fs.rooms),
    ]
    observation_names = [
        'fully_transparent',
        'partially_occluded',
        'raytracing',
        'stochastic_raytracing',
    ]
    shipped = []
    for i, (shape, kwargs_f, function) in enumerate(resets):

        def reset(*, rng=None, shape=shape, kwargs_f=kwargs_f, f=function):
            return f(shape, **kwargs_f(shape), rng=rng)

        shipped.append(
            make_env(
                shape,
                reset,
                ALL_TRANSITIONS,
                observation_names[i % len(observation_names)],
                AREAS[i % len(AREAS)],
            )
        )

    walk_rng = make_rng(2026)
    for i, env in enumerate(shipped):
        other = shipped[(i + 1) % len(shipped)]
        env.set_seed(i)
        state = env.functional_reset()
        env.set_seed(i)
        check(env.functional_reset() == state, f'shipped[{i}]: reset vs seed')
        check_copy(copy.deepcopy(state), f'shipped[{i}]')
        for t in range(24):
            action = list(Action)[walk_rng.integers(len(Action))]
            next_state, _, done = check_step(
                env,
                other,
                ALL_TRANSITIONS,
                state,
                action,
                f'shipped[{i}] t={t} {action.name}',
            )
            if t % 6 == 0:
                check_observation(env, state, f'shipped[{i}] t={t}')
            if done:
                env.set_seed(100 + t)
                next_state = env.functional_reset()
            state = next_state

    # 3. the non-functional interface is built on the functional one
    env = shipped[1]
    env.set_seed(8)
    env.reset()
    first = env.state
    trace = []
    for action in [Action.TURN_LEFT, Action.MOVE_FORWARD, Action.PICK_N_DROP]:
        previous = env.state
        previous_snapshot = snapshot(previous)
        trace.append(env.step(action))
        check(env.state is not previous, 'step kept the state object')
        check(snapshot(previous) == previous_snapshot, 'step mutated state')
        check(
            not (mutable_ids(env.state).keys() & mutable_ids(previous).keys()),
            'step: states share components',
        )
    env.set_seed(8)
    env.reset()
    check(env.state == first, 'reset after re-seeding')
    check(
        trace
        == [
            env.step(action)
            for action in [
                Action.TURN_LEFT,
                Action.MOVE_FORWARD,
                Action.PICK_N_DROP,
            ]
        ],
        'trace after re-seeding',
    )

    # 4. transition_with_copy directly, with a transform check
    state = State(awkward_grid(), Agent(Position(0, 0), Orientation.L))
    transform = state.agent.transform
    next_state = trans_fs.transition_with_copy(
        trans_fs.turn_agent, state, Action.TURN_RIGHT
    )
    check(state.agent.transform is transform, 'transform replaced')
    check(transform == Transform(Position(0, 0), Orientation.L), 'transform')
    check(next_state.agent.orientation is Orientation.F, 'turned')
    check(next_state.agent.transform is not transform, 'transform shared')
    check(next_state.grid == state.grid, 'grid changed by turning')
    check(next_state.grid is not state.grid, 'grid shared')

    print(f'OK ({N_CHECKS} checks)')


if __name__ == '__main__':
    main()
