"""Demo / regression check for refactoring B
(envs/visibility_functions.py + envs/observation_functions.py).

Run as:  cd /tmp/wt5-C07 && /venv/bin/python -W ignore _seed/B/demo.py

The program contains an INDEPENDENT reference model (plain tuples and lists):
  * visibility: flood-fill model of `partially_occluded`, ray model of
    `raytracing` / `stochastic_raytracing` (lit prefix of each ray),
  * observation: egocentric view defined cell by cell.
Everything the library computes through the public API is compared with that
reference (including the random stream consumed by the stochastic function);
nothing here is recorded from the library itself.  It exits 0 on the clean tree
and with refactoring B applied.
"""
import itertools
import math
import os
import random
import sys

sys.path.insert(0, os.getcwd())

import numpy as np  # noqa: E402

from gym_gridverse.agent import Agent  # noqa: E402
from gym_gridverse.envs import observation_functions as obs_fs  # noqa: E402
from gym_gridverse.envs import visibility_functions as vis_fs  # noqa: E402
from gym_gridverse.geometry import Area, Orientation, Position  # noqa: E402
from gym_gridverse.grid import Grid  # noqa: E402
from gym_gridverse.grid_object import (  # noqa: E402
    Beacon,
    Color,
    Door,
    Exit,
    Floor,
    Hidden,
    Key,
    MovingObstacle,
    Telepod,
    Wall,
)
from gym_gridverse.observation import Observation  # noqa: E402
from gym_gridverse.rng import get_gv_rng, reset_gv_rng  # noqa: E402
from gym_gridverse.state import State  # noqa: E402

CHECKS = 0


def check(condition, *info):
    global CHECKS
    CHECKS += 1
    if not condition:
        raise AssertionError(info)


ORIENTATIONS = [Orientation.F, Orientation.R, Orientation.B, Orientation.L]

# --------------------------------------------------------------------------
# cell descriptors <-> library objects
# --------------------------------------------------------------------------

HIDDEN = ('Hidden',)
DESCRIPTORS = (
    [('Floor',)] * 7
    + [('Wall',)] * 4
    + [('Exit',), ('MovingObstacle',)]
    + [('Door', s, c) for s in ('OPEN', 'CLOSED', 'LOCKED') for c in ('RED', 'BLUE')]
    + [('Key', 'GREEN'), ('Key', 'YELLOW'), ('Telepod', 'RED'), ('Beacon', 'BLUE')]
)


def make_object(desc):
    name = desc[0]
    if name == 'Floor':
        return Floor()
    if name == 'Wall':
        return Wall()
    if name == 'Exit':
        return Exit()
    if name == 'MovingObstacle':
        return MovingObstacle()
    if name == 'Hidden':
        return Hidden()
    if name == 'Door':
        return Door(Door.Status[desc[1]], Color[desc[2]])
    if name == 'Key':
        return Key(Color[desc[1]])
    if name == 'Telepod':
        return Telepod(Color[desc[1]])
    if name == 'Beacon':
        return Beacon(Color[desc[1]])
    raise ValueError(desc)


def describe(obj):
    name = type(obj).__name__
    if name == 'Door':
        return ('Door', obj.state.name, obj.color.name)
    if name in ('Key', 'Telepod', 'Beacon'):
        return (name, obj.color.name)
    return (name,)


def describe_grid(grid):
    return [[describe(obj) for obj in row] for row in grid.objects]


def make_grid(cells):
    return Grid([[make_object(desc) for desc in row] for row in cells])


def ref_blocks_vision(desc):
    if desc[0] in ('Wall', 'Hidden'):
        return True
    if desc[0] == 'Door':
        return desc[1] != 'OPEN'
    return False


# --------------------------------------------------------------------------
# reference visibility
# --------------------------------------------------------------------------


def ref_partially_occluded(view, agent):
    h, w = len(view), len(view[0])
    if agent[0] != h - 1:
        raise NotImplementedError
    visible = np.zeros((h, w), dtype=bool)
    for dx in (-1, +1):
        seen = set()
        frontier = [agent]
        while frontier:
            y, x = frontier.pop()
            if not (0 <= y < h and 0 <= x < w) or (y, x) in seen:
                continue
            seen.add((y, x))
            if not ref_blocks_vision(view[y][x]):
                frontier += [(y - 1, x), (y, x + dx), (y - 1, x + dx)]
        for y, x in seen:
            visible[y, x] = True
    return visible


_RAYS = {}


def ref_rays(agent, h, w):
    key = agent, h, w
    if key not in _RAYS:
        if not (0 <= agent[0] < h and 0 <= agent[1] < w):
            raise ValueError('agent outside of the view')
        ys = np.linspace(0, h, num=h + 1) - 0.5 - agent[0]
        xs = np.linspace(0, w, num=w + 1) - 0.5 - agent[1]
        yys, xxs = np.meshgrid(ys, xs)
        angles = np.sort(np.arctan2(yys, xxs), axis=None)
        rays = []
        for angle in angles:
            dy, dx = 0.01 * math.sin(angle), 0.01 * math.cos(angle)
            ray, i = [], 0
            while True:
                y = round(float(agent[0]) + i * dy)
                x = round(float(agent[1]) + i * dx)
                if not (0 <= y < h and 0 <= x < w):
                    break
                if (y, x) not in ray:
                    ray.append((y, x))
                i += 1
            rays.append(ray)
        _RAYS[key] = rays
    return _RAYS[key]


def ref_ray_counts(view, agent):
    """(lit, total) ray counts per cell:  the lit cells of a ray are those up
    to and including its first vision-blocking cell"""
    h, w = len(view), len(view[0])
    lit = np.zeros((h, w), dtype=int)
    total = np.zeros((h, w), dtype=int)
    for ray in ref_rays(agent, h, w):
        blockers = [i for i, (y, x) in enumerate(ray) if ref_blocks_vision(view[y][x])]
        n_lit = blockers[0] + 1 if blockers else len(ray)
        for i, (y, x) in enumerate(ray):
            total[y, x] += 1
            if i < n_lit:
                lit[y, x] += 1
    return lit, total


def ref_raytracing(view, agent, absolute_counts=True, threshold=1):
    lit, total = ref_ray_counts(view, agent)
    if absolute_counts:
        return lit >= threshold
    return lit / total >= threshold


def ref_stochastic_raytracing(view, agent, generator):
    lit, total = ref_ray_counts(view, agent)
    probs = np.nan_to_num(lit / total)
    return generator.random((len(view), len(view[0]))) < probs


def generator_state(generator):
    return repr(generator.bit_generator.state)


def outcome(function, *args, **kwargs):
    try:
        return 'ok', function(*args, **kwargs)
    except (NotImplementedError, ValueError, IndexError) as error:
        return type(error).__name__, None


# --------------------------------------------------------------------------
# part 1: visibility functions called directly (registry and factory)
# --------------------------------------------------------------------------

RAYTRACING_PARAMETERS = [
    {},
    {'absolute_counts': True, 'threshold': 1},
    {'absolute_counts': True, 'threshold': 2},
    {'absolute_counts': True, 'threshold': 7},
    {'absolute_counts': False, 'threshold': 0.25},
    {'absolute_counts': False, 'threshold': 0.5},
    {'absolute_counts': False, 'threshold': 1.0},
    {'threshold': 3},
    {'absolute_counts': False},
]


def same_array(a, b):
    return (
        isinstance(a, np.ndarray)
        and a.dtype == b.dtype
        and a.shape == b.shape
        and bool((a == b).all())
    )


def check_visibility_functions():
    rnd = random.Random(7)
    shapes = [(1, 1), (1, 4), (3, 1), (2, 2), (3, 3), (4, 3), (3, 5), (7, 7)]
    seeds = [0, 1, 12345]

    check(
        set(vis_fs.visibility_function_registry.keys())
        >= {'fully_transparent', 'partially_occluded', 'raytracing', 'stochastic_raytracing'}
    )

    for height, width in shapes:
        n_grids = 3 if height * width > 1 else 1
        for _ in range(n_grids):
            view = [
                [rnd.choice(DESCRIPTORS + [HIDDEN] * 2) for _ in range(width)]
                for _ in range(height)
            ]
            grid = make_grid(view)
            snapshot = describe_grid(grid)
            identities = [[id(o) for o in row] for row in grid.objects]

            positions = [(y, x) for y in range(height) for x in range(width)]
            positions += [(height, 0), (-1, 0), (height - 1, width), (height - 1, -1), (0, -2)]
            if len(positions) > 20:
                positions = rnd.sample(positions[:-5], 15) + positions[-5:]

            for agent in positions:
                position = Position(*agent)

                # fully transparent
                for function in (
                    vis_fs.fully_transparent,
                    vis_fs.visibility_function_registry['fully_transparent'],
                    vis_fs.factory('fully_transparent'),
                ):
                    result = function(grid, position)
                    check(same_array(result, np.ones((height, width), dtype=bool)), 'fully_transparent')

                # partially occluded
                expected = outcome(ref_partially_occluded, view, agent)
                for function in (
                    vis_fs.partially_occluded,
                    vis_fs.factory('partially_occluded'),
                ):
                    for kwargs in ({}, {'rng': None}, {'rng': np.random.default_rng(3)}):
                        status, result = outcome(function, grid, position, **kwargs)
                        check(status == expected[0], 'partially_occluded status', agent, status)
                        if status == 'ok':
                            check(same_array(result, expected[1]), 'partially_occluded', view, agent)

                # raytracing
                for parameters in RAYTRACING_PARAMETERS:
                    expected = outcome(ref_raytracing, view, agent, **parameters)
                    calls = [
                        lambda: vis_fs.raytracing(grid, position, **parameters),
                        lambda: vis_fs.factory('raytracing', **parameters)(grid, position, rng=None),
                    ]
                    for call in calls:
                        status, result = outcome(call)
                        check(status == expected[0], 'raytracing status', agent, status)
                        if status == 'ok':
                            check(same_array(result, expected[1]), 'raytracing', view, agent, parameters)

                # stochastic raytracing, explicit generator
                for seed in seeds:
                    reference_generator = np.random.default_rng(seed)
                    generator = np.random.default_rng(seed)
                    expected = outcome(ref_stochastic_raytracing, view, agent, reference_generator)
                    status, result = outcome(vis_fs.stochastic_raytracing, grid, position, rng=generator)
                    check(status == expected[0], 'stochastic status', agent, status)
                    if status == 'ok':
                        check(same_array(result, expected[1]), 'stochastic', view, agent, seed)
                    # same number of draws consumed (none when it raises)
                    check(generator_state(generator) == generator_state(reference_generator), 'stream', seed)

                # stochastic raytracing, library-level generator; two calls in a row
                reference_generator = np.random.default_rng(99)
                reset_gv_rng(99)
                for _ in range(2):
                    expected = outcome(ref_stochastic_raytracing, view, agent, reference_generator)
                    status, result = outcome(vis_fs.factory('stochastic_raytracing'), grid, position)
                    check(status == expected[0])
                    if status == 'ok':
                        check(same_array(result, expected[1]), 'stochastic gv rng', view, agent)
                check(generator_state(get_gv_rng()) == generator_state(reference_generator), 'gv stream')

            # visibility functions never modify the grid
            check(describe_grid(grid) == snapshot)
            check([[id(o) for o in row] for row in grid.objects] == identities)

    # factory errors
    for call in (
        lambda: vis_fs.factory('no_such_function'),
        lambda: obs_fs.factory('no_such_function'),
        lambda: obs_fs.factory('raytracing'),  # missing `area`
    ):
        try:
            call()
        except ValueError:
            check(True)
        else:
            check(False, 'factory should raise ValueError')


# --------------------------------------------------------------------------
# part 2: observation functions against the cell-by-cell reference, and C07
# --------------------------------------------------------------------------


def ref_rot(k, yx):
    """rotate vector (y, x) by k clockwise quarter turns (y points down)"""
    y, x = yx
    for _ in range(k % 4):
        y, x = x, -y
    return y, x


def ref_view(cells, pose, area):
    """egocentric view, defined cell by cell (no slicing, no matrix rotation)"""
    height, width = len(cells), len(cells[0])
    ay, ax, k = pose
    ymin, ymax, xmin, xmax = area
    view = []
    for oy in range(ymin, ymax + 1):
        row = []
        for ox in range(xmin, xmax + 1):
            ry, rx = ref_rot(k, (oy, ox))
            wy, wx = ay + ry, ax + rx
            inside = 0 <= wy < height and 0 <= wx < width
            row.append(cells[wy][wx] if inside else HIDDEN)
        view.append(row)
    return view


def ref_observation(name, cells, pose, area, generator=None):
    view = ref_view(cells, pose, area)
    agent = (-area[0], -area[2])
    if name == 'fully_transparent':
        visible = np.ones((len(view), len(view[0])), dtype=bool)
    elif name == 'partially_occluded':
        visible = ref_partially_occluded(view, agent)
    elif name == 'raytracing':
        visible = ref_raytracing(view, agent)
    elif name == 'stochastic_raytracing':
        visible = ref_stochastic_raytracing(view, agent, generator)
    else:
        raise ValueError(name)
    masked = [
        [cell if visible[i, j] else HIDDEN for j, cell in enumerate(row)]
        for i, row in enumerate(view)
    ]
    return masked, agent


def ref_rotate_world(cells, pose, k):
    """rotate grid and agent pose together by k clockwise quarter turns"""
    ay, ax, ak = pose
    for _ in range(k % 4):
        height = len(cells)
        cells = [list(row) for row in zip(*cells[::-1])]
        ay, ax = ax, height - 1 - ay  # (y, x) -> (x, height - 1 - y)
        ak = (ak + 1) % 4
    return cells, (ay, ax, ak)


def lib_state(cells, pose, held):
    agent = Agent(
        Position(pose[0], pose[1]),
        ORIENTATIONS[pose[2]],
        None if held is None else make_object(held),
    )
    return State(make_grid(cells), agent)


AREAS = [
    (-6, 0, -3, 3),  # the library's usual 7x7 view
    (-2, 0, -1, 1),
    (0, 0, 0, 0),
    (-1, 1, -1, 1),
    (-3, 0, -1, 2),  # asymmetric
    (-1, 0, -3, 0),
    (-2, 1, 0, 3),
    (-3, -1, -1, 1),  # does not contain the agent (in front of it)
    (-2, 0, 1, 2),  # does not contain the agent (to its right)
    (1, 2, -1, 0),  # behind the agent
]

DETERMINISTIC = ['fully_transparent', 'partially_occluded', 'raytracing']


def compare_observation(observation, state, expected, info):
    view, agent = expected
    check(type(observation) is Observation, info)
    check(describe_grid(observation.grid) == view, 'observation', info, describe_grid(observation.grid), view)
    check(observation.grid == make_grid(view), info)
    check(observation.agent.position.yx == agent, info)
    check(observation.agent.orientation is Orientation.F, info)
    check(observation.agent.grid_object is state.agent.grid_object, info)
    # visible cells are the state's own objects; masked cells are fresh Hidden
    originals = {id(o) for row in state.grid.objects for o in row}
    for row in observation.grid.objects:
        for obj in row:
            check(id(obj) in originals or type(obj) is Hidden, info)


def check_observation_functions():
    rnd = random.Random(20240908)
    shapes = [(1, 1), (1, 3), (2, 2), (3, 2), (3, 4), (5, 5), (4, 7)]
    n_states = 0

    check(
        set(obs_fs.observation_function_registry.keys())
        >= {'from_visibility', 'fully_transparent', 'partially_occluded', 'raytracing', 'stochastic_raytracing'}
    )

    for height, width in shapes:
        for _ in range(4):
            cells = [
                [rnd.choice(DESCRIPTORS) for _ in range(width)]
                for _ in range(height)
            ]
            held = rnd.choice([None, ('Key', 'RED'), None, ('Key', 'BLUE')])
            poses = [
                (y, x, k)
                for y in range(height)
                for x in range(width)
                for k in range(4)
            ]
            if len(poses) > 30:
                poses = rnd.sample(poses, 30)

            for pose in poses:
                n_states += 1
                worlds = [ref_rotate_world(cells, pose, k) for k in range(4)]
                states = [lib_state(c, p, held) for c, p in worlds]
                snapshots = [describe_grid(s.grid) for s in states]

                for area in AREAS:
                    lib_area = Area((area[0], area[1]), (area[2], area[3]))

                    # deterministic built-in observation functions
                    for name in DETERMINISTIC:
                        expected = outcome(ref_observation, name, cells, pose, area)
                        functions = [
                            obs_fs.factory(name, area=lib_area),
                            lambda s, name=name: obs_fs.observation_function_registry[name](s, area=lib_area, rng=None),
                            lambda s, name=name: obs_fs.from_visibility(
                                s,
                                area=lib_area,
                                visibility_function=vis_fs.visibility_function_registry[name],
                            ),
                        ]
                        for function in functions:
                            observations = []
                            for k, state in enumerate(states):
                                status, observation = outcome(function, state)
                                check(status == expected[0], 'status', name, area, pose, k, status)
                                observations.append(observation)
                                if status == 'ok':
                                    compare_observation(observation, state, expected[1], (name, area, pose, k))

                            # C07: the four rotated worlds give EQUAL observations
                            if expected[0] == 'ok':
                                for observation in observations[1:]:
                                    check(observation.grid == observations[0].grid, 'C07 grid', name, area, pose)
                                    check(observation.agent == observations[0].agent, 'C07 agent', name, area, pose)
                                    check(observation == observations[0], 'C07', name, area, pose)

                    # the stochastic one, with equal seeds (same stream => same observation)
                    function = obs_fs.factory('stochastic_raytracing', area=lib_area)
                    seed = rnd.randrange(1000)
                    for k, state in enumerate(states):
                        reference_generator = np.random.default_rng(seed)
                        generator = np.random.default_rng(seed)
                        expected = outcome(ref_observation, 'stochastic_raytracing', cells, pose, area, reference_generator)
                        status, observation = outcome(function, state, rng=generator)
                        check(status == expected[0], 'stochastic status', area, pose, k)
                        if status == 'ok':
                            compare_observation(observation, state, expected[1], ('stochastic', area, pose, k, seed))
                        check(generator_state(generator) == generator_state(reference_generator), 'stream')

                # observing never modifies the state
                for state, snapshot, (_, p) in zip(states, snapshots, worlds):
                    check(describe_grid(state.grid) == snapshot, 'state modified')
                    check(state.agent.position.yx == p[:2] and state.agent.orientation is ORIENTATIONS[p[2]])
    return n_states


# --------------------------------------------------------------------------
# part 3: from_visibility with user-supplied visibility functions
# --------------------------------------------------------------------------


def check_custom_visibility():
    rnd = random.Random(5)
    cells = [[rnd.choice(DESCRIPTORS) for _ in range(5)] for _ in range(4)]

    for pose in [(y, x, k) for y in range(4) for x in range(5) for k in range(4)]:
        for area in AREAS:
            lib_area = Area((area[0], area[1]), (area[2], area[3]))
            h, w = lib_area.height, lib_area.width
            view = ref_view(cells, pose, area)
            state = lib_state(cells, pose, ('Key', 'GREEN'))
            marker = np.random.default_rng(0)

            # a visibility with integer (not boolean) entries, and a call log
            pattern = np.array([[(3 * i + 2 * j + pose[2]) % 3 for j in range(w)] for i in range(h)])
            calls = []

            def visibility_function(grid, position, *, rng=None):
                calls.append((grid, position, rng, describe_grid(grid)))
                return pattern

            observation = obs_fs.from_visibility(
                state, area=lib_area, visibility_function=visibility_function, rng=marker
            )
            check(len(calls) == 1, 'called exactly once')
            grid, position, rng, seen = calls[0]
            check(rng is marker, 'rng is forwarded')
            check(type(position) is Position and position.yx == (-area[0], -area[2]))
            check(seen == view, 'the visibility function sees the unmasked view')
            check(grid is observation.grid, 'the observed grid is the one given to the visibility function')
            expected = [
                [cell if pattern[i, j] else HIDDEN for j, cell in enumerate(row)]
                for i, row in enumerate(view)
            ]
            check(describe_grid(observation.grid) == expected, 'masking', pose, area)
            check(observation.agent.grid_object is state.agent.grid_object)

            # default rng is None
            calls.clear()
            obs_fs.from_visibility(state, area=lib_area, visibility_function=visibility_function)
            check(len(calls) == 1 and calls[0][2] is None)

            # wrong shapes are rejected, with a precise message
            for wrong in [(h + 1, w), (h, w + 1), (w + 1, h + 2), (h * w,), (h, w, 1)]:
                try:
                    obs_fs.from_visibility(
                        state,
                        area=lib_area,
                        visibility_function=lambda g, p, *, rng=None: np.ones(wrong, dtype=bool),
                    )
                except ValueError as error:
                    check(
                        str(error) == f'incorrect visibility shape ({wrong}), should be {(h, w)}',
                        str(error),
                    )
                else:
                    check(False, 'wrong shape should raise', wrong)

            # exceptions of the visibility function propagate unchanged
            class Custom(Exception):
                pass

            def failing(grid, position, *, rng=None):
                raise Custom()

            try:
                obs_fs.from_visibility(state, area=lib_area, visibility_function=failing)
            except Custom:
                check(True)
            else:
                check(False)

            check(describe_grid(state.grid) == cells, 'state modified')


def main():
    check_visibility_functions()
    n_visibility = CHECKS
    n_states = check_observation_functions()
    n_observation = CHECKS - n_visibility
    check_custom_visibility()
    print(
        f'OK: {n_visibility} visibility checks, {n_observation} observation checks over '
        f'{n_states} states x 4 turns x {len(AREAS)} areas, '
        f'{CHECKS - n_visibility - n_observation} custom-visibility checks'
    )


if __name__ == '__main__':
    main()
