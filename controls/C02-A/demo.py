"""Demo / check program for refactoring A (rooms / memory_rooms reset functions).

Run as:  cd /tmp/wt3-C02 && /venv/bin/python -W ignore _seed/A/demo.py

The reference layouts are computed by an independent re-implementation below
(`ref_rooms`, `ref_memory_rooms`) which only uses numpy, never the library.
"""
import hashlib
import itertools
import os
import random
import subprocess
import sys

sys.path.insert(0, os.getcwd())

import numpy as np  # noqa: E402

from gym_gridverse import rng as gv_rng_module  # noqa: E402
from gym_gridverse.action import Action  # noqa: E402
from gym_gridverse.debugging import reset_gv_debug  # noqa: E402
from gym_gridverse.envs import reset_functions  # noqa: E402
from gym_gridverse.envs.yaml.factory import factory_env_from_data  # noqa: E402
from gym_gridverse.geometry import Shape  # noqa: E402
from gym_gridverse.grid_object import Color  # noqa: E402

ORIENTATIONS = ['FORWARD', 'BACKWARD', 'LEFT', 'RIGHT']  # enum definition order
COLOR_VALUES = {'NONE': 0, 'RED': 1, 'GREEN': 2, 'BLUE': 3, 'YELLOW': 4}


# ---------------------------------------------------------------- canonical forms


def canon_cell(obj):
    return (type(obj).__name__, obj.color.name)


def canon_state(state):
    grid = state.grid
    cells = tuple(
        tuple(canon_cell(grid[y, x]) for x in range(grid.shape.width))
        for y in range(grid.shape.height)
    )
    agent = (
        state.agent.position.y,
        state.agent.position.x,
        state.agent.orientation.name,
        canon_cell(state.agent.grid_object),
    )
    return cells, agent


def canon_observation(observation):
    return canon_state(observation)  # same duck type: .grid and .agent


# ------------------------------------------------- independent re-implementation

FLOOR = ('Floor', 'NONE')
WALL = ('Wall', 'NONE')


class RefError(Exception):
    """the reference predicts a ValueError with this message (None = any)"""


def _ref_splits(length, num):
    # integer-truncated evenly spaced wall coordinates
    return [int(v) for v in np.linspace(0, length - 1, num=num + 1, dtype=int)]


def _ref_base(h, w, lh, lw, rng, label_h, label_w, layout):
    ys = _ref_splits(h, lh)
    if len(set(ys)) != len(ys):
        raise RefError(f'insufficient {label_h} ({h}) for layout ({layout})')
    xs = _ref_splits(w, lw)
    if len(set(xs)) != len(xs):
        raise RefError(f'insufficient {label_w} ({w}) for layout ({layout})')

    cells = [
        [WALL if (y in ys or x in xs) else FLOOR for x in range(w)]
        for y in range(h)
    ]
    try:
        for y in ys[1:-1]:
            for x_from, x_to in zip(xs, xs[1:]):
                cells[y][int(rng.integers(x_from + 1, x_to))] = FLOOR
        for y_from, y_to in zip(ys, ys[1:]):
            for x in xs[1:-1]:
                cells[int(rng.integers(y_from + 1, y_to))][x] = FLOOR
    except ValueError as e:  # empty wall segment: numpy refuses low >= high
        raise RefError(None) from e

    floors = [(y, x) for y in range(h) for x in range(w) if cells[y][x] == FLOOR]
    return cells, floors


def ref_rooms(h, w, lh, lw, rng):
    cells, floors = _ref_base(h, w, lh, lw, rng, 'height', 'width', (lh, lw))
    try:
        i_agent, i_exit = (int(i) for i in rng.choice(len(floors), size=2, replace=False))
    except ValueError as e:
        raise RefError(None) from e
    orientation = ORIENTATIONS[int(rng.choice(4))]
    y, x = floors[i_exit]
    cells[y][x] = ('Exit', 'NONE')
    agent = floors[i_agent] + (orientation, ('NoneGridObject', 'NONE'))
    return tuple(tuple(row) for row in cells), agent


def ref_memory_rooms(h, w, lh, lw, color_names, num_beacons, num_exits, rng):
    if 'NONE' in color_names:
        raise RefError(None)
    if len(color_names) < 2 or num_beacons < 1 or num_exits < 2:
        raise RefError(None)
    cells, floors = _ref_base(
        h, w, lh, lw, rng, 'shape.height', 'shape.width', (lh, lw)
    )
    try:
        idx = [
            int(i)
            for i in rng.choice(
                len(floors), size=1 + num_beacons + num_exits, replace=False
            )
        ]
    except ValueError as e:
        raise RefError(None) from e
    orientation = ORIENTATIONS[int(rng.choice(4))]
    ordered = sorted(color_names, key=COLOR_VALUES.__getitem__)
    try:
        sampled = [
            ordered[int(i)]
            for i in rng.choice(len(ordered), size=num_exits, replace=False)
        ]
    except ValueError as e:
        raise RefError(None) from e
    for i in idx[1 : 1 + num_beacons]:
        y, x = floors[i]
        cells[y][x] = ('Beacon', sampled[0])
    for i, color in zip(idx[1 + num_beacons :], sampled):
        y, x = floors[i]
        cells[y][x] = ('Exit', color)
    agent = floors[idx[0]] + (orientation, ('NoneGridObject', 'NONE'))
    return tuple(tuple(row) for row in cells), agent


# ------------------------------------------------------------- global rng guards


def global_snapshot():
    lib = gv_rng_module.get_gv_rng()
    return (
        id(lib),
        repr(lib.bit_generator.state),
        repr(np.random.get_state()),
        random.getstate(),
    )


def rng_state(rng):
    return repr(rng.bit_generator.state)


# ------------------------------------------------------------------- the checks


def compare(lib_call, ref_call, seed, what):
    """runs library and reference with equally-seeded private generators"""
    rng_lib = np.random.default_rng(seed)
    rng_ref = np.random.default_rng(seed)
    try:
        expected = ref_call(rng_ref)
    except RefError as e:
        try:
            lib_call(rng_lib)
        except ValueError as error:
            if e.args[0] is not None:
                assert str(error) == e.args[0], (what, str(error), e.args[0])
            return 'error'
        raise AssertionError(f'{what}: expected ValueError')
    state = lib_call(rng_lib)
    assert canon_state(state) == expected, f'{what}: layout differs'
    # same number (and kind) of draws from the private generator
    assert rng_state(rng_lib) == rng_state(rng_ref), f'{what}: draw count'
    return 'ok'


def check_rooms():
    n_ok = n_err = 0
    shapes = [(h, w) for h in range(3, 15) for w in range(3, 15) if (h + w) % 3 != 1]
    shapes += [(7, 7), (9, 9), (10, 10), (13, 13), (4, 19), (19, 4)]
    layouts = [(1, 1), (1, 2), (2, 1), (2, 2), (2, 3), (3, 2), (3, 3), (4, 4), (5, 2), (1, 6)]
    for (h, w), (lh, lw) in itertools.product(shapes, layouts):
        for seed in (0, 1, 2, 17, 2**31 - 1):
            result = compare(
                lambda r: reset_functions.rooms(Shape(h, w), (lh, lw), rng=r),
                lambda r: ref_rooms(h, w, lh, lw, r),
                seed,
                f'rooms {h}x{w} layout {lh}x{lw} seed {seed}',
            )
            n_ok += result == 'ok'
            n_err += result == 'error'
    assert n_ok > 2000 and n_err > 500, (n_ok, n_err)
    return n_ok, n_err


def check_memory_rooms():
    n_ok = n_err = 0
    shapes = [(7, 7), (9, 9), (10, 10), (13, 13), (5, 11), (12, 6), (4, 4), (3, 9), (8, 15)]
    layouts = [(1, 1), (2, 2), (3, 3), (2, 3), (3, 1), (1, 4), (5, 5)]
    color_sets = [
        ['RED', 'GREEN'],
        ['YELLOW', 'RED', 'BLUE'],
        ['BLUE', 'GREEN', 'YELLOW', 'RED'],
        ['GREEN'],
        ['NONE', 'RED', 'BLUE'],
    ]
    counts = [(1, 2), (2, 2), (1, 3), (3, 4), (0, 2), (2, 1), (6, 2), (1, 5)]
    for (h, w), (lh, lw), names, (nb, ne) in itertools.product(
        shapes, layouts, color_sets, counts
    ):
        for seed in (0, 3, 11):
            # the set is rebuilt in a seed-dependent insertion order on purpose
            order = list(names)
            random.Random(seed).shuffle(order)
            colors = {Color[name] for name in order}
            result = compare(
                lambda r: reset_functions.memory_rooms(
                    Shape(h, w), (lh, lw), colors, nb, ne, rng=r
                ),
                lambda r: ref_memory_rooms(h, w, lh, lw, names, nb, ne, r),
                seed,
                f'memory_rooms {h}x{w} {lh}x{lw} {names} {nb} {ne} seed {seed}',
            )
            n_ok += result == 'ok'
            n_err += result == 'error'
    assert n_ok > 1000 and n_err > 1000, (n_ok, n_err)
    return n_ok, n_err


def check_factory_and_registry():
    # public names are intact
    for name in ('rooms', 'memory_rooms'):
        assert name in reset_functions.reset_function_registry
        assert reset_functions.reset_function_registry[name] is getattr(
            reset_functions, name
        )
    f = reset_functions.factory('rooms', shape=Shape(9, 9), layout=(2, 2))
    a = f(rng=np.random.default_rng(5))
    b = reset_functions.rooms(Shape(9, 9), (2, 2), rng=np.random.default_rng(5))
    assert canon_state(a) == canon_state(b)
    f = reset_functions.factory(
        'memory_rooms',
        shape=Shape(9, 9),
        layout=(2, 2),
        colors={Color.RED, Color.GREEN, Color.BLUE},
        num_beacons=2,
        num_exits=3,
    )
    a = f(rng=np.random.default_rng(5))
    ref = ref_memory_rooms(
        9, 9, 2, 2, ['RED', 'GREEN', 'BLUE'], 2, 3, np.random.default_rng(5)
    )
    assert canon_state(a) == ref


# ---------------------------------------------------------------- environments

COMMON = {
    'action_space': [
        'MOVE_FORWARD',
        'MOVE_BACKWARD',
        'MOVE_LEFT',
        'MOVE_RIGHT',
        'TURN_LEFT',
        'TURN_RIGHT',
    ],
    'transition_functions': [{'name': 'move_agent'}, {'name': 'turn_agent'}],
    'reward_functions': [
        {'name': 'reach_exit', 'reward_on': 5.0, 'reward_off': 0.0},
        {'name': 'living_reward', 'reward': -0.05},
    ],
    'terminating_function': {'name': 'reach_exit'},
}


def rooms_config(size, layout, observation='partially_occluded'):
    return dict(
        COMMON,
        state_space={'objects': ['Wall', 'Floor', 'Exit'], 'colors': ['NONE']},
        observation_space={
            'objects': ['Wall', 'Floor', 'Exit'],
            'colors': ['NONE'],
        },
        reset_function={'name': 'rooms', 'shape': [size, size], 'layout': layout},
        observation_function={
            'name': observation,
            'area': [[-6, 0], [-3, 3]],
        },
    )


def memory_rooms_config(size, layout, observation='partially_occluded'):
    colors = ['NONE', 'RED', 'GREEN', 'BLUE', 'YELLOW']
    return dict(
        COMMON,
        state_space={
            'objects': ['Wall', 'Floor', 'Exit', 'Beacon'],
            'colors': colors,
        },
        observation_space={
            'objects': ['Wall', 'Floor', 'Exit', 'Beacon'],
            'colors': colors,
        },
        reset_function={
            'name': 'memory_rooms',
            'shape': [size, size],
            'layout': layout,
            'colors': ['RED', 'GREEN', 'BLUE', 'YELLOW'],
            'num_beacons': 3,
            'num_exits': 3,
        },
        reward_functions=[
            {'name': 'reach_exit', 'reward_on': 5.0, 'reward_off': 0.0},
            {'name': 'living_reward', 'reward': -0.05},
        ],
        observation_function={
            'name': observation,
            'area': [[-6, 0], [-3, 3]],
        },
    )


def configs():
    return {
        'four_rooms_7': rooms_config(7, [2, 2]),
        'four_rooms_9_stochastic': rooms_config(9, [2, 2], 'stochastic_raytracing'),
        'nine_rooms_10': rooms_config(10, [3, 3]),
        'nine_rooms_13_raytracing': rooms_config(13, [3, 3], 'raytracing'),
        'memory_four_rooms_7': memory_rooms_config(7, [2, 2]),
        'memory_four_rooms_9_stochastic': memory_rooms_config(
            9, [2, 2], 'stochastic_raytracing'
        ),
        'memory_nine_rooms_13': memory_rooms_config(13, [3, 3]),
    }


def copy_config(data):
    import copy

    return copy.deepcopy(data)  # the factory pops keys from nested dicts


def actions_for(env, seed, n):
    r = random.Random(seed * 7919 + 1)
    return [r.choice(env.action_space.actions) for _ in range(n)]


class Runner:
    """steps one environment, recording a trace; resets at episode end"""

    def __init__(self, env, seed, actions):
        self.env, self.actions, self.t = env, actions, 0
        env.set_seed(seed)
        env.reset()
        self.trace = [(canon_state(env.state), canon_observation(env.observation))]

    def done(self):
        return self.t >= len(self.actions)

    def advance(self):
        reward, terminal = self.env.step(self.actions[self.t])
        self.t += 1
        self.trace.append(
            (
                canon_state(self.env.state),
                canon_observation(self.env.observation),
                reward,
                terminal,
            )
        )
        if terminal:
            self.env.reset()
            self.trace.append(
                (canon_state(self.env.state), canon_observation(self.env.observation))
            )


def run_alone(data, seed, n):
    env = factory_env_from_data(copy_config(data))
    runner = Runner(env, seed, actions_for(env, seed, n))
    while not runner.done():
        runner.advance()
    return runner.trace


def check_environments():
    all_traces = {}
    for name, data in configs().items():
        for seed in (0, 1, 42):
            n = 60
            reset_gv_debug(True)
            snap = None
            reference = run_alone(data, seed, n)

            # the first reset must be the layout predicted by the reference
            kwargs = data['reset_function']
            h, w = kwargs['shape']
            lh, lw = kwargs['layout']
            if kwargs['name'] == 'rooms':
                expected = ref_rooms(h, w, lh, lw, np.random.default_rng(seed))
            else:
                expected = ref_memory_rooms(
                    h,
                    w,
                    lh,
                    lw,
                    kwargs['colors'],
                    kwargs['num_beacons'],
                    kwargs['num_exits'],
                    np.random.default_rng(seed),
                )
            assert reference[0][0] == expected, (name, seed)

            # debug flag off: same trace
            reset_gv_debug(False)
            assert run_alone(data, seed, n) == reference, (name, seed, 'debug')
            reset_gv_debug(True)

            # interleaved with a twin and with differently-seeded strangers,
            # while the global generators must stay untouched
            envs = [factory_env_from_data(copy_config(data)) for _ in range(4)]
            snap = global_snapshot()
            runners = [
                Runner(envs[0], seed, actions_for(envs[0], seed, n)),
                Runner(envs[1], seed + 1000, actions_for(envs[1], seed + 5, n)),
                Runner(envs[2], seed, actions_for(envs[2], seed, n)),
                Runner(envs[3], seed + 2000, actions_for(envs[3], seed + 9, n)),
            ]
            scheduler = random.Random(seed)
            scheduler_state = None
            while not all(r.done() for r in runners):
                live = [r for r in runners if not r.done()]
                runner = live[scheduler.randrange(len(live))]
                scheduler_state = random.getstate()
                runner.advance()
                assert random.getstate() == scheduler_state
            assert runners[0].trace == reference, (name, seed, 'interleaved 0')
            assert runners[2].trace == reference, (name, seed, 'interleaved 2')
            after = global_snapshot()
            assert after[:3] == snap[:3], (name, seed, 'global rng perturbed')
            all_traces[f'{name}/{seed}'] = reference
    return all_traces


def digest(traces):
    return hashlib.sha256(repr(sorted(traces.items())).encode()).hexdigest()


def check_across_processes(own_digest):
    for hashseed in ('0', '1', '4242', 'random'):
        env = dict(os.environ, PYTHONHASHSEED=hashseed)
        out = subprocess.run(
            [sys.executable, '-W', 'ignore', os.path.abspath(__file__), '--digest'],
            env=env,
            cwd=os.getcwd(),
            stdout=subprocess.PIPE,
            stderr=subprocess.DEVNULL,
            check=True,
        ).stdout.decode().strip().splitlines()[-1]
        assert out == own_digest, f'PYTHONHASHSEED={hashseed}: trace differs'


def main():
    if '--digest' in sys.argv:
        print(digest(check_environments()))
        return

    print('rooms (ok, errors):', check_rooms())
    print('memory_rooms (ok, errors):', check_memory_rooms())
    check_factory_and_registry()
    traces = check_environments()
    print('environment traces:', len(traces))
    check_across_processes(digest(traces))
    print('A: all checks passed')


if __name__ == '__main__':
    main()
