#!/usr/bin/env python
"""C15 demo (change B): numeric representations lie inside their declared spaces.

Self-contained;  exits 0 on the pristine tree and with `patch.diff` applied.

What is checked

1.  *Reference equality of the derived quantities of the spaces.*  For many
    (object types, colours, shape) combinations -- lists, tuples, repeated
    entries, reversed orders, empty colour lists -- the `max_*` quantities of
    `StateSpace` / `ObservationSpace` are compared with a reference embedded
    here (maxima over the explicit lists `types + [NoneGridObject]`,
    `types + [Hidden]`), with hard-coded values, and the lookup tables and the
    declared spaces of the three representations are compared with an
    independent reference construction.  Membership of held items / grid
    objects in the spaces is compared with a reference predicate.
2.  *The property itself on synthetic members.*  Every object type / status /
    colour, every agent pose, every held item, on 2x2, non-square and 1-wide
    shapes:  the converted arrays satisfy, key by key, shape, dtype and bounds
    of the declared space, and of the space advertised by the gym layer.
3.  *The property on trajectories* of the 21 shipped configurations (rebuilt
    here through the python API, because YAML loading may not be available),
    with re-seeding, several environments alive in one process, repeated
    reads of the derived quantities.
4.  If the spaces accept one-shot iterables (i.e. the patch is applied) the
    same checks are run on spaces built from generators.
"""
import itertools as itt
import os
import sys
import warnings

sys.path.insert(0, os.getcwd())  # run from the worktree root
warnings.simplefilter('ignore')

import numpy as np  # noqa: E402

from gym_gridverse.action import Action  # noqa: E402
from gym_gridverse.agent import Agent  # noqa: E402
from gym_gridverse.debugging import reset_gv_debug  # noqa: E402
from gym_gridverse.envs import observation_functions as observation_fs  # noqa: E402
from gym_gridverse.envs import reset_functions as reset_fs  # noqa: E402
from gym_gridverse.envs import reward_functions as reward_fs  # noqa: E402
from gym_gridverse.envs import terminating_functions as terminating_fs  # noqa: E402
from gym_gridverse.envs import transition_functions as transition_fs  # noqa: E402
from gym_gridverse.envs.gridworld import GridWorld  # noqa: E402
from gym_gridverse.geometry import Area, Orientation, Position, Shape  # noqa: E402
from gym_gridverse.grid import Grid  # noqa: E402
from gym_gridverse.grid_object import (  # noqa: E402
    Beacon,
    Box,
    Color,
    Door,
    Exit,
    Floor,
    Hidden,
    Key,
    MovingObstacle,
    NoneGridObject,
    Telepod,
    Wall,
)
from gym_gridverse.observation import Observation  # noqa: E402
from gym_gridverse.outer_env import OuterEnv  # noqa: E402
from gym_gridverse.representations.observation_representations import (  # noqa: E402
    make_observation_representation,
)
from gym_gridverse.representations.spaces import Space, SpaceType  # noqa: E402
from gym_gridverse.representations.state_representations import (  # noqa: E402
    make_state_representation,
)
from gym_gridverse.spaces import ActionSpace, ObservationSpace, StateSpace  # noqa: E402
from gym_gridverse.state import State  # noqa: E402

reset_gv_debug(True)  # conversions also check space membership of their input

REPRESENTATIONS = ['default', 'no-overlap', 'compact']
CHECKS = 0


def check(condition, *message):
    global CHECKS
    CHECKS += 1
    if not condition:
        print('FAILED:', *message)
        sys.exit(1)


# ---------------------------------------------------------------------------
# gym layer (optional dependency)
# ---------------------------------------------------------------------------

try:
    import gym  # noqa: E402

    from gym_gridverse.gym import (  # noqa: E402
        GymEnvironment,
        outer_space_to_gym_space,
    )

    outer_space_to_gym_space(
        {'x': Space.make_discrete_space(np.zeros(2, int), np.ones(2, int))}
    )
    HAVE_GYM = True
except Exception:  # pylint: disable=broad-except
    HAVE_GYM = False


def advertised(space_dict):
    """what the gym layer advertises: (low, high, dtype) per key"""
    if HAVE_GYM:
        gym_space = outer_space_to_gym_space(space_dict)
        check(isinstance(gym_space, gym.spaces.Dict), 'gym dict')
        check(set(gym_space.spaces.keys()) == set(space_dict.keys()), 'gym keys')
        return {
            k: (box.low, box.high, box.dtype, box)
            for k, box in gym_space.spaces.items()
        }

    # same construction as gym_gridverse.gym.outer_space_to_gym_space
    return {
        k: (
            v.lower_bound,
            v.upper_bound,
            np.dtype(float if v.space_type is SpaceType.CONTINUOUS else int),
            None,
        )
        for k, v in space_dict.items()
    }


# ---------------------------------------------------------------------------
# the property
# ---------------------------------------------------------------------------


def check_array_in_space(space, x, *context):
    """shape, dtype and bounds, spelled out (and `Space.contains` agrees)"""
    check(isinstance(x, np.ndarray), 'not an array', *context)
    check(x.shape == space.lower_bound.shape, 'shape (lower)', x.shape, *context)
    check(x.shape == space.upper_bound.shape, 'shape (upper)', x.shape, *context)
    check(x.shape == space.shape, 'shape', x.shape, space.shape, *context)
    if space.space_type is SpaceType.CONTINUOUS:
        check(np.issubdtype(x.dtype, np.floating), 'dtype', x.dtype, *context)
    else:
        check(np.issubdtype(x.dtype, np.integer), 'dtype', x.dtype, *context)
    check(bool(np.all(space.lower_bound <= x)), 'lower bound', *context)
    check(bool(np.all(x <= space.upper_bound)), 'upper bound', *context)
    check(bool(space.contains(x)), 'Space.contains', *context)


def check_conversion(representation, gym_view, member, *context):
    space = representation.space
    arrays = representation.convert(member)
    check(set(arrays.keys()) == set(space.keys()), 'keys', *context)
    for key, x in arrays.items():
        check_array_in_space(space[key], x, key, *context)
        low, high, dtype, box = gym_view[key]
        check(x.shape == low.shape == high.shape, 'gym shape', key, *context)
        check(np.can_cast(x.dtype, dtype), 'gym dtype', key, *context)
        check(bool(np.all(low <= x) and np.all(x <= high)), 'gym bounds', key)
        if box is not None:
            check(bool(box.contains(x)), 'gym Box.contains', key, *context)
    return arrays


# ---------------------------------------------------------------------------
# reference implementation of the declared `grid` space
# ---------------------------------------------------------------------------


def reference_grid_space(item_space, height, width):
    """the historical spelling: np.tile of the grid-object bounds"""
    return (
        item_space.space_type,
        np.tile(item_space.lower_bound, (height, width, 1)),
        np.tile(item_space.upper_bound, (height, width, 1)),
    )


def check_same_array(a, b, *context):
    check(a.shape == b.shape, 'ref shape', a.shape, b.shape, *context)
    check(a.dtype == b.dtype, 'ref dtype', a.dtype, b.dtype, *context)
    check(np.array_equal(a, b), 'ref values', *context)


def check_grid_space_against_reference(representation, shape, *context):
    space = representation.space
    item_space = space['item']
    grid_space = space['grid']
    space_type, lower, upper = reference_grid_space(
        item_space, shape.height, shape.width
    )
    check(grid_space.space_type is space_type, 'space type', *context)
    check(grid_space.space_type is SpaceType.CATEGORICAL, 'categorical')
    check_same_array(grid_space.lower_bound, lower, 'lower', *context)
    check_same_array(grid_space.upper_bound, upper, 'upper', *context)
    check(grid_space.shape == (shape.height, shape.width, 3), 'grid shape')
    check(grid_space.lower_bound.dtype == np.dtype(int), 'int dtype')
    check(not grid_space.lower_bound.any(), 'categorical lower bound is 0')

    # bounds are fresh, writable, non-aliased arrays
    for bound in (grid_space.lower_bound, grid_space.upper_bound):
        check(bound.flags.writeable, 'writable bound', *context)
        check(bound.flags.c_contiguous, 'contiguous bound', *context)
        check(
            not np.shares_memory(bound, item_space.lower_bound)
            and not np.shares_memory(bound, item_space.upper_bound),
            'aliasing with item space',
            *context,
        )
    check(
        not np.shares_memory(grid_space.lower_bound, grid_space.upper_bound),
        'aliasing lower/upper',
    )

    # repeated reads give equal, independent spaces
    again = representation.space['grid']
    check(again == grid_space, 'repeated read', *context)
    again.upper_bound[...] = -7
    check_same_array(representation.space['grid'].upper_bound, upper, 'fresh')

    # the other keys
    agent_id = space['agent_id_grid']
    check(agent_id.space_type is SpaceType.DISCRETE, 'agent id type')
    check_same_array(
        agent_id.lower_bound, np.zeros((shape.height, shape.width), int)
    )
    check_same_array(
        agent_id.upper_bound, np.ones((shape.height, shape.width), int)
    )
    return item_space.upper_bound.tolist()


# ---------------------------------------------------------------------------
# synthetic members of the spaces
# ---------------------------------------------------------------------------


def instances(object_type, colors):
    """every status and colour of an object type"""
    colors = sorted(colors, key=lambda c: c.value)
    if object_type in (Floor, Wall, MovingObstacle, NoneGridObject, Hidden):
        return [object_type()]
    if object_type is Door:
        return [Door(s, c) for s in Door.Status for c in colors]
    if object_type in (Exit, Key, Telepod, Beacon):
        return [object_type(c) for c in colors]
    if object_type is Box:
        return [Box(Floor()), Box(Key(colors[-1])), Box(Box(Wall()))]
    raise AssertionError(object_type)


def make_members(make, shape, grid_objects, items, full):
    """every pose (and, if `full`, every pose x every held item)

    every grid object appears, at shifting cells, across the members
    """
    height, width = shape.height, shape.width
    poses = [
        (Position(y, x), o)
        for y in range(height)
        for x in range(width)
        for o in Orientation
    ]
    if full:
        todo = list(itt.product(poses, items))
    else:
        n = max(len(poses), len(items), len(grid_objects))
        todo = [(poses[i % len(poses)], items[i % len(items)]) for i in range(n)]

    for n, ((position, orientation), item) in enumerate(todo):
        cells = itt.islice(
            itt.cycle(grid_objects), n % len(grid_objects), None
        )
        grid = Grid(
            [[next(cells) for _ in range(width)] for _ in range(height)]
        )
        yield make(grid, Agent(position, orientation, item))


STATE_TYPES = [Floor, Wall, Exit, Door, Key, MovingObstacle, Telepod, Beacon]
OBSERVATION_TYPES = STATE_TYPES + [Box]
ALL_COLORS = [Color.RED, Color.GREEN, Color.BLUE, Color.YELLOW]


def type_subsets(types):
    """all singletons, a few pairs, some bigger subsets, everything, reversed"""
    subsets = [[t] for t in types]
    subsets += [list(p) for p in itt.islice(itt.combinations(types, 2), 0, None, 5)]
    subsets += [types[:4], types[3:], types[::2], list(types), types[::-1]]
    subsets += [[Door, Door, Floor]]  # repeated entries are legal
    return subsets


COLOR_SUBSETS = [
    [],
    [Color.NONE],
    [Color.YELLOW],
    [Color.RED, Color.BLUE],
    [Color.NONE, Color.GREEN],
    ALL_COLORS,
    [Color.YELLOW, Color.NONE, Color.RED, Color.GREEN, Color.BLUE],
]

STATE_SHAPES = [Shape(2, 2), Shape(2, 5), Shape(4, 2), Shape(3, 4)]
VIEW_SHAPES = [Shape(2, 3), Shape(1, 1), Shape(5, 1), Shape(3, 5), Shape(2, 7)]


def synthetic_state_checks():
    count = 0
    for n, (types, colors) in enumerate(
        itt.product(type_subsets(STATE_TYPES), COLOR_SUBSETS[::2])
    ):
        shape = STATE_SHAPES[n % len(STATE_SHAPES)]
        space = StateSpace(shape, types, colors)
        all_colors = set(colors) | {Color.NONE}
        grid_objects = [o for t in types for o in instances(t, all_colors)]
        items = [NoneGridObject()] + grid_objects
        for name in REPRESENTATIONS:
            representation = make_state_representation(name, space)
            check_grid_space_against_reference(representation, shape, name)
            gym_view = advertised(representation.space)
            full = n % 13 == 0
            for state in make_members(State, shape, grid_objects, items, full):
                check(space.contains(state), 'member state')
                arrays = check_conversion(representation, gym_view, state, name)
                check(arrays['grid'].shape == (shape.height, shape.width, 3), 's')
                check(arrays['agent'].shape == (6,), 'agent shape')
                check(arrays['agent_id_grid'].sum() == 1, 'one agent cell')
                check(
                    arrays['agent_id_grid'][state.agent.position.yx] == 1,
                    'agent cell',
                )
                count += 1
    return count


def synthetic_observation_checks():
    count = 0
    for n, (types, colors) in enumerate(
        itt.product(type_subsets(OBSERVATION_TYPES), COLOR_SUBSETS[::2])
    ):
        shape = VIEW_SHAPES[n % len(VIEW_SHAPES)]
        space = ObservationSpace(shape, types, colors)
        all_colors = set(colors) | {Color.NONE}
        objects = [o for t in types for o in instances(t, all_colors)]
        grid_objects = [Hidden()] + objects
        items = [NoneGridObject()] + objects
        for name in REPRESENTATIONS:
            representation = make_observation_representation(name, space)
            check_grid_space_against_reference(representation, shape, name)
            gym_view = advertised(representation.space)
            full = n % 13 == 0
            for observation in make_members(
                Observation, shape, grid_objects, items, full
            ):
                check(space.contains(observation), 'member observation')
                check_conversion(representation, gym_view, observation, name)
                count += 1
    return count


def hard_coded_expectations():
    """upper bounds of the grid-object (item) spaces, computed by hand

    registry order: NoneGridObject 0, Hidden 1, Floor 2, Wall 3, Exit 4,
    Door 5, Key 6, MovingObstacle 7, Box 8, Telepod 9, Beacon 10
    """
    check(
        [
            t.type_index()
            for t in [NoneGridObject, Hidden, Floor, Wall, Exit, Door, Key]
            + [MovingObstacle, Box, Telepod, Beacon]
        ]
        == list(range(11)),
        'registry order',
    )
    types = [Floor, Wall, Door, Key]
    colors = [Color.RED, Color.BLUE]

    expected_state = {
        'default': [6, 3, 3],
        'no-overlap': [6, 10, 14],
        # 5 types (0..4), 1+1+1+3+1 statuses (5..11), 3 colours (12..14)
        'compact': [4, 11, 14],
    }
    expected_observation = {
        'default': [6, 3, 3],
        'no-overlap': [6, 10, 14],
        # 6 types (0..5), 1+1+1+1+3+1 statuses (6..13), 3 colours (14..16)
        'compact': [5, 13, 16],
    }
    for name in REPRESENTATIONS:
        for shape in [Shape(2, 2), Shape(3, 7), Shape(6, 3)]:
            representation = make_state_representation(
                name, StateSpace(shape, types, colors)
            )
            upper = check_grid_space_against_reference(representation, shape)
            check(upper == expected_state[name], 'state', name, upper)
            grid_upper = representation.space['grid'].upper_bound
            check(grid_upper.shape == (shape.height, shape.width, 3), 'shape')
            for y, x in itt.product(range(shape.height), range(shape.width)):
                check(grid_upper[y, x].tolist() == expected_state[name], 'cell')

        for shape in [Shape(2, 3), Shape(3, 7), Shape(6, 1)]:
            representation = make_observation_representation(
                name, ObservationSpace(shape, types, colors)
            )
            upper = check_grid_space_against_reference(representation, shape)
            check(upper == expected_observation[name], 'obs', name, upper)
            grid_upper = representation.space['grid'].upper_bound
            for y, x in itt.product(range(shape.height), range(shape.width)):
                check(
                    grid_upper[y, x].tolist() == expected_observation[name],
                    'cell',
                )

    # one fully spelled out conversion
    state = State(
        Grid(
            [
                [Wall(), Door(Door.Status.LOCKED, Color.BLUE)],
                [Floor(), Key(Color.RED)],
                [Floor(), Floor()],
            ]
        ),
        Agent(Position(2, 1), Orientation.L, Key(Color.BLUE)),
    )
    space = StateSpace(Shape(3, 2), types, colors)
    expected = {
        'default': [
            [[3, 0, 0], [5, 2, 3]],
            [[2, 0, 0], [6, 0, 1]],
            [[2, 0, 0], [2, 0, 0]],
        ],
        'no-overlap': [
            [[3, 7, 11], [5, 9, 14]],
            [[2, 7, 11], [6, 7, 12]],
            [[2, 7, 11], [2, 7, 11]],
        ],
        'compact': [
            [[2, 7, 12], [3, 10, 14]],
            [[1, 6, 12], [4, 11, 13]],
            [[1, 6, 12], [1, 6, 12]],
        ],
    }
    expected_item = {
        'default': [6, 0, 3],
        'no-overlap': [6, 7, 14],
        'compact': [4, 11, 14],
    }
    for name in REPRESENTATIONS:
        representation = make_state_representation(name, space)
        arrays = check_conversion(
            representation, advertised(representation.space), state, name
        )
        check(arrays['grid'].tolist() == expected[name], 'grid', name)
        check(arrays['item'].tolist() == expected_item[name], 'item', name)
        check(
            arrays['agent_id_grid'].tolist() == [[0, 0], [0, 0], [0, 1]],
            'agent id grid',
        )
        check(
            arrays['agent'].tolist() == [1.0, 1.0, 0.0, 0.0, 1.0, 0.0], 'agent'
        )


# ---------------------------------------------------------------------------
# shipped configurations (yaml/*.yaml), rebuilt through the python API
# ---------------------------------------------------------------------------

MOVES = [
    Action.MOVE_FORWARD,
    Action.MOVE_BACKWARD,
    Action.MOVE_LEFT,
    Action.MOVE_RIGHT,
    Action.TURN_LEFT,
    Action.TURN_RIGHT,
]
WFE = [Wall, Floor, Exit]
MEMORY_COLORS = [Color.NONE] + ALL_COLORS
MEMORY_KW = dict(colors=set(ALL_COLORS))
MEMORY_ROOMS_KW = dict(colors=set(ALL_COLORS), num_beacons=1, num_exits=2)
REACH_EXIT = ['reach_exit']
BUMPS = ['reach_exit', 'bump_moving_obstacle', 'bump_into_wall']

# name: objects, colors, actions, reset, reset kwargs, transitions, terminating
SHIPPED = {
    'gv_crossing.5x5': (WFE, [Color.NONE], MOVES, 'crossing', dict(shape=Shape(5, 5), num_rivers=1, object_type=Wall), ['move_agent', 'turn_agent'], REACH_EXIT),
    'gv_crossing.7x7': (WFE, [Color.NONE], MOVES, 'crossing', dict(shape=Shape(7, 7), num_rivers=2, object_type=Wall), ['move_agent', 'turn_agent'], REACH_EXIT),
    'gv_dynamic_obstacles.5x5': (WFE + [MovingObstacle], [Color.NONE], MOVES, 'dynamic_obstacles', dict(shape=Shape(5, 5), num_obstacles=1, random_agent=False), ['move_agent', 'turn_agent', 'move_obstacles'], BUMPS),
    'gv_dynamic_obstacles.7x7': (WFE + [MovingObstacle], [Color.NONE], MOVES, 'dynamic_obstacles', dict(shape=Shape(7, 7), num_obstacles=2, random_agent=False), ['move_agent', 'turn_agent', 'move_obstacles'], BUMPS),
    'gv_empty.4x4': (WFE, [Color.NONE], MOVES, 'empty', dict(shape=Shape(4, 4), random_agent=True), ['move_agent', 'turn_agent'], REACH_EXIT),
    'gv_empty.8x8': (WFE, [Color.NONE], MOVES, 'empty', dict(shape=Shape(8, 8), random_agent=True), ['move_agent', 'turn_agent'], REACH_EXIT),
    'gv_four_rooms.7x7': (WFE, [Color.NONE], MOVES, 'rooms', dict(shape=Shape(7, 7), layout=(2, 2)), ['move_agent', 'turn_agent'], REACH_EXIT),
    'gv_four_rooms.9x9': (WFE, [Color.NONE], MOVES, 'rooms', dict(shape=Shape(9, 9), layout=(2, 2)), ['move_agent', 'turn_agent'], REACH_EXIT),
    'gv_keydoor.5x5': (WFE + [Door, Key], [Color.NONE, Color.YELLOW], list(Action), 'keydoor', dict(shape=Shape(5, 5)), ['move_agent', 'turn_agent', 'actuate_door', 'pickndrop'], REACH_EXIT),
    'gv_keydoor.7x7': (WFE + [Door, Key], [Color.NONE, Color.YELLOW], list(Action), 'keydoor', dict(shape=Shape(7, 7)), ['move_agent', 'turn_agent', 'actuate_door', 'pickndrop'], REACH_EXIT),
    'gv_keydoor.9x9': (WFE + [Door, Key], [Color.NONE, Color.YELLOW], list(Action), 'keydoor', dict(shape=Shape(9, 9)), ['move_agent', 'turn_agent', 'actuate_door', 'pickndrop'], REACH_EXIT),
    'gv_memory.5x5': (WFE + [Beacon], MEMORY_COLORS, MOVES, 'memory', dict(shape=Shape(5, 5), **MEMORY_KW), ['move_agent', 'turn_agent'], REACH_EXIT),
    'gv_memory.9x9': (WFE + [Beacon], MEMORY_COLORS, MOVES, 'memory', dict(shape=Shape(9, 9), **MEMORY_KW), ['move_agent', 'turn_agent'], REACH_EXIT),
    'gv_memory_four_rooms.7x7': (WFE + [Beacon], MEMORY_COLORS, MOVES, 'memory_rooms', dict(shape=Shape(7, 7), layout=(2, 2), **MEMORY_ROOMS_KW), ['move_agent', 'turn_agent'], REACH_EXIT),
    'gv_memory_four_rooms.9x9': (WFE + [Beacon], MEMORY_COLORS, MOVES, 'memory_rooms', dict(shape=Shape(9, 9), layout=(2, 2), **MEMORY_ROOMS_KW), ['move_agent', 'turn_agent'], REACH_EXIT),
    'gv_memory_nine_rooms.10x10': (WFE + [Beacon], MEMORY_COLORS, MOVES, 'memory_rooms', dict(shape=Shape(10, 10), layout=(3, 3), **MEMORY_ROOMS_KW), ['move_agent', 'turn_agent'], REACH_EXIT),
    'gv_memory_nine_rooms.13x13': (WFE + [Beacon], MEMORY_COLORS, MOVES, 'memory_rooms', dict(shape=Shape(13, 13), layout=(3, 3), **MEMORY_ROOMS_KW), ['move_agent', 'turn_agent'], REACH_EXIT),
    'gv_nine_rooms.10x10': (WFE, [Color.NONE], MOVES, 'rooms', dict(shape=Shape(10, 10), layout=(3, 3)), ['move_agent', 'turn_agent'], REACH_EXIT),
    'gv_nine_rooms.13x13': (WFE, [Color.NONE], MOVES, 'rooms', dict(shape=Shape(13, 13), layout=(3, 3)), ['move_agent', 'turn_agent'], REACH_EXIT),
    'gv_teleport.5x5': (WFE + [Telepod], [Color.NONE, Color.RED], MOVES, 'teleport', dict(shape=Shape(5, 5), random_agent=True), ['move_agent', 'turn_agent', 'teleport'], REACH_EXIT),
    'gv_teleport.7x7': (WFE + [Telepod], [Color.NONE, Color.RED], MOVES, 'teleport', dict(shape=Shape(7, 7), random_agent=True), ['move_agent', 'turn_agent', 'teleport'], REACH_EXIT),
}  # fmt: skip

VIEW_AREA = Area((-6, 0), (-3, 3))  # every shipped configuration


def build_env(name, observation_function='partially_occluded', area=VIEW_AREA):
    objects, colors, actions, reset, reset_kw, transitions, terms = SHIPPED[name]
    reset_function = reset_fs.factory(reset, **reset_kw)
    transition_function = transition_fs.factory(
        'chain',
        transition_functions=[transition_fs.factory(t) for t in transitions],
    )
    reward_function = reward_fs.factory('living_reward', reward=-0.05)
    observation_function = observation_fs.factory(
        observation_function, area=area
    )
    terminating_function = terminating_fs.factory(
        'reduce_any',
        terminating_functions=[terminating_fs.factory(t) for t in terms],
    )
    state = reset_function()
    state_space = StateSpace(state.grid.shape, objects, colors)
    observation = observation_function(state)
    observation_space = ObservationSpace(observation.grid.shape, objects, colors)
    return GridWorld(
        state_space,
        ActionSpace(actions),
        observation_space,
        reset_function,
        transition_function,
        observation_function,
        reward_function,
        terminating_function,
    )


def run_trajectories(env, seed, steps, *context):
    """reset + random steps;  checks all three representations at every step"""
    rng = np.random.default_rng(seed)
    state_reps = {
        name: make_state_representation(name, env.state_space)
        for name in REPRESENTATIONS
    }
    observation_reps = {
        name: make_observation_representation(name, env.observation_space)
        for name in REPRESENTATIONS
    }
    state_views = {n: advertised(r.space) for n, r in state_reps.items()}
    observation_views = {
        n: advertised(r.space) for n, r in observation_reps.items()
    }
    for name in REPRESENTATIONS:
        check_grid_space_against_reference(
            state_reps[name], env.state_space.grid_shape, name, *context
        )
        check_grid_space_against_reference(
            observation_reps[name], env.observation_space.grid_shape, name
        )

    env.set_seed(seed)
    env.reset()
    count = 0
    for step in range(steps):
        check(env.state_space.contains(env.state), 'state in space', *context)
        check(
            env.observation_space.contains(env.observation),
            'observation in space',
            *context,
        )
        for name in REPRESENTATIONS:
            check_conversion(
                state_reps[name], state_views[name], env.state, name, *context
            )
            check_conversion(
                observation_reps[name],
                observation_views[name],
                env.observation,
                name,
                *context,
            )
            count += 2
        action = env.action_space.int_to_action(
            int(rng.integers(env.action_space.num_actions))
        )
        _, done = env.step(action)
        if done or step % 17 == 16:
            if step % 2:
                env.set_seed(seed + step)  # re-seeding mid-way
            env.reset()
    return count


def gym_trajectories(env, seed, steps, *context):
    """the spaces advertised by GymEnvironment contain what it returns"""
    if not HAVE_GYM:
        return 0
    count = 0
    outer = OuterEnv(
        env,
        state_representation=make_state_representation(
            'default', env.state_space
        ),
        observation_representation=make_observation_representation(
            'default', env.observation_space
        ),
    )
    gym_env = GymEnvironment(outer)
    rng = np.random.default_rng(seed)
    for name in REPRESENTATIONS:
        gym_env.set_state_representation(name)
        gym_env.set_observation_representation(name)
        gym_env.outer_env.inner_env.set_seed(seed)  # (gym seeding API varies)
        observation = gym_env.reset()
        for _ in range(steps):
            check(
                gym_env.observation_space.contains(observation),
                'gym observation',
                name,
                *context,
            )
            check(
                gym_env.state_space.contains(gym_env.state),
                'gym state',
                name,
                *context,
            )
            for key, x in observation.items():
                box = gym_env.observation_space.spaces[key]
                check(x.shape == box.shape, 'gym box shape', key)
                check(bool(box.contains(x)), 'gym box', key)
            count += 2
            observation, _, done, _ = gym_env.step(
                int(rng.integers(gym_env.action_space.n))
            )
            if done:
                observation = gym_env.reset()
    return count


def shipped_checks():
    count = 0
    # several environments alive at once, stepped in an interleaved fashion
    envs = {name: build_env(name) for name in SHIPPED}
    for name, env in envs.items():
        check(env.observation_space.grid_shape == Shape(7, 7), 'view', name)
        count += run_trajectories(env, 11, 30, name)
    for name, env in reversed(list(envs.items())):
        count += run_trajectories(env, 12, 12, name, 'second pass')
        count += gym_trajectories(env, 5, 10, name)

    # asymmetric / degenerate view areas, other observation functions
    for area, function in [
        (Area((-2, 1), (-1, 1)), 'fully_transparent'),
        (Area((0, 0), (0, 0)), 'partially_occluded'),
        (Area((-1, 3), (-4, 4)), 'raytracing'),
        (Area((-3, 0), (0, 0)), 'stochastic_raytracing'),
        (Area((-8, 8), (-8, 8)), 'fully_transparent'),
        (Area((-4, 0), (-1, 3)), 'partially_occluded'),
    ]:
        for name in ['gv_keydoor.5x5', 'gv_teleport.5x5', 'gv_memory.5x5']:
            env = build_env(name, function, area)
            check(
                env.observation_space.grid_shape
                == Shape(area.height, area.width),
                'view shape',
            )
            count += run_trajectories(env, 3, 25, name, area, function)
    return count


# ---------------------------------------------------------------------------
# derived quantities of the spaces, against an embedded reference
# ---------------------------------------------------------------------------


def reference_quantities(kind, types, colors):
    """maxima over explicit lists (the historical spelling)"""
    types = list(types)
    colors = set(colors) | {Color.NONE}
    grid_types = types + [Hidden] if kind == 'observation' else types
    agent_types = types + [NoneGridObject]
    reference = {
        'max_grid_object_type': max(t.type_index() for t in grid_types),
        'max_grid_object_status': max(t.num_states() for t in grid_types),
        'max_agent_object_type': max(t.type_index() for t in agent_types),
        'max_agent_object_status': max(t.num_states() for t in agent_types),
        'max_object_color': max(c.value for c in colors),
    }
    reference['max_type_index'] = max(
        reference['max_grid_object_type'], reference['max_agent_object_type']
    )
    reference['max_state_index'] = max(
        reference['max_grid_object_status'],
        reference['max_agent_object_status'],
    )
    return reference


def reference_compact_tables(kind, types, colors):
    """independent construction of the compact lookup tables"""
    reference = reference_quantities(kind, types, colors)
    extra = [Hidden, NoneGridObject] if kind == 'observation' else [NoneGridObject]
    all_types = sorted(set(types) | set(extra), key=lambda t: t.type_index())
    all_colors = sorted(set(colors) | {Color.NONE}, key=lambda c: c.value)

    type_map = np.full(reference['max_type_index'] + 1, -1, dtype=int)
    status_map = np.full(
        (reference['max_type_index'] + 1, reference['max_state_index'] + 1),
        -1,
        dtype=int,
    )
    color_map = np.full(reference['max_object_color'] + 1, -1, dtype=int)
    counter = itt.count()
    for t in all_types:
        type_map[t.type_index()] = next(counter)
    for t in all_types:
        for j in range(t.num_states()):
            status_map[t.type_index(), j] = next(counter)
    for c in all_colors:
        color_map[c.value] = next(counter)
    return type_map, status_map, color_map, all_types, all_colors


def reference_item_upper_bounds(kind, types, colors):
    reference = reference_quantities(kind, types, colors)
    # the grid-object spaces are built over types + {NoneGridObject} (+ Hidden)
    max_type = reference['max_type_index']
    max_status = reference['max_state_index']
    max_color = reference['max_object_color']
    _, _, _, all_types, all_colors = reference_compact_tables(kind, types, colors)
    n_types = len(all_types)
    n_statuses = sum(t.num_states() for t in all_types)
    n_colors = len(all_colors)
    return {
        'default': [max_type, max_status, max_color],
        'no-overlap': [
            max_type,
            max_type + max_status + 1,
            max_type + max_status + max_color + 2,
        ],
        'compact': [
            n_types - 1,
            n_types + n_statuses - 1,
            n_types + n_statuses + n_colors - 1,
        ],
    }


def check_space_quantities(kind, space, types, colors, *context):
    types = list(types)  # what was given to the constructor, as a list
    reference = reference_quantities(kind, types, colors)
    for _ in range(2):  # repeated reads
        for name, value in reference.items():
            got = getattr(space, name)
            check(type(got) is int, 'int quantity', name, *context)
            check(got == value, name, got, value, *context)
    check(space.object_types == types, 'object_types list', *context)
    check(isinstance(space.object_types, list), 'object_types is a list')
    check(space.colors == set(colors) | {Color.NONE}, 'colors', *context)
    check(space.agent_state_shape == 5, 'agent_state_shape')
    check(space.grid_state_shape == space.grid_shape, 'grid_state_shape')
    check(
        space.agent_state_size[2:]
        == (
            reference['max_agent_object_type'],
            reference['max_agent_object_status'],
            reference['max_object_color'],
        ),
        'agent_state_size',
    )

    # membership of held items / grid objects, against a reference predicate
    shape = space.grid_shape
    all_colors = set(colors) | {Color.NONE}
    candidates = [
        o
        for t in OBSERVATION_TYPES + [NoneGridObject, Hidden]
        for o in instances(t, [Color.NONE] + ALL_COLORS)
    ]
    filler = instances(types[0], all_colors)[0]
    make = Observation if kind == 'observation' else State
    for candidate in candidates:
        grid = Grid.from_shape(shape, factory=lambda: filler)
        member = make(
            grid, Agent(Position(0, 0), Orientation.F, candidate)
        )
        expected = (
            type(candidate) in types + [NoneGridObject]
            and candidate.color in all_colors
        )
        check(space.contains(member) == expected, 'held item', candidate, *context)

        grid = Grid.from_shape(shape, factory=lambda: filler)
        grid[shape.height - 1, shape.width - 1] = candidate
        member = make(grid, Agent(Position(0, 0), Orientation.F))
        grid_types = types + [Hidden] if kind == 'observation' else types
        expected = type(candidate) in grid_types and candidate.color in all_colors
        check(space.contains(member) == expected, 'grid object', candidate, *context)

    # representations:  lookup tables and declared spaces
    make_representation = (
        make_observation_representation
        if kind == 'observation'
        else make_state_representation
    )
    if kind == 'state' and not space.can_be_represented:
        return
    type_map, status_map, color_map, _, _ = reference_compact_tables(
        kind, types, colors
    )
    upper = reference_item_upper_bounds(kind, types, colors)
    for name in REPRESENTATIONS:
        representation = make_representation(name, space)
        got = check_grid_space_against_reference(
            representation, space.grid_shape, name, *context
        )
        check(got == upper[name], 'item upper bound', name, got, upper[name])
    compact = make_representation('compact', space)
    grid_object_representation = compact.representations[
        'item'
    ].grid_object_representation
    check_same_array(grid_object_representation._grid_object_type_map, type_map)
    check_same_array(
        grid_object_representation._grid_object_status_map, status_map
    )
    check_same_array(
        grid_object_representation._grid_object_color_map, color_map
    )


def hard_coded_quantities():
    types = [Floor, Wall, Door, Key]
    colors = [Color.RED, Color.BLUE]
    space = StateSpace(Shape(3, 2), types, colors)
    check(space.max_grid_object_type == 6, 'hard-coded')
    check(space.max_grid_object_status == 3, 'hard-coded')
    check(space.max_agent_object_type == 6, 'hard-coded')
    check(space.max_agent_object_status == 3, 'hard-coded')
    check(space.max_type_index == 6, 'hard-coded')
    check(space.max_state_index == 3, 'hard-coded')
    check(space.max_object_color == 3, 'hard-coded')

    # NoneGridObject / Hidden are the only contributions beyond the given types
    space = StateSpace(Shape(2, 2), [Floor], [])
    check(space.max_grid_object_type == 2, 'hard-coded')
    check(space.max_agent_object_type == 2, 'hard-coded')
    check(space.max_agent_object_status == 1, 'hard-coded')
    check(space.max_object_color == 0, 'hard-coded')
    space = ObservationSpace(Shape(2, 3), [Beacon, Box], [Color.GREEN])
    check(space.max_grid_object_type == 10, 'hard-coded')
    check(space.max_agent_object_type == 10, 'hard-coded')
    check(space.max_grid_object_status == 1, 'hard-coded')
    check(space.max_object_color == 2, 'hard-coded')
    # an observation space may even list the reserved types
    space = ObservationSpace(Shape(1, 1), [Hidden], [])
    check(space.max_grid_object_type == 1, 'hard-coded')
    check(space.max_agent_object_type == 1, 'hard-coded')
    check(space.max_type_index == 1, 'hard-coded')
    space = ObservationSpace(Shape(1, 1), [NoneGridObject], [])
    check(space.max_grid_object_type == 1, 'hard-coded')
    check(space.max_agent_object_type == 0, 'hard-coded')
    check(space.max_type_index == 1, 'hard-coded')
    # no object types at all:  only the reserved types remain
    space = ObservationSpace(Shape(3, 3), [], [Color.YELLOW])
    check(space.max_grid_object_type == 1, 'hard-coded')
    check(space.max_agent_object_type == 0, 'hard-coded')
    check(space.max_type_index == 1, 'hard-coded')
    check(space.max_state_index == 1, 'hard-coded')
    check(space.max_object_color == 4, 'hard-coded')


def accepts_one_shot_iterables():
    space = StateSpace(Shape(2, 2), iter([Floor, Key]), iter([Color.RED]))
    state = State(
        Grid.from_shape((2, 2)),
        Agent(Position(0, 0), Orientation.F, Key(Color.RED)),
    )
    return space.contains(state)


def sequence_variants(types, colors, one_shot):
    """(constructor arguments, the same as lists)"""
    types, colors = list(types), list(colors)
    yield (list(types), list(colors)), (types, colors)
    yield (tuple(types), tuple(colors)), (types, colors)
    yield (types + types, colors + colors), (types + types, colors)
    yield (tuple(types[::-1]), colors[::-1]), (types[::-1], colors)
    yield (list(types), set(colors)), (types, colors)
    if one_shot:
        yield (iter(list(types)), iter(list(colors))), (types, colors)
        yield ((t for t in types), (c for c in colors)), (types, colors)
        unique = list(dict.fromkeys(types))
        yield (dict.fromkeys(types).keys(), frozenset(colors)), (unique, colors)


def derived_quantity_checks():
    hard_coded_quantities()
    one_shot = accepts_one_shot_iterables()
    count = 0
    for n, (types, colors) in enumerate(
        itt.product(type_subsets(OBSERVATION_TYPES), COLOR_SUBSETS)
    ):
        view_shape = VIEW_SHAPES[n % len(VIEW_SHAPES)]
        grid_shape = STATE_SHAPES[n % len(STATE_SHAPES)]
        for args, (types_, colors_) in sequence_variants(types, colors, one_shot):
            space = ObservationSpace(view_shape, *args)
            check_space_quantities('observation', space, types_, colors_, n)
            count += 1
        for args, (types_, colors_) in sequence_variants(types, colors, one_shot):
            space = StateSpace(grid_shape, *args)
            check_space_quantities('state', space, types_, colors_, n)
            count += 1
    return count, one_shot


def main():
    hard_coded_expectations()
    n_spaces, one_shot = derived_quantity_checks()
    n_states = synthetic_state_checks()
    n_observations = synthetic_observation_checks()
    n_shipped = shipped_checks()
    print(
        f'OK  gym={HAVE_GYM} one-shot iterables accepted={one_shot} '
        f'spaces={n_spaces} '
        f'state conversions={n_states} observation conversions={n_observations} '
        f'trajectory conversions={n_shipped} checks={CHECKS}'
    )


if __name__ == '__main__':
    main()
