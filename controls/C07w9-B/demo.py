"""Demo for change B (table-driven quarter-turn rules in ``Orientation.__mul__``).

Runs unchanged on the pristine tree and on the patched tree; exits 0 on both.

Checks, against a reference implementation embedded in this file:

* the geometry underneath the egocentric view: ``Orientation * Position``,
  ``Orientation * Area``, ``Transform * Position`` and ``Transform * Area``
  against hard-coded tables and a cell-by-cell reference (value, type,
  hashability, group laws, inverse transforms, unsupported operands);
* C07: observations are invariant under rotating the whole world (grid and
  agent pose together) by any quarter turn, for every deterministic built-in
  observation function and many view areas;
* the observation equals an independent cell-by-cell reference (including the
  identity of the visible in-grid objects, and Hidden outside the grid);
* ``Grid.subgrid(area) * orientation`` equals the reference slice-and-rotate;
* a few hard-coded expectations.
"""
import inspect
import itertools as itt
import os
import random
import sys

import numpy as np

sys.path.insert(0, os.getcwd())  # run from the worktree root

from gym_gridverse.agent import Agent
from gym_gridverse.envs import observation_functions as obs_fs
from gym_gridverse.envs.visibility_functions import visibility_function_registry
from gym_gridverse.geometry import Area, Orientation, Position, Transform
from gym_gridverse.grid import Grid
from gym_gridverse.grid_object import (
    Beacon,
    Box,
    Color,
    Door,
    Exit,
    Floor,
    Hidden,
    Key,
    MovingObstacle,
    NoneGridObject,
    Telepod,
    Wall,
)
from gym_gridverse.observation import Observation
from gym_gridverse.state import State

F, R, B, L = Orientation.F, Orientation.R, Orientation.B, Orientation.L
CLOCKWISE = {F: R, R: B, B: L, L: F}

DETERMINISTIC = ['fully_transparent', 'partially_occluded', 'raytracing']

CHECKS = 0


def check(condition, message):
    global CHECKS
    CHECKS += 1
    if not condition:
        print('FAIL:', message)
        sys.exit(1)


# --- reference implementation -------------------------------------------


def ref_rotate_rel(orientation, dy, dx):
    """agent-frame offset (dy, dx) -> world-frame offset, for a given heading"""
    if orientation is F:
        return dy, dx
    if orientation is R:  # agent's forward (-y) is world +x
        return dx, -dy
    if orientation is B:
        return -dy, -dx
    if orientation is L:
        return -dx, dy
    raise AssertionError


def ref_view(grid, position, orientation, area):
    """egocentric view matrix, cell by cell; None marks cells outside the grid"""
    H, W = len(grid.objects), len(grid.objects[0])
    rows = []
    for dy in range(area.ys[0], area.ys[1] + 1):
        row = []
        for dx in range(area.xs[0], area.xs[1] + 1):
            wy, wx = ref_rotate_rel(orientation, dy, dx)
            y, x = position.y + wy, position.x + wx
            row.append(grid.objects[y][x] if 0 <= y < H and 0 <= x < W else None)
        rows.append(row)
    return rows


def ref_observation(state, area, name):
    view = ref_view(
        state.grid, state.agent.position, state.agent.orientation, area
    )
    objects = [[Hidden() if o is None else o for o in row] for row in view]
    pov_position = Position(-area.ys[0], -area.xs[0])
    visibility = visibility_function_registry[name](
        Grid([list(row) for row in objects]), pov_position, rng=None
    )
    for y, row in enumerate(objects):
        for x in range(len(row)):
            if not visibility[y, x]:
                row[x] = Hidden()
    return objects, view, pov_position


def ref_rotate_world(state, turns):
    """rotates grid and agent pose together by `turns` clockwise quarter turns"""
    objects = [list(row) for row in state.grid.objects]
    y, x = state.agent.position.yx
    orientation = state.agent.orientation
    for _ in range(turns % 4):
        H = len(objects)
        W = len(objects[0])
        # clockwise: cell (y, x) -> (x, H - 1 - y)
        rotated = [[None] * H for _ in range(W)]
        for yy in range(H):
            for xx in range(W):
                rotated[xx][H - 1 - yy] = objects[yy][xx]
        objects = rotated
        y, x = x, H - 1 - y
        orientation = CLOCKWISE[orientation]
    return State(
        Grid(objects),
        Agent(Position(y, x), orientation, state.agent.grid_object),
    )


# --- scenario generation ------------------------------------------------


def random_object(rng):
    colors = list(Color)
    k = rng.randrange(12)
    if k < 3:
        return Floor()
    if k < 5:
        return Wall()
    if k == 5:
        return Exit(rng.choice(colors))
    if k == 6:
        return Door(rng.choice(list(Door.Status)), rng.choice(colors))
    if k == 7:
        return Key(rng.choice(colors))
    if k == 8:
        return MovingObstacle()
    if k == 9:
        return Box(rng.choice([Floor(), Key(Color.NONE), Wall()]))
    if k == 10:
        return Telepod(rng.choice(colors))
    return Beacon(rng.choice(colors))


def random_grid(rng, height, width):
    return Grid(
        [[random_object(rng) for _ in range(width)] for _ in range(height)]
    )


AREAS = [
    Area((-6, 0), (-3, 3)),  # the default minigrid-like view
    Area((-2, 0), (-1, 1)),
    Area((-3, 0), (-1, 2)),  # asymmetric left/right
    Area((-2, 0), (-4, 0)),  # agent in the bottom-right corner of the view
    Area((-2, 0), (0, 3)),  # agent in the bottom-left corner of the view
    Area((0, 0), (0, 0)),  # single cell
    Area((-4, 0), (0, 0)),  # single column
    Area((0, 0), (-2, 3)),  # single row
    Area((-2, 2), (-2, 2)),  # agent in the centre (occlusion unsupported)
    Area((-1, 3), (-2, 1)),  # asymmetric in every direction
    Area((-9, 0), (-9, 9)),  # much larger than the grids
    Area((-3, -1), (-1, 1)),  # agent outside of its own view
    Area((1, 2), (2, 4)),  # agent outside of its own view (behind)
]

SHAPES = [(1, 1), (1, 4), (5, 1), (2, 3), (3, 2), (4, 4), (3, 7), (6, 4)]


def agent_positions(height, width):
    corners_and_borders = {
        (0, 0),
        (0, width - 1),
        (height - 1, 0),
        (height - 1, width - 1),
        (0, width // 2),
        (height // 2, 0),
        (height - 1, width // 2),
        (height // 2, width - 1),
        (height // 2, width // 2),
    }
    return sorted(corners_and_borders)


def call(function, *args, **kwargs):
    """returns ('ok', value) or ('raise', exception type)"""
    try:
        return 'ok', function(*args, **kwargs)
    except Exception as error:  # pylint: disable=broad-except
        return 'raise', type(error)


# --- checks -------------------------------------------------------------


def check_subgrid_rotation(rng):
    has_keyword = 'orientation' in inspect.signature(Grid.subgrid).parameters
    for height, width in SHAPES:
        grid = random_grid(rng, height, width)
        snapshot = [list(row) for row in grid.objects]
        for orientation in (F, R, B, L):
            for area in AREAS:
                for y, x in agent_positions(height, width):
                    position = Position(y, x)
                    world_area = Agent(position, orientation).transform * area
                    expected = ref_view(grid, position, orientation, area)

                    results = [grid.subgrid(world_area) * orientation]
                    results.append(orientation * grid.subgrid(world_area))
                    if has_keyword:
                        results.append(
                            grid.subgrid(world_area, orientation=orientation)
                        )

                    for result in results:
                        check(isinstance(result, Grid), 'result type')
                        check(
                            result.shape.as_tuple == (area.height, area.width),
                            f'shape {result.shape} for {area} {orientation}',
                        )
                        check(
                            result.area
                            == Area((0, area.height - 1), (0, area.width - 1)),
                            'result area',
                        )
                        for i, row in enumerate(expected):
                            check(
                                len(result.objects[i]) == len(row), 'row length'
                            )
                            for j, obj in enumerate(row):
                                got = result.objects[i][j]
                                if obj is None:
                                    check(
                                        type(got) is Hidden,
                                        f'expected Hidden at {(i, j)}',
                                    )
                                else:
                                    check(
                                        got is obj,
                                        f'wrong object at {(i, j)} for '
                                        f'{area} {orientation} {position}',
                                    )
                        # fresh containers: editing the result leaves the source alone
                        result.objects[0][0] = Wall()
                    check(
                        all(
                            a is b
                            for ra, rb in zip(grid.objects, snapshot)
                            for a, b in zip(ra, rb)
                        ),
                        'source grid was modified',
                    )

        # plain subgrid (no rotation) keeps its meaning
        for area in [
            Area((0, height - 1), (0, width - 1)),
            Area((-1, height), (-2, width + 1)),
            Area((height, height + 1), (0, 0)),
            Area((-3, -2), (-5, -4)),
        ]:
            sub = grid.subgrid(area)
            for i, y in enumerate(range(area.ys[0], area.ys[1] + 1)):
                for j, x in enumerate(range(area.xs[0], area.xs[1] + 1)):
                    if 0 <= y < height and 0 <= x < width:
                        check(sub.objects[i][j] is grid.objects[y][x], 'subgrid')
                    else:
                        check(type(sub.objects[i][j]) is Hidden, 'subgrid pad')


def check_observations(rng):
    for height, width in SHAPES:
        for trial in range(2):
            grid = random_grid(rng, height, width)
            held = rng.choice([None, Key(Color.NONE), Key(Color.RED)])
            for (y, x), orientation in itt.product(
                agent_positions(height, width), (F, R, B, L)
            ):
                state = State(grid, Agent(Position(y, x), orientation, held))
                snapshot = [list(row) for row in grid.objects]
                worlds = [ref_rotate_world(state, k) for k in range(4)]

                for area, name in itt.product(AREAS, DETERMINISTIC):
                    function = obs_fs.factory(name, area=area)
                    kind, expected = call(ref_observation, state, area, name)
                    outcomes = [call(function, world) for world in worlds]
                    outcomes.append(call(function, state))  # repeated call
                    outcomes.append(
                        call(
                            obs_fs.from_visibility,
                            state,
                            area=area,
                            visibility_function=visibility_function_registry[
                                name
                            ],
                        )
                    )

                    for okind, value in outcomes:
                        check(
                            okind == kind,
                            f'{name} {area} {state.agent}: {okind} vs {kind}',
                        )
                        if kind == 'raise':
                            check(value is expected, 'exception type differs')

                    if kind == 'raise':
                        continue

                    objects, view, pov_position = expected
                    first = outcomes[0][1]
                    for _, observation in outcomes:
                        check(
                            isinstance(observation, Observation), 'result type'
                        )
                        check(
                            observation == first,
                            f'C07 violated: {name} {area} {state.agent}',
                        )
                        check(
                            observation.grid.shape.as_tuple
                            == (area.height, area.width),
                            'observation shape',
                        )
                        check(
                            observation.agent.position == pov_position
                            and observation.agent.orientation is F,
                            'observation agent pose',
                        )
                        check(
                            observation.agent.grid_object
                            is state.agent.grid_object,
                            'observation agent item',
                        )
                        check(
                            observation.grid == Grid(objects),
                            f'reference mismatch: {name} {area} {state.agent}',
                        )
                    # identity of the visible in-grid objects (own world only)
                    observation = outcomes[0][1]
                    for i, row in enumerate(view):
                        for j, obj in enumerate(row):
                            got = observation.grid.objects[i][j]
                            if type(objects[i][j]) is Hidden:
                                check(type(got) is Hidden, 'hidden cell')
                            else:
                                check(got is obj, 'visible cell identity')

                check(
                    all(
                        a is b
                        for ra, rb in zip(grid.objects, snapshot)
                        for a, b in zip(ra, rb)
                    ),
                    'state grid was modified by an observation function',
                )


def check_geometry():
    orientations = (F, R, B, L)

    # hard-coded tables
    table = {
        F: (Position(1, 2), Area((-6, 0), (-3, 3)), Area((-3, 0), (-1, 2))),
        R: (Position(2, -1), Area((-3, 3), (0, 6)), Area((-1, 2), (0, 3))),
        B: (Position(-1, -2), Area((0, 6), (-3, 3)), Area((0, 3), (-2, 1))),
        L: (Position(-2, 1), Area((-3, 3), (-6, 0)), Area((-2, 1), (-3, 0))),
    }
    for orientation, (position, area1, area2) in table.items():
        check(orientation * Position(1, 2) == position, 'table position')
        check(Position(1, 2) * orientation == position, 'table position (r)')
        check(orientation * Area((-6, 0), (-3, 3)) == area1, 'table area 1')
        check(orientation * Area((-3, 0), (-1, 2)) == area2, 'table area 2')
        check(Area((-3, 0), (-1, 2)) * orientation == area2, 'table area (r)')

    coordinates = range(-3, 4)
    positions = [Position(y, x) for y in coordinates for x in coordinates]
    for orientation, position in itt.product(orientations, positions):
        result = orientation * position
        expected = ref_rotate_rel(orientation, position.y, position.x)
        check(type(result) is Position, 'rotated position type')
        check(result.yx == expected, f'{orientation} * {position} = {result}')
        check(
            type(result.y) is int and type(result.x) is int,
            'rotated position coordinate types',
        )
        check(hash(result) == hash(Position(*expected)), 'position hash')
        # quarter turns form a group acting on positions
        for other in orientations:
            check(
                (orientation * other) * position
                == orientation * (other * position),
                'rotation composition',
            )
        check(-orientation * (orientation * position) == position, 'inverse')

    intervals = [
        (low, high) for low in coordinates for high in coordinates if low <= high
    ]
    for ys, xs in itt.product(intervals, intervals):
        area = Area(ys, xs)
        cells = [(y, x) for y in range(ys[0], ys[1] + 1) for x in range(xs[0], xs[1] + 1)]
        for orientation in orientations:
            result = orientation * area
            check(type(result) is Area, 'rotated area type')
            check(
                type(result.ys) is tuple and type(result.xs) is tuple,
                'rotated area interval types',
            )
            check(
                all(type(v) is int for v in result.ys + result.xs),
                'rotated area coordinate types',
            )
            rotated_cells = sorted(
                ref_rotate_rel(orientation, y, x) for y, x in cells
            )
            result_cells = sorted(p.yx for p in result.positions())
            check(
                rotated_cells == result_cells,
                f'{orientation} * {area} = {result}',
            )
            check(
                (result.height, result.width)
                == (
                    (area.height, area.width)
                    if orientation in (F, B)
                    else (area.width, area.height)
                ),
                'rotated area shape',
            )
            check(
                hash(result) == hash(Area(result.ys, result.xs))
                and result == Area(tuple(result.ys), tuple(result.xs)),
                'rotated area hash',
            )
            check(area * orientation == result, 'area rmul')
            check(-orientation * result == area, 'area inverse')

            # rigid-body transforms: rotate, then translate
            for position in (Position(0, 0), Position(2, 5), Position(-1, 3)):
                transform = Transform(position, orientation)
                moved = transform * area
                check(
                    sorted(p.yx for p in moved.positions())
                    == sorted(
                        (position.y + y, position.x + x)
                        for y, x in rotated_cells
                    ),
                    f'{transform} * {area} = {moved}',
                )
                check(-transform * moved == area, 'transform inverse (area)')
                check(
                    -transform * (transform * Position(ys[0], xs[1]))
                    == Position(ys[0], xs[1]),
                    'transform inverse (position)',
                )
                check(
                    (transform * Position(ys[0], xs[1])).yx
                    == tuple(
                        a + b
                        for a, b in zip(
                            position.yx,
                            ref_rotate_rel(orientation, ys[0], xs[1]),
                        )
                    ),
                    'transform position',
                )

    # orientation composition is untouched, unsupported operands still fail
    check(R * R is B and R * L is F and B * L is R and F * L is L, 'compose')
    for operand in (3, (1, 2), 'x', None):
        kind, value = call(lambda: R * operand)
        check(kind == 'raise' and value is TypeError, f'R * {operand!r}')


def names(grid):
    return [[type(o).__name__[0] for o in row] for row in grid.objects]


def check_hardcoded():
    # 3x4 world
    #   F W K F
    #   F F D F      D: closed door,  K: key
    #   E F F W
    objects = [
        [Floor(), Wall(), Key(Color.NONE), Floor()],
        [Floor(), Floor(), Door(Door.Status.CLOSED, Color.BLUE), Floor()],
        [Exit(), Floor(), Floor(), Wall()],
    ]
    grid = Grid(objects)
    area = Area((-2, 0), (-1, 2))

    expectations = {
        # agent at (2, 2) facing up
        (2, 2, F): [
            ['W', 'K', 'F', 'H'],
            ['F', 'D', 'F', 'H'],
            ['F', 'F', 'W', 'H'],
        ],
        # agent at (2, 2) facing right: forward is +x, left of agent is -y
        (2, 2, R): [
            ['H', 'H', 'H', 'H'],
            ['F', 'W', 'H', 'H'],
            ['D', 'F', 'H', 'H'],
        ],
        # agent at (0, 0) facing down: forward is +y, left of agent is +x
        (0, 0, B): [
            ['F', 'E', 'H', 'H'],
            ['F', 'F', 'H', 'H'],
            ['W', 'F', 'H', 'H'],
        ],
        # agent at (1, 3) facing left: forward is -x, left of agent is +y
        (1, 3, L): [
            ['F', 'F', 'W', 'H'],
            ['F', 'D', 'K', 'H'],
            ['W', 'F', 'F', 'H'],
        ],
    }
    for (y, x, orientation), expected in expectations.items():
        state = State(grid, Agent(Position(y, x), orientation))
        observation = obs_fs.fully_transparent(state, area=area)
        check(
            names(observation.grid) == expected,
            f'hard-coded view {(y, x, orientation)}: {names(observation.grid)}',
        )
        check(
            observation.agent
            == Agent(Position(2, 1), F, NoneGridObject()),
            'hard-coded agent',
        )
        for k in range(4):
            rotated = obs_fs.fully_transparent(
                ref_rotate_world(state, k), area=area
            )
            check(rotated == observation, 'hard-coded rotation')

    # occlusion: the closed door hides what is behind it
    state = State(grid, Agent(Position(2, 2), F))
    observation = obs_fs.partially_occluded(state, area=Area((-2, 0), (0, 0)))
    check(
        names(observation.grid) == [['H'], ['D'], ['F']],
        f'hard-coded occlusion: {names(observation.grid)}',
    )
    observation = obs_fs.raytracing(state, area=Area((-2, 0), (0, 0)))
    check(
        names(observation.grid) == [['H'], ['D'], ['F']],
        f'hard-coded raytracing: {names(observation.grid)}',
    )

    # rotation of a plain grid by an orientation
    letters = Grid(
        [
            [Key(Color.RED), Key(Color.GREEN), Key(Color.BLUE)],
            [Wall(), Floor(), Exit()],
        ]
    )
    (a, b, c), (d, e, f) = letters.objects
    expected = {
        F: [[a, b, c], [d, e, f]],
        R: [[c, f], [b, e], [a, d]],
        B: [[f, e, d], [c, b, a]],
        L: [[d, a], [e, b], [f, c]],
    }
    for orientation, rows in expected.items():
        rotated = letters * orientation
        check(
            len(rotated.objects) == len(rows)
            and all(
                len(ra) == len(rb) and all(p is q for p, q in zip(ra, rb))
                for ra, rb in zip(rotated.objects, rows)
            ),
            f'hard-coded grid rotation {orientation}',
        )
        full = Area((0, 1), (0, 2))
        if 'orientation' in inspect.signature(Grid.subgrid).parameters:
            fused = letters.subgrid(full, orientation=orientation)
            check(
                all(
                    p is q
                    for ra, rb in zip(fused.objects, rows)
                    for p, q in zip(ra, rb)
                )
                and fused.shape == rotated.shape,
                f'hard-coded fused rotation {orientation}',
            )


def check_several_environments():
    """several worlds in one process, built by the reset functions, re-seeded"""
    from gym_gridverse.envs import reset_functions
    from gym_gridverse.geometry import Shape

    area = Area((-4, 0), (-2, 2))
    makers = [
        lambda shape, rng: reset_functions.empty(
            shape, random_agent=True, random_exit=True, rng=rng
        ),
        lambda shape, rng: reset_functions.keydoor(shape, rng=rng),
    ]
    functions = {
        name: obs_fs.factory(name, area=area) for name in DETERMINISTIC
    }
    for maker, shape in itt.product(
        makers, [Shape(5, 5), Shape(5, 9), Shape(9, 6)]
    ):
        first = {}
        for seed in (0, 1, 2, 0, 1, 2):
            state = maker(shape, np.random.default_rng(seed))
            for name, function in functions.items():
                base = function(state)
                for k in range(4):
                    check(
                        function(ref_rotate_world(state, k)) == base,
                        f'C07 violated on reset state {shape} {name}',
                    )
                # re-seeding reproduces the same world, hence the same view
                check(
                    first.setdefault((seed, name), base) == base,
                    're-seeding changed the observation',
                )


def main():
    rng = random.Random(20240707)
    check_geometry()
    check_hardcoded()
    check_subgrid_rotation(rng)
    check_observations(rng)
    check_several_environments()
    print(f'OK ({CHECKS} checks)')


if __name__ == '__main__':
    main()
