"""Check program for commit B (`bump_into` reward/termination with an
`object_type`, `bump_into_wall` expressed through it, shared helper
`envs.utils.attempted_move_hits`).

Run as:  cd /tmp/wt7-C12 && /venv/bin/python -W ignore _seed/B/demo.py

The reference (`ref_target` / `ref_bumps`) is written from the documentation and
shares no code with the library: the attempted move of every (orientation,
action) pair is tabulated by hand below.  The parts which concern the new
components only run when they exist, so that this program also passes on the
tree without the commit.
"""
import os
import sys

sys.path.insert(0, os.getcwd())

import itertools as itt

import numpy as np

from gym_gridverse.action import Action
from gym_gridverse.agent import Agent
from gym_gridverse.envs import reset_functions as reset_fs
from gym_gridverse.envs import reward_functions as reward_fs
from gym_gridverse.envs import terminating_functions as terminating_fs
from gym_gridverse.envs import transition_functions as transition_fs
from gym_gridverse.envs import utils as envs_utils
from gym_gridverse.envs.yaml import factory as yaml_factory
from gym_gridverse.geometry import Orientation, Position, Shape
from gym_gridverse.grid import Grid
from gym_gridverse.grid_object import (
    Box,
    Color,
    Door,
    Exit,
    Floor,
    GridObject,
    Key,
    MovingObstacle,
    Wall,
)
from gym_gridverse.rng import make_rng
from gym_gridverse.state import State
from gym_gridverse.utils.fast_copy import fast_copy

checks = 0


def check(condition, message=''):
    global checks
    checks += 1
    if not condition:
        raise AssertionError(message)


HAS_FEATURE = 'bump_into' in reward_fs.reward_function_registry
check(
    HAS_FEATURE == ('bump_into' in terminating_fs.terminating_function_registry)
)
check(HAS_FEATURE == hasattr(envs_utils, 'attempted_move_hits'))

# ------------------------------------------------------------------ reference

N, S, W, E = (-1, 0), (1, 0), (0, -1), (0, 1)
# (orientation the agent faces, action) -> displacement (dy, dx) in the grid;
# y grows downward, FORWARD orientation faces up (north)
DISPLACEMENT = {
    (Orientation.F, Action.MOVE_FORWARD): N,
    (Orientation.F, Action.MOVE_BACKWARD): S,
    (Orientation.F, Action.MOVE_LEFT): W,
    (Orientation.F, Action.MOVE_RIGHT): E,
    (Orientation.R, Action.MOVE_FORWARD): E,
    (Orientation.R, Action.MOVE_BACKWARD): W,
    (Orientation.R, Action.MOVE_LEFT): N,
    (Orientation.R, Action.MOVE_RIGHT): S,
    (Orientation.B, Action.MOVE_FORWARD): S,
    (Orientation.B, Action.MOVE_BACKWARD): N,
    (Orientation.B, Action.MOVE_LEFT): E,
    (Orientation.B, Action.MOVE_RIGHT): W,
    (Orientation.L, Action.MOVE_FORWARD): W,
    (Orientation.L, Action.MOVE_BACKWARD): E,
    (Orientation.L, Action.MOVE_LEFT): S,
    (Orientation.L, Action.MOVE_RIGHT): N,
}


def ref_target(state, action):
    """cell (y, x) the agent attempts to occupy, or None if outside the grid"""
    dy, dx = DISPLACEMENT.get((state.agent.orientation, action), (0, 0))
    y = state.agent.position.y + dy
    x = state.agent.position.x + dx
    if 0 <= y < state.grid.shape.height and 0 <= x < state.grid.shape.width:
        return y, x
    return None


def ref_bumps(state, action, object_type):
    target = ref_target(state, action)
    return target is not None and isinstance(
        state.grid.objects[target[0]][target[1]], object_type
    )


# ----------------------------------------------------------------- utilities


class ReinforcedWall(Wall):
    """a user-defined kind of wall (bumping into it is bumping into a wall)"""


ALL_ACTIONS = list(Action)

DYNAMICS = yaml_factory.factory_transition_function(
    {
        'name': 'chain',
        'transition_functions': [
            {'name': 'move_obstacles'},
            {'name': 'move_agent'},
            {'name': 'turn_agent'},
            {'name': 'actuate_door'},
            {'name': 'pickndrop'},
        ],
    }
)


def random_cell(rng):
    kind = rng.integers(12)
    if kind < 4:
        return Floor()
    if kind < 7:
        return Wall()
    if kind == 7:
        return ReinforcedWall()
    if kind == 8:
        return Door(list(Door.Status)[rng.integers(3)], Color.BLUE)
    if kind == 9:
        return Key(Color.BLUE)
    if kind == 10:
        return MovingObstacle()
    return Exit()


def random_grid(rng, height, width):
    return Grid(
        [[random_cell(rng) for _ in range(width)] for _ in range(height)]
    )


def next_states(state, action, rng):
    """next states to try: of the real dynamics, arbitrary ones, and None
    (the bump components never look at it)"""
    yield transition_fs.transition_with_copy(
        DYNAMICS, state, action, rng=make_rng(0)
    )
    other = random_grid(rng, 2, 3)
    yield State(other, Agent(Position(1, 2), Orientation.L))
    yield None


REWARD_VALUES = [-1.0, 0.0, 2.5, -7, float('inf'), 10**20]

# -------------------------------------- part 1: single components, all poses


def check_wall_components(state, action, next_state):
    expected = ref_bumps(state, action, Wall)
    state_before = fast_copy(state)

    # termination: exactly the bool it documents
    terminal = terminating_fs.bump_into_wall(state, action, next_state)
    check(terminal is expected, (terminal, expected))
    terminal = terminating_fs.bump_into_wall(
        state, action, next_state, rng=make_rng(3)
    )
    check(terminal is expected)
    terminal = terminating_fs.factory('bump_into_wall')(
        state, action, next_state
    )
    check(terminal is expected)

    # reward: default, explicit values (returned as given), via factories
    reward = reward_fs.bump_into_wall(state, action, next_state)
    check(type(reward) is float and reward == (-1.0 if expected else 0.0))
    for value in REWARD_VALUES:
        reward = reward_fs.bump_into_wall(
            state, action, next_state, reward=value
        )
        if expected:
            check(reward is value, (reward, value))
        else:
            check(type(reward) is float and reward == 0.0, reward)

        reward = reward_fs.factory('bump_into_wall', reward=value)(
            state, action, next_state, rng=None
        )
        check(reward is value if expected else reward == 0.0)

    # keys which are not parameters of the component are dropped by the
    # factories, as they always were (in particular `object_type`)
    reward = reward_fs.factory('bump_into_wall', object_type=Exit, foo=1)(
        state, action, next_state
    )
    check(reward == (-1.0 if expected else 0.0))
    terminal = terminating_fs.factory('bump_into_wall', object_type=Exit)(
        state, action, next_state
    )
    check(terminal is expected)

    check(state == state_before, 'state is left alone')
    return expected


def check_generic_components(state, action, next_state):
    """the new components, for several object types"""
    for object_type in [Wall, ReinforcedWall, Exit, Door, Floor, GridObject]:
        expected = ref_bumps(state, action, object_type)

        check(
            envs_utils.attempted_move_hits(state, action, object_type)
            is expected
        )
        terminal = terminating_fs.bump_into(
            state, action, next_state, object_type=object_type
        )
        check(terminal is expected)
        terminal = terminating_fs.factory('bump_into', object_type=object_type)(
            state, action, next_state
        )
        check(terminal is expected)

        reward = reward_fs.bump_into(
            state, action, next_state, object_type=object_type
        )
        check(type(reward) is float and reward == (-1.0 if expected else 0.0))
        for value in REWARD_VALUES:
            reward = reward_fs.bump_into(
                state, action, next_state, object_type=object_type, reward=value
            )
            check(reward is value if expected else reward == 0.0)

    # with walls the generic and the specific components coincide
    check(
        terminating_fs.bump_into(state, action, next_state, object_type=Wall)
        is terminating_fs.bump_into_wall(state, action, next_state)
    )
    check(
        reward_fs.bump_into(
            state, action, next_state, object_type=Wall, reward=-0.75
        )
        == reward_fs.bump_into_wall(state, action, next_state, reward=-0.75)
    )


def part_all_poses():
    rng = np.random.default_rng(99)
    shapes = [
        (1, 1),
        (1, 2),
        (2, 1),
        (1, 5),
        (5, 1),
        (2, 2),
        (3, 3),
        (2, 6),
        (6, 2),
        (4, 7),
        (7, 4),
    ]
    fired = 0
    total = 0
    for height, width in shapes:
        for _ in range(6):
            grid = random_grid(rng, height, width)
            for position in grid.area.positions():
                for orientation in Orientation:
                    # the agent may stand anywhere, also on a wall
                    state = State(
                        fast_copy(grid), Agent(position, orientation)
                    )
                    for action in ALL_ACTIONS:
                        for next_state in next_states(state, action, rng):
                            fired += check_wall_components(
                                state, action, next_state
                            )
                            total += 1
                            if HAS_FEATURE:
                                check_generic_components(
                                    state, action, next_state
                                )
    check(0.1 < fired / total < 0.9, (fired, total))

    # all-wall and all-floor grids: borders and corners never bump outward
    for height, width in shapes:
        for factory, inside in [(Wall, True), (Floor, False)]:
            grid = Grid.from_shape((height, width), factory=factory)
            for position in grid.area.positions():
                for orientation in Orientation:
                    state = State(grid, Agent(position, orientation))
                    for action in ALL_ACTIONS:
                        expected = inside and (
                            ref_target(state, action) is not None
                        )
                        check(
                            terminating_fs.bump_into_wall(state, action, None)
                            is expected
                        )
                        check(
                            reward_fs.bump_into_wall(
                                state, action, None, reward=-2.0
                            )
                            == (-2.0 if expected else 0.0)
                        )


# ------------------------------------------------ part 2: factories, registry


def outcome(f, *args, **kwargs):
    try:
        return ('ok', f(*args, **kwargs))
    except Exception as error:  # pylint: disable=broad-except
        return ('raise', (type(error), str(error)))


def part_factories():
    reward_names = [
        'reduce',
        'reduce_sum',
        'overlap',
        'living_reward',
        'reach_exit',
        'bump_moving_obstacle',
        'proportional_to_distance',
        'getting_closer',
        'getting_closer_shortest_path',
        'bump_into_wall',
        'actuate_door',
        'pickndrop',
        'reach_exit_memory',
    ]
    terminating_names = [
        'reduce',
        'reduce_any',
        'reduce_all',
        'overlap',
        'reach_exit',
        'bump_moving_obstacle',
        'bump_into_wall',
    ]
    extra = ['bump_into'] if HAS_FEATURE else []

    def without_extra(names):
        return [name for name in names if name not in extra]

    # every name which was registered still is, in the same relative order
    check(
        without_extra(reward_fs.reward_function_registry.keys())
        == reward_names
    )
    check(
        without_extra(terminating_fs.terminating_function_registry.keys())
        == terminating_names
    )
    check(
        len(reward_fs.reward_function_registry)
        == len(reward_names) + len(extra)
    )
    check(
        len(terminating_fs.terminating_function_registry)
        == len(terminating_names) + len(extra)
    )
    # the registered objects are the module-level functions
    check(
        reward_fs.reward_function_registry['bump_into_wall']
        is reward_fs.bump_into_wall
    )
    check(
        terminating_fs.terminating_function_registry['bump_into_wall']
        is terminating_fs.bump_into_wall
    )

    # signatures of the existing components are what they were
    import inspect

    check(
        str(inspect.signature(reward_fs.bump_into_wall)).replace(
            'numpy.random._generator.', 'rnd.'
        )
        == '(state: gym_gridverse.state.State, action: gym_gridverse.action.Action, '
        'next_state: gym_gridverse.state.State, *, reward: float = -1.0, '
        'rng: Optional[rnd.Generator] = None)',
        str(inspect.signature(reward_fs.bump_into_wall)),
    )
    check(
        str(inspect.signature(terminating_fs.bump_into_wall)).replace(
            'numpy.random._generator.', 'rnd.'
        )
        == '(state: gym_gridverse.state.State, action: gym_gridverse.action.Action, '
        'next_state: gym_gridverse.state.State, *, '
        'rng: Optional[rnd.Generator] = None) -> bool',
        str(inspect.signature(terminating_fs.bump_into_wall)),
    )

    # unknown names keep failing the same way
    for name in ['bump_into_walls', 'bump']:
        result = outcome(reward_fs.factory, name)
        check(
            result
            == ('raise', (ValueError, f'invalid reward function name {name}'))
        )
        result = outcome(terminating_fs.factory, name)
        check(
            result
            == (
                'raise',
                (ValueError, f'invalid terminating function name {name}'),
            )
        )

    if HAS_FEATURE:
        # `object_type` is required by the new components
        check(
            outcome(reward_fs.factory, 'bump_into')
            == ('raise', (ValueError, 'missing keyword argument `object_type`'))
        )
        check(
            outcome(terminating_fs.factory, 'bump_into')
            == ('raise', (ValueError, 'missing keyword argument `object_type`'))
        )
        # and available from the dict ("yaml") format
        function = yaml_factory.factory_reward_function(
            {'name': 'bump_into', 'object_type': 'Exit', 'reward': 3.0}
        )
        check(function.func is reward_fs.bump_into)
        check(function.keywords == {'object_type': Exit, 'reward': 3.0})
        function = yaml_factory.factory_terminating_function(
            {'name': 'bump_into', 'object_type': 'Door'}
        )
        check(function.func is terminating_fs.bump_into)
        check(function.keywords == {'object_type': Door})


# ---------------------------------- part 3: composites along trajectories


def make_components():
    """the reward/termination of the shipped dynamic-obstacles
    configurations (from python dicts), and their parts"""
    reward = yaml_factory.factory_reward_function(
        {
            'name': 'reduce_sum',
            'reward_functions': [
                {'name': 'reach_exit', 'reward_on': 5.0, 'reward_off': 0.0},
                {'name': 'bump_into_wall', 'reward': -0.5},
                {'name': 'bump_moving_obstacle', 'reward': -2.0},
                {'name': 'living_reward', 'reward': -0.25},
            ],
        }
    )
    terminating_any = yaml_factory.factory_terminating_function(
        {
            'name': 'reduce_any',
            'terminating_functions': [
                {'name': 'reach_exit'},
                {'name': 'bump_moving_obstacle'},
                {'name': 'bump_into_wall'},
            ],
        }
    )
    terminating_all = yaml_factory.factory_terminating_function(
        {
            'name': 'reduce_all',
            'terminating_functions': [
                {'name': 'reach_exit'},
                {'name': 'bump_into_wall'},
            ],
        }
    )
    return reward, terminating_any, terminating_all


def part_trajectories():
    resets = [
        lambda rng: reset_fs.dynamic_obstacles(Shape(5, 5), 1, rng=rng),
        lambda rng: reset_fs.dynamic_obstacles(Shape(7, 7), 4, rng=rng),
        lambda rng: reset_fs.dynamic_obstacles(Shape(5, 9), 3, True, rng=rng),
        lambda rng: reset_fs.dynamic_obstacles(Shape(9, 4), 2, True, rng=rng),
        lambda rng: reset_fs.empty(Shape(4, 6), True, True, rng=rng),
        lambda rng: reset_fs.rooms(Shape(7, 9), (2, 2), rng=rng),
        lambda rng: reset_fs.keydoor(Shape(6, 9), rng=rng),
        lambda rng: reset_fs.crossing(Shape(7, 9), 2, Wall, rng=rng),
    ]
    # two sets of components in the same process, used alternately
    components = [make_components(), make_components()]
    counts = {'exit': 0, 'wall': 0, 'obstacle': 0}
    for reset_index, reset in enumerate(resets):
        for seed in range(8):
            rng = make_rng(100 * reset_index + seed)
            action_rng = np.random.default_rng(seed)
            state = reset(rng)
            for step in range(60):
                reward_f, any_f, all_f = components[(seed + step) % 2]
                action = ALL_ACTIONS[action_rng.integers(len(ALL_ACTIONS))]
                next_state = transition_fs.transition_with_copy(
                    DYNAMICS, state, action, rng=rng
                )

                rng_before = fast_copy(rng.bit_generator.state)
                reward = reward_f(state, action, next_state, rng=rng)
                terminal_any = any_f(state, action, next_state, rng=rng)
                terminal_all = all_f(state, action, next_state, rng=rng)
                check(
                    rng.bit_generator.state == rng_before,
                    'no random numbers are drawn',
                )

                cell = next_state.grid.objects[next_state.agent.position.y][
                    next_state.agent.position.x
                ]
                on_exit = isinstance(cell, Exit)
                on_obstacle = isinstance(cell, MovingObstacle)
                bumps = ref_bumps(state, action, Wall)
                counts['exit'] += on_exit
                counts['wall'] += bumps
                counts['obstacle'] += on_obstacle

                # sum of the parts, in order
                expected = (
                    0
                    + (5.0 if on_exit else 0.0)
                    + (-0.5 if bumps else 0.0)
                    + (-2.0 if on_obstacle else 0.0)
                    + -0.25
                )
                check(reward == expected, (reward, expected))
                check(terminal_any is (on_exit or on_obstacle or bumps))
                check(terminal_all is (on_exit and bumps))
                # the parts agree with each other
                check(
                    terminating_fs.reach_exit(state, action, next_state)
                    is (reward_fs.reach_exit(state, action, next_state) == 1.0)
                )
                check(
                    terminating_fs.bump_into_wall(state, action, next_state)
                    is (
                        reward_fs.bump_into_wall(state, action, next_state)
                        == -1.0
                    )
                )
                # with the real dynamics, bumping into a wall leaves the
                # agent where it was
                if bumps and action.is_move():
                    check(next_state.agent.position == state.agent.position)

                state = reset(rng) if terminal_any else next_state
    check(all(count > 20 for count in counts.values()), counts)


if __name__ == '__main__':
    part_all_poses()
    part_factories()
    part_trajectories()
    print(
        f'OK ({checks} checks, new components '
        f'{"present" if HAS_FEATURE else "absent"})'
    )
