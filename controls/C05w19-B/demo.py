"""Demo for change B (Agent.pov / Agent.pov_area used by observation_functions.from_visibility).

Checks property C05 (observations are sound) against a reference that is
embedded here and does not use the library's geometry: the world cell behind
every view cell is computed with explicit per-heading formulas.  Also checks
that the built-in observation functions give exactly the result of a verbatim
copy of the pristine `from_visibility` (same cells, same object identities,
same consumption of the random stream).

Runs unchanged on the pristine tree and with the patch applied; exits 0 on
success.
"""
import itertools as itt
import os
import sys

sys.path.insert(0, os.getcwd())

import numpy as np  # noqa: E402

from gym_gridverse.agent import Agent  # noqa: E402
from gym_gridverse.envs import observation_functions as ofs  # noqa: E402
from gym_gridverse.envs.visibility_functions import (  # noqa: E402
    visibility_function_registry,
)
from gym_gridverse.geometry import Area, Orientation, Position  # noqa: E402
from gym_gridverse.grid import Grid  # noqa: E402
from gym_gridverse.grid_object import (  # noqa: E402
    Beacon,
    Box,
    Color,
    Door,
    Exit,
    Floor,
    Hidden,
    Key,
    MovingObstacle,
    NoneGridObject,
    Telepod,
    Wall,
)
from gym_gridverse.observation import Observation  # noqa: E402
from gym_gridverse.state import State  # noqa: E402

FUNCTIONS = [
    'fully_transparent',
    'partially_occluded',
    'raytracing',
    'stochastic_raytracing',
]


# --------------------------------------------------------------------------
# reference (no library geometry)
# --------------------------------------------------------------------------


def world_cell(agent_y, agent_x, heading, dy, dx):
    """world (y, x) of the view cell at offset (dy, dx) from the anchor;
    dy < 0 is in front of the agent, dx > 0 is to its right"""
    if heading is Orientation.F:  # facing north
        return agent_y + dy, agent_x + dx
    if heading is Orientation.B:  # facing south
        return agent_y - dy, agent_x - dx
    if heading is Orientation.R:  # facing east
        return agent_y + dx, agent_x - dy
    if heading is Orientation.L:  # facing west
        return agent_y - dx, agent_x + dy
    raise AssertionError(heading)


def expected_cells(state, area):
    """matrix of (world object or None if outside the grid)"""
    height, width = len(state.grid.objects), len(state.grid.objects[0])
    rows = []
    for dy in range(area.ys[0], area.ys[1] + 1):
        row = []
        for dx in range(area.xs[0], area.xs[1] + 1):
            y, x = world_cell(
                state.agent.position.y,
                state.agent.position.x,
                state.agent.orientation,
                dy,
                dx,
            )
            inside = 0 <= y < height and 0 <= x < width
            row.append(state.grid.objects[y][x] if inside else None)
        rows.append(row)
    return rows


def pristine_from_visibility(state, *, area, visibility_function, rng=None):
    """verbatim copy of the pristine observation function"""
    pov_area = state.agent.transform * area
    pov_agent_position = Position(-area.ymin, -area.xmin)

    observation_grid = state.grid.subgrid(pov_area) * state.agent.orientation
    visibility = visibility_function(
        observation_grid, pov_agent_position, rng=rng
    )

    if visibility.shape != (area.height, area.width):
        raise ValueError('incorrect visibility shape')

    for pos in observation_grid.area.positions():
        if not visibility[pos.y, pos.x]:
            observation_grid[pos] = Hidden()

    observation_agent = Agent(
        pov_agent_position, Orientation.F, state.agent.grid_object
    )
    return Observation(observation_grid, observation_agent)


# --------------------------------------------------------------------------
# checks
# --------------------------------------------------------------------------

CHECKS = 0


def check(condition, *context):
    global CHECKS
    CHECKS += 1
    if not condition:
        print('FAILED', *context)
        sys.exit(1)


def call(function, *args, **kwargs):
    try:
        return function(*args, **kwargs), None
    except Exception as error:  # pylint: disable=broad-except
        return None, error


def check_observation(state, area, name, seed):
    context = (
        name,
        state.grid.shape,
        state.agent.position,
        state.agent.orientation,
        area,
        seed,
    )

    # snapshots, to detect mutation of the state
    objects_before = [list(row) for row in state.grid.objects]
    pose_before = (state.agent.position, state.agent.orientation)
    item_before = state.agent.grid_object

    function = getattr(ofs, name)
    observation, error = call(
        function, state, area=area, rng=np.random.default_rng(seed)
    )
    reference, reference_error = call(
        pristine_from_visibility,
        state,
        area=area,
        visibility_function=visibility_function_registry[name],
        rng=np.random.default_rng(seed),
    )

    # the same inputs are rejected, in the same way
    check(type(error) is type(reference_error), 'errors', error, *context)
    if error is not None:
        return False

    # the state was not modified
    check(
        all(
            a is b
            for row_a, row_b in zip(objects_before, state.grid.objects)
            for a, b in zip(row_a, row_b)
        )
        and len(objects_before) == len(state.grid.objects),
        'state grid mutated',
        *context,
    )
    check(
        (state.agent.position, state.agent.orientation) == pose_before
        and state.agent.grid_object is item_before,
        'state agent mutated',
        *context,
    )

    # shape
    check(
        observation.grid.shape.as_tuple == (area.height, area.width),
        'shape',
        *context,
    )
    check(
        len(observation.grid.objects) == area.height
        and all(len(row) == area.width for row in observation.grid.objects),
        'objects shape',
        *context,
    )
    check(
        observation.grid.area
        == Area((0, area.height - 1), (0, area.width - 1)),
        'grid area',
        *context,
    )

    # agent: at the anchor, facing forward, same item
    check(
        observation.agent.position.yx == (-area.ys[0], -area.xs[0]),
        'anchor',
        *context,
    )
    check(observation.agent.orientation is Orientation.F, 'heading', *context)
    check(
        observation.agent.grid_object is state.agent.grid_object,
        'item',
        *context,
    )

    # cells
    expected = expected_cells(state, area)
    for y, x in itt.product(range(area.height), range(area.width)):
        obj = observation.grid.objects[y][x]
        exp = expected[y][x]
        if exp is None:
            check(type(obj) is Hidden, 'outside is not hidden', y, x, *context)
        elif name == 'fully_transparent':
            check(obj is exp, 'transparent cell', y, x, obj, exp, *context)
        else:
            check(
                type(obj) is Hidden or obj is exp,
                'unsound cell',
                y,
                x,
                obj,
                exp,
                *context,
            )

        # exactly what the pristine function gives
        ref = reference.grid.objects[y][x]
        check(
            (type(obj) is Hidden and type(ref) is Hidden and exp is not obj)
            or obj is ref,
            'differs from pristine',
            y,
            x,
            obj,
            ref,
            *context,
        )

    check(observation == reference, 'observation != pristine', *context)
    check(
        hash(observation.grid) == hash(reference.grid),
        'grid hash',
        *context,
    )
    return True


def random_object(rng):
    colors = list(Color)
    kind = rng.integers(12)
    color = colors[rng.integers(len(colors))]
    if kind <= 2:
        return Floor()
    if kind <= 4:
        return Wall()
    if kind == 5:
        return Exit(color)
    if kind == 6:
        status = list(Door.Status)[rng.integers(len(Door.Status))]
        return Door(status, color)
    if kind == 7:
        return Key(color)
    if kind == 8:
        return MovingObstacle()
    if kind == 9:
        return Box(Key(color))
    if kind == 10:
        return Telepod(color)
    return Beacon(color)


def random_grid(rng, height, width):
    return Grid(
        [[random_object(rng) for _ in range(width)] for _ in range(height)]
    )


SHAPES = [(1, 1), (1, 5), (4, 1), (2, 2), (3, 7), (6, 4)]

AREAS = [
    Area((0, 0), (0, 0)),  # only the agent's cell
    Area((-6, 0), (-3, 3)),  # the default 7x7 view
    Area((-2, 0), (-1, 1)),
    Area((-3, 0), (-1, 2)),  # asymmetric, left / right
    Area((-2, 0), (-4, 0)),  # agent in the bottom right corner
    Area((-1, 0), (0, 3)),  # agent in the bottom left corner
    Area((-2, 1), (-2, 1)),  # sees behind
    Area((-1, 2), (-3, 1)),
    Area((0, 3), (0, 2)),  # agent in the top left corner, sees only behind
    Area((-9, 0), (-8, 8)),  # much larger than every grid
    Area((-4, 0), (0, 0)),  # a column
    Area((0, 0), (-2, 3)),  # a row
    Area((-3, -1), (-1, 1)),  # anchor outside of the view
    Area((1, 2), (2, 4)),  # anchor outside of the view
    Area((0, 0), (-3, -2)),  # anchor outside of the view
]


def positions_of_interest(height, width):
    """corners, borders, one inside, and (for small grids) everything"""
    if height * width <= 8:
        return [Position(y, x) for y in range(height) for x in range(width)]
    ys = sorted({0, height // 2, height - 1})
    xs = sorted({0, width // 2, width - 1})
    return [Position(y, x) for y in ys for x in xs]


def main():
    rng = np.random.default_rng(20260927)
    held_items = [None, Key(Color.NONE), Key(Color.RED), Box(Floor())]

    n_observations = 0
    n_rejected = 0
    for height, width in SHAPES:
        grid = random_grid(rng, height, width)
        for position in positions_of_interest(height, width):
            for heading in [
                Orientation.F,
                Orientation.R,
                Orientation.B,
                Orientation.L,
            ]:
                held = held_items[rng.integers(len(held_items))]
                state = State(grid, Agent(position, heading, held))
                for area, name in itt.product(AREAS, FUNCTIONS):
                    seed = int(rng.integers(1000))
                    if check_observation(state, area, name, seed):
                        n_observations += 1
                    else:
                        n_rejected += 1

    check(n_observations > 5000, 'too few observations', n_observations)

    # hard-coded expectation, a 3x4 grid seen from the right border facing east
    #
    #    W . K .        agent at (1, 3) facing east, view: 2 ahead, 1 to each
    #    . D . A>       side, 1 behind
    #    . . E W
    W, K, D, E = Wall(), Key(Color.NONE), Door(Door.Status.OPEN, Color.BLUE), Exit()
    f = [Floor() for _ in range(7)]
    grid = Grid([[W, f[0], K, f[1]], [f[2], D, f[3], f[4]], [f[5], f[6], E, Wall()]])
    state = State(grid, Agent(Position(1, 3), Orientation.R, K))
    observation = ofs.fully_transparent(state, area=Area((-2, 1), (-1, 1)))
    # rows: 2 ahead (x=5), 1 ahead (x=4), agent column (x=3), behind (x=2);
    # columns: left (y=0), centre (y=1), right (y=2)
    expected = [
        [None, None, None],
        [None, None, None],
        [f[1], f[4], grid[2, 3]],
        [K, f[3], E],
    ]
    for y, x in itt.product(range(4), range(3)):
        obj = observation.grid[y, x]
        if expected[y][x] is None:
            check(type(obj) is Hidden, 'hard-coded hidden', y, x)
        else:
            check(obj is expected[y][x], 'hard-coded cell', y, x, obj)
    check(observation.agent.position == Position(2, 1), 'hard-coded anchor')
    check(observation.agent.grid_object is K, 'hard-coded item')
    check(isinstance(state.agent.grid_object, Key), 'hard-coded state item')

    # default held item
    state = State(grid, Agent(Position(0, 0), Orientation.B))
    observation = ofs.raytracing(state, area=Area((-1, 0), (-1, 1)))
    check(isinstance(observation.agent.grid_object, NoneGridObject), 'no item')
    check(observation.grid[1, 1] is W, 'agent cell')
    check(type(observation.grid[1, 2]) is Hidden, 'right of the agent, facing south at x=0')

    # repeated calls give equal and independent observations
    state = State(random_grid(rng, 5, 6), Agent(Position(4, 0), Orientation.L))
    area = Area((-3, 0), (-2, 2))
    first = ofs.fully_transparent(state, area=area)
    second = ofs.fully_transparent(state, area=area)
    check(first == second, 'repeated calls')
    check(first.grid is not second.grid, 'fresh grid')
    check(first.grid.objects is not second.grid.objects, 'fresh rows')
    second.grid[0, 0] = Wall()
    third = ofs.fully_transparent(state, area=area)
    check(first == third, 'observations share rows')

    # same seed, same stochastic observation; the factory gives the same thing
    function = ofs.factory('stochastic_raytracing', area=area)
    a = function(state, rng=np.random.default_rng(7))
    b = ofs.stochastic_raytracing(state, area=area, rng=np.random.default_rng(7))
    check(a == b, 're-seeding')


    # the observed agent is a fresh object which does not alias the state's
    state = State(random_grid(rng, 4, 3), Agent(Position(3, 2), Orientation.B, K))
    area = Area((-2, 0), (-3, 0))
    for name in FUNCTIONS:
        before = (state.agent.position, state.agent.orientation, hash(state.agent))
        one = getattr(ofs, name)(state, area=area, rng=np.random.default_rng(3))
        two = getattr(ofs, name)(state, area=area, rng=np.random.default_rng(3))
        check(one.agent is not state.agent, 'observed agent is the state agent')
        check(one.agent is not two.agent, 'observed agent is shared')
        check(one.agent.transform is not two.agent.transform, 'shared transform')
        check(one.agent.transform is not state.agent.transform, 'aliased transform')
        check(one.agent == two.agent and hash(one.agent) == hash(two.agent), 'agent eq / hash')
        check(one.agent == Agent(Position(2, 3), Orientation.F, Key(Color.NONE)), 'agent value')
        check(one.agent != state.agent, 'agent differs from the state agent')
        # moving / turning the observed agent leaves the state and other observations alone
        one.agent.position = Position(0, 0)
        one.agent.orientation = Orientation.L
        check(
            (state.agent.position, state.agent.orientation, hash(state.agent)) == before,
            'state agent changed through the observation',
        )
        check(two.agent.position == Position(2, 3), 'other observation moved')
        check(two.agent.orientation is Orientation.F, 'other observation turned')
        three = getattr(ofs, name)(state, area=area, rng=np.random.default_rng(3))
        check(three == two, 'later observation changed')

    # the state agent may move between calls (several steps of one episode)
    state = State(random_grid(rng, 3, 5), Agent(Position(0, 0), Orientation.F))
    area = Area((-2, 0), (-1, 1))
    for position, heading in [
        (Position(0, 4), Orientation.R),
        (Position(2, 4), Orientation.B),
        (Position(2, 0), Orientation.L),
        (Position(1, 2), Orientation.F),
    ]:
        state.agent.position = position
        state.agent.orientation = heading
        for name in FUNCTIONS:
            check(check_observation(state, area, name, 11), 'moved agent', name)

    print(
        f'ok: {n_observations} observations checked, '
        f'{n_rejected} rejected like pristine, {CHECKS} checks'
    )


if __name__ == '__main__':
    main()
